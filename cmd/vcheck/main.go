// vcheck run <Cxx> [--tier quick|thorough]   |   vcheck replay <file>
package main

import (
	"encoding/json"
	"fmt"
	"os"
	"runtime/pprof"
	"sort"
	"time"

	"verif/checks"
	"verif/internal/core"
)

func usage() {
	fmt.Fprintln(os.Stderr, "usage: vcheck run <id> [--tier quick|thorough] | vcheck replay <file> | vcheck list")
	os.Exit(2)
}

func main() {
	os.Unsetenv("DEBUG_I2P")
	os.Unsetenv("WARNFAIL_I2P")
	// Environment: the process's local time zone is deliberately NOT UTC (UTC-09:30: west of Greenwich, not a whole
	// number of hours), so that code reaching for time.Local / Time.Local() / a zone-less format where the
	// specification says UTC computes a different calendar day or second count than the oracles, which use UTC.
	time.Local = time.FixedZone("verif-local(-09:30)", -(9*3600 + 30*60))
	if len(os.Args) < 2 {
		usage()
	}
	switch os.Args[1] {
	case "list":
		var ids []string
		for id := range checks.Registry {
			ids = append(ids, id)
		}
		sort.Strings(ids)
		for _, id := range ids {
			fmt.Println(id)
		}
	case "run":
		if len(os.Args) < 3 {
			usage()
		}
		id := os.Args[2]
		tier := os.Getenv("VERIF_TIER")
		for i := 3; i < len(os.Args); i++ {
			if os.Args[i] == "--tier" && i+1 < len(os.Args) {
				tier = os.Args[i+1]
			}
		}
		if tier != "thorough" {
			tier = "quick"
		}
		c, ok := checks.Registry[id]
		if !ok {
			fmt.Fprintln(os.Stderr, "unknown property", id)
			os.Exit(2)
		}
		r := core.NewRun(id, tier)
		if pf := os.Getenv("VERIF_CPUPROFILE"); pf != "" {
			f, _ := os.Create(pf)
			pprof.StartCPUProfile(f)
			c.Run(r)
			pprof.StopCPUProfile()
			f.Close()
		} else {
			// a panic of the library that escapes a check's own guards (on the check's main goroutine) is
			// reported as a violation of the property being checked - the operation produced no result -
			// instead of crashing the harness; a panic that is not in library code is a harness fault (exit 2)
			if pan, msg, site := core.GuardSite(func() { c.Run(r) }); pan {
				if site == "unknown" {
					fmt.Fprintln(os.Stderr, "HARNESS-PANIC:", msg)
					os.Exit(2)
				}
				r.Capped.Store(true) // the enumeration was cut short
				r.Note("aborted_by_library_panic", site)
				r.Violate(id+"|library-panics-during-the-check|"+site, "the library panics on an input of this check's domain: "+msg, core.Case{Kind: "crash", Args: map[string]string{"site": site}})
			}
		}
		os.Exit(r.Finish())
	case "c18worker":
		var i, n int
		fmt.Sscan(os.Args[2], &i)
		fmt.Sscan(os.Args[3], &n)
		checks.C18Worker(i, n, os.Args[4])
	case "c18debug":
		checks.C18Debug()
	case "c18race":
		rounds := 40
		if len(os.Args) > 2 {
			fmt.Sscan(os.Args[2], &rounds)
		}
		checks.C18Race(rounds)
	case "replay":
		if len(os.Args) < 3 {
			usage()
		}
		b, err := os.ReadFile(os.Args[2])
		if err != nil {
			fmt.Fprintln(os.Stderr, err)
			os.Exit(2)
		}
		var v core.Violation
		if err := json.Unmarshal(b, &v); err != nil {
			fmt.Fprintln(os.Stderr, err)
			os.Exit(2)
		}
		c, ok := checks.Registry[v.Property]
		if !ok || c.Replay == nil {
			fmt.Fprintln(os.Stderr, "no replayer for", v.Property)
			os.Exit(2)
		}
		// replay twice; observations must be identical before the result is believed
		var outs [2]string
		code := 0
		for k := 0; k < 2; k++ {
			r := core.NewRun(v.Property, "quick")
			r.Replaying = true
			c.Replay(r, v.Case)
			outs[k] = r.ReplaySummary()
			if k == 1 {
				code = r.Finish()
			}
		}
		if outs[0] != outs[1] {
			fmt.Println("REPLAY-NONDETERMINISTIC: two replays of the same case disagree; not believed")
			fmt.Println(outs[0])
			fmt.Println(outs[1])
			os.Exit(3)
		}
		os.Exit(code)
	default:
		usage()
	}
}
