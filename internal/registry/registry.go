// Package registry: what exists in the library's current tree (generated), so that
// completeness ("every exported type", "every byte-consuming entry point") is re-established at
// every check run rather than frozen in the harness.
package registry

// TypeEntry is one exported named type: Ptr points to its zero value.
type TypeEntry struct {
	Name string
	Kind string // struct | array | other
	Ptr  any
}

// FuncEntry is one exported package-level function (as a func value, called by reflection).
type FuncEntry struct {
	Name string
	Fn   any
}
