// Package core: run context shared by all checks — counters, evidence, violations,
// known findings, replay files, a watchdog for hung calls and a parallel-for helper.
package core

import (
	"crypto/sha256"
	"encoding/hex"
	"encoding/json"
	"fmt"
	"os"
	"path/filepath"
	"runtime"
	"sort"
	"strings"
	"sync"
	"sync/atomic"
	"time"
)

// Root is /verif (overridable for tests).
var Root = func() string {
	if r := os.Getenv("VERIF_ROOT"); r != "" {
		return r
	}
	return "/verif"
}()

type KnownFinding struct {
	Property string `json:"property"`
	Identity string `json:"identity"`
	What     string `json:"what"`
}

type knownFile struct {
	Findings []KnownFinding `json:"findings"`
	Fixed    []string       `json:"fixed"`
}

// Case is a replayable execution: Kind selects the replayer inside the property's check.
type Case struct {
	Kind string            `json:"kind"`
	Args map[string]string `json:"args"`
}

type Violation struct {
	Property string `json:"property"`
	Identity string `json:"identity"` // stable identity used for known-finding matching
	Detail   string `json:"detail"`
	Case     Case   `json:"case"`
}

type Run struct {
	Property string
	Tier     string
	Seed     int64
	Level    string
	Start    time.Time
	Deadline time.Time // internal deadline; when passed, checks stop scheduling and set Capped

	mu        sync.Mutex
	known     map[string]KnownFinding
	knownSeen map[string]int
	viol      map[string]*Violation // by identity, first (smallest) kept
	violCount int
	samples   []any
	notes     map[string]any
	assume    []string
	distinct  map[[16]byte]struct{}

	Evaluations atomic.Int64
	States      atomic.Int64
	Transitions atomic.Int64
	Traces      atomic.Int64
	Capped      atomic.Bool
	Rule        string
	Replaying   bool

	noProgressOff atomic.Bool

	watch sync.Map // worker id -> *watchEntry
}

type watchEntry struct {
	start atomic.Int64
	desc  atomic.Value
	// watchdog-private: the call observed at the previous tick and for how many undisturbed ticks it has been open
	seen  int64
	ticks int
}

func NewRun(property, tier string) *Run {
	r := &Run{Property: property, Tier: tier, Level: "model_checking", Start: time.Now(),
		known: map[string]KnownFinding{}, knownSeen: map[string]int{}, viol: map[string]*Violation{},
		notes: map[string]any{}, distinct: map[[16]byte]struct{}{}}
	fmt.Sscan(os.Getenv("VERIF_SEED"), &r.Seed)
	b, err := os.ReadFile(filepath.Join(Root, "known_findings.json"))
	if err == nil {
		var kf knownFile
		if err := json.Unmarshal(b, &kf); err != nil {
			fmt.Fprintln(os.Stderr, "known_findings.json unreadable:", err)
			os.Exit(2)
		}
		for _, k := range kf.Findings {
			if k.Property == property {
				r.known[k.Identity] = k
			}
		}
	}
	budget := 8 * time.Minute
	if tier == "thorough" {
		budget = 40 * time.Minute
	}
	if s := os.Getenv("VERIF_BUDGET_S"); s != "" {
		var n int
		fmt.Sscan(s, &n)
		if n > 0 {
			budget = time.Duration(n) * time.Second
		}
	}
	r.Deadline = r.Start.Add(budget)
	go r.watchdog()
	return r
}

func (r *Run) Quick() bool { return r.Tier != "thorough" }

// Expired reports whether the internal deadline passed; the caller stops exploring and the
// evidence says exhaustive:false.
func (r *Run) Expired() bool {
	if time.Now().After(r.Deadline) {
		r.Capped.Store(true)
		return true
	}
	return false
}

func (r *Run) Note(k string, v any) { r.mu.Lock(); r.notes[k] = v; r.mu.Unlock() }
func (r *Run) AddNote(k string, n int64) {
	r.mu.Lock()
	cur, _ := r.notes[k].(int64)
	r.notes[k] = cur + n
	r.mu.Unlock()
}
func (r *Run) Assume(s ...string) { r.mu.Lock(); r.assume = append(r.assume, s...); r.mu.Unlock() }

func (r *Run) Sample(v any) {
	r.mu.Lock()
	if len(r.samples) < 12 {
		r.samples = append(r.samples, v)
	}
	r.mu.Unlock()
}

// Distinct records a non-trivial case by content hash (counted in distinct_nontrivial).
func (r *Run) Distinct(parts ...[]byte) {
	h := sha256.New()
	for _, p := range parts {
		var l [4]byte
		l[0], l[1], l[2], l[3] = byte(len(p)>>24), byte(len(p)>>16), byte(len(p)>>8), byte(len(p))
		h.Write(l[:])
		h.Write(p)
	}
	var k [16]byte
	copy(k[:], h.Sum(nil))
	r.mu.Lock()
	r.distinct[k] = struct{}{}
	r.mu.Unlock()
}

func (r *Run) DistinctCount() int { r.mu.Lock(); defer r.mu.Unlock(); return len(r.distinct) }

// Violate records a violation. identity must be stable across runs (no offsets/hex unless they are the class).
func (r *Run) Violate(identity, detail string, c Case) {
	r.mu.Lock()
	defer r.mu.Unlock()
	if _, ok := r.known[identity]; ok {
		r.knownSeen[identity]++
		return
	}
	r.violCount++
	if old, ok := r.viol[identity]; ok {
		// keep the smaller case (shorter detail+args) for readability
		if caseSize(c) >= caseSize(old.Case) {
			return
		}
	}
	r.viol[identity] = &Violation{Property: r.Property, Identity: identity, Detail: detail, Case: c}
}

func caseSize(c Case) int {
	n := 0
	for _, v := range c.Args {
		n += len(v)
	}
	return n
}

// ViolationCount returns the number of recorded (unknown) violations so far.
func (r *Run) ViolationCount() int { r.mu.Lock(); defer r.mu.Unlock(); return r.violCount }

// Begin/End bracket one call into the library for the hang watchdog.
func (r *Run) Begin(worker int, desc func() string) {
	e, _ := r.watch.LoadOrStore(worker, &watchEntry{})
	w := e.(*watchEntry)
	w.desc.Store(desc)
	w.start.Store(time.Now().UnixNano())
}
func (r *Run) End(worker int) {
	if e, ok := r.watch.Load(worker); ok {
		e.(*watchEntry).start.Store(0)
	}
}

// HangLimit is deliberately enormous compared with the microsecond-scale calls being made.
var HangLimit = 120 * time.Second

// NoProgressLimit: a run none of whose counters moves for this long is stuck inside a library call that is not
// bracketed by Begin/End (or in a harness bug); either way it must end with a verdict instead of hanging.
var NoProgressLimit = 6 * time.Minute

// WatchProgress can be cleared by a check whose main goroutine legitimately waits for long (C18's parent process).
func (r *Run) WatchProgress(on bool) { r.noProgressOff.Store(!on) }

func (r *Run) progress() int64 {
	return r.Evaluations.Load() + r.States.Load() + r.Transitions.Load() + r.Traces.Load()
}

// The watchdog measures time in its own undisturbed TICKS, not in wall-clock time: a tick is a 2-second sleep that
// really took about 2 seconds. When the whole process (or the whole sandbox: it is frozen while a snapshot is taken)
// stands still, wall-clock time jumps but no tick is counted, so a call that was merely interrupted is not taken for
// a call that does not return; and on a machine so overloaded that the watchdog itself is scheduled late, the late
// ticks are not counted either. (This replaced a wall-clock limit that raised a false alarm - Appendix A.)
const watchTick = 2 * time.Second

func (r *Run) watchdog() {
	lastProgress, idleTicks := r.progress(), 0
	hangTicks := int(HangLimit / watchTick)
	noProgressTicks := int(NoProgressLimit / watchTick)
	for {
		t0 := time.Now()
		time.Sleep(watchTick)
		disturbed := time.Since(t0) > 2*watchTick
		if p := r.progress(); p != lastProgress {
			lastProgress, idleTicks = p, 0
		} else if !disturbed {
			idleTicks++
		}
		if !r.noProgressOff.Load() && idleTicks > noProgressTicks {
			buf := make([]byte, 1<<20)
			buf = buf[:runtime.Stack(buf, true)]
			os.MkdirAll(filepath.Join(Root, "replays"), 0o755)
			dump := filepath.Join(Root, "replays", r.Property+"-stuck-goroutines.txt")
			os.WriteFile(dump, buf, 0o644)
			site := "unknown"
			for _, l := range strings.Split(string(buf), "\n") {
				if strings.HasPrefix(l, "github.com/go-i2p/common/") {
					site = strings.TrimPrefix(l, "github.com/go-i2p/common/")
					if i := strings.LastIndexByte(site, '('); i > 0 {
						site = site[:i]
					}
					break
				}
			}
			fmt.Printf("HANG: no progress for %v; goroutine dump in %s\n", NoProgressLimit, dump)
			r.Capped.Store(true)
			r.Violate(r.Property+"|hang|no-progress|"+site, fmt.Sprintf("the check made no progress for %v: a library call does not return (innermost library frame of the first stuck goroutine: %s; all goroutines in %s)", NoProgressLimit, site, dump),
				Case{Kind: "hang", Args: map[string]string{"desc": site}})
			os.Exit(r.Finish())
		}
		r.watch.Range(func(k, v any) bool {
			w := v.(*watchEntry)
			s := w.start.Load()
			if s == 0 || s != w.seen {
				w.seen, w.ticks = s, 0
				return true
			}
			if !disturbed {
				w.ticks++
			}
			if w.ticks > hangTicks {
				d := "?"
				if f, ok := w.desc.Load().(func() string); ok && f != nil {
					d = f()
				}
				fmt.Printf("HANG: a single library call exceeded %v: %s\n", HangLimit, d)
				// a library call that never returns violates "returns normally" whichever property's check made it
				r.Capped.Store(true)
				r.Violate(r.Property+"|hang|"+firstField(d), "call did not return within "+HangLimit.String()+": "+d,
					Case{Kind: "hang", Args: map[string]string{"desc": d}})
				os.Exit(r.Finish())
			}
			return true
		})
	}
}

func firstField(s string) string {
	if i := strings.IndexByte(s, ' '); i > 0 {
		return s[:i]
	}
	return s
}

// Finish writes evidence + replay files, prints KNOWN-FINDING / VIOLATION lines, returns exit code.
func (r *Run) Finish() int {
	r.mu.Lock()
	defer r.mu.Unlock()
	if r.Replaying {
		ids := make([]string, 0, len(r.viol))
		for id := range r.viol {
			ids = append(ids, id)
		}
		sort.Strings(ids)
		for _, id := range ids {
			fmt.Printf("REPLAY-VIOLATION property=%s identity=%q\n  %s\n", r.Property, id, r.viol[id].Detail)
		}
		for id := range r.knownSeen {
			fmt.Printf("REPLAY-KNOWN property=%s identity=%q\n", r.Property, id)
		}
		if len(ids) > 0 {
			return 1
		}
		return 0
	}
	ids := make([]string, 0, len(r.viol))
	for id := range r.viol {
		ids = append(ids, id)
	}
	sort.Strings(ids)
	kids := make([]string, 0, len(r.knownSeen))
	for id := range r.knownSeen {
		kids = append(kids, id)
	}
	sort.Strings(kids)
	for _, id := range kids {
		fmt.Printf("KNOWN-FINDING: property=%s %s [identity=%s, %d occurrences]\n", r.Property, r.known[id].What, id, r.knownSeen[id])
	}
	os.MkdirAll(filepath.Join(Root, "replays"), 0o755)
	for _, id := range ids {
		v := r.viol[id]
		h := sha256.Sum256([]byte(id))
		p := filepath.Join(Root, "replays", fmt.Sprintf("%s-%s.json", r.Property, hex.EncodeToString(h[:6])))
		b, _ := json.MarshalIndent(v, "", " ")
		os.WriteFile(p, b, 0o644)
		fmt.Printf("VIOLATION property=%s replay=%s\n  identity: %s\n  detail: %s\n", r.Property, p, id, v.Detail)
	}
	cov := map[string]any{
		"evaluations":             r.Evaluations.Load(),
		"distinct_nontrivial":     len(r.distinct),
		"rule":                    r.Rule,
		"samples":                 r.samples,
		"exhaustive":              !r.Capped.Load(),
		"known_findings_observed": kids,
	}
	if r.States.Load() > 0 && r.Transitions.Load() > 0 {
		cov["states"] = r.States.Load()
		cov["transitions"] = r.Transitions.Load()
		cov["traces_validated_against_impl"] = r.Traces.Load()
	} else if r.Traces.Load() > 0 {
		cov["executions_compared_with_reference"] = r.Traces.Load()
	}
	if len(r.samples) == 0 {
		cov["samples"] = []any{"(none recorded)"}
	}
	for k, v := range r.notes {
		cov[k] = v
	}
	ev := map[string]any{
		"property_id": r.Property, "tier": r.Tier, "seed": r.Seed, "level": r.Level,
		"coverage": cov, "assumptions": r.assume, "wall_s": time.Since(r.Start).Seconds(),
		"violations": len(ids),
	}
	if r.assume == nil {
		ev["assumptions"] = []string{}
	}
	os.MkdirAll(filepath.Join(Root, "evidence"), 0o755)
	b, _ := json.MarshalIndent(ev, "", " ")
	if err := os.WriteFile(filepath.Join(Root, "evidence", r.Property+".json"), b, 0o644); err != nil {
		fmt.Fprintln(os.Stderr, "cannot write evidence:", err)
		return 2
	}
	fmt.Printf("%s tier=%s evaluations=%d states=%d transitions=%d traces=%d distinct_nontrivial=%d exhaustive=%v violations=%d known=%d wall=%.1fs\n",
		r.Property, r.Tier, r.Evaluations.Load(), r.States.Load(), r.Transitions.Load(), r.Traces.Load(), len(r.distinct), !r.Capped.Load(), len(ids), len(kids), time.Since(r.Start).Seconds())
	if len(ids) > 0 {
		return 1
	}
	return 0
}

// Workers is the parallelism used by ParallelFor.
func Workers() int {
	n := runtime.NumCPU()
	if s := os.Getenv("VERIF_WORKERS"); s != "" {
		fmt.Sscan(s, &n)
	}
	if n < 1 {
		n = 1
	}
	return n
}

// ParallelFor runs fn(worker, i) for i in [0,n) on Workers() goroutines. Items are handed out
// in order; fn must be safe to run concurrently on different i.
func ParallelFor(n int, fn func(worker, i int)) {
	w := Workers()
	if w > n {
		w = n
	}
	if w <= 1 {
		for i := 0; i < n; i++ {
			fn(0, i)
		}
		return
	}
	var next atomic.Int64
	var wg sync.WaitGroup
	for k := 0; k < w; k++ {
		wg.Add(1)
		go func(k int) {
			defer wg.Done()
			for {
				i := int(next.Add(1) - 1)
				if i >= n {
					return
				}
				fn(k, i)
			}
		}(k)
	}
	wg.Wait()
}

// Hex helpers.
func Hex(b []byte) string {
	if len(b) > 4096 {
		return hex.EncodeToString(b[:4096]) + fmt.Sprintf("...(+%d bytes)", len(b)-4096)
	}
	return hex.EncodeToString(b)
}
func HexFull(b []byte) string { return hex.EncodeToString(b) }
func UnHex(s string) []byte   { b, _ := hex.DecodeString(s); return b }

// Guard runs f and converts a panic into (panicked=true, msg).
func Guard(f func()) (panicked bool, msg string) {
	p, m, _ := GuardSite(f)
	return p, m
}

// GuardSite is Guard plus the name of the innermost library function on the panicking stack
// (stable across line-number shifts; used in violation identities).
// RepoRoot is the library tree the harness was built against (VERIF_REPO, default /repo).
var RepoRoot = func() string {
	if v := os.Getenv("VERIF_REPO"); v != "" {
		return v
	}
	return "/repo"
}()

func GuardSite(f func()) (panicked bool, msg, site string) {
	defer func() {
		if x := recover(); x != nil {
			panicked = true
			msg = fmt.Sprint(x)
			buf := make([]byte, 8192)
			n := runtime.Stack(buf, false)
			st := string(buf[:n])
			msg += " @ " + topFrames(st)
			site = panicSite(st)
		}
	}()
	f()
	return
}

func panicSite(st string) string {
	for _, l := range strings.Split(st, "\n") {
		if strings.HasPrefix(l, "github.com/go-i2p/") {
			if i := strings.LastIndexByte(l, '('); i > 0 {
				l = l[:i]
			}
			return strings.TrimPrefix(l, "github.com/go-i2p/common/")
		}
	}
	return "unknown"
}

func topFrames(st string) string {
	lines := strings.Split(st, "\n")
	var out []string
	for _, l := range lines {
		l = strings.TrimSpace(l)
		if strings.HasPrefix(l, RepoRoot+"/") || strings.Contains(l, "go-i2p/") && strings.HasPrefix(l, "/") {
			if i := strings.IndexByte(l, ' '); i > 0 {
				l = l[:i]
			}
			out = append(out, l)
			if len(out) >= 3 {
				break
			}
		}
	}
	return strings.Join(out, " < ")
}

// ReplaySummary is a canonical listing of the violation identities+details seen (for replay determinism).
func (r *Run) ReplaySummary() string {
	r.mu.Lock()
	defer r.mu.Unlock()
	var ids []string
	for id, v := range r.viol {
		ids = append(ids, id+" :: "+v.Detail)
	}
	for id := range r.knownSeen {
		ids = append(ids, "known:"+id)
	}
	sort.Strings(ids)
	return strings.Join(ids, "\n")
}
