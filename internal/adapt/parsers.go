package adapt

import (
	"fmt"

	"github.com/go-i2p/common/certificate"
	"github.com/go-i2p/common/data"
	"github.com/go-i2p/common/destination"
	"github.com/go-i2p/common/encrypted_leaseset"
	"github.com/go-i2p/common/key_certificate"
	"github.com/go-i2p/common/keys_and_cert"
	"github.com/go-i2p/common/lease"
	"github.com/go-i2p/common/lease_set"
	"github.com/go-i2p/common/lease_set2"
	"github.com/go-i2p/common/meta_leaseset"
	"github.com/go-i2p/common/offline_signature"
	"github.com/go-i2p/common/router_address"
	"github.com/go-i2p/common/router_identity"
	"github.com/go-i2p/common/router_info"
	"github.com/go-i2p/common/session_key"
	"github.com/go-i2p/common/session_tag"
	"github.com/go-i2p/common/signature"
)

// Parsed is the uniform outcome of one byte-consuming entry point.
type Parsed struct {
	OK     bool   // the entry point reported success by its own convention
	Err    string // first error text when !OK
	HasRem bool   // the entry point returns a remainder
	Rem    []byte
	Ser    func() ([]byte, error) // serialisation of the returned value (nil if the type has none)
	Val    any                    // the returned value (as returned: pointer or value), also when !OK
}

// Parser is one byte-consuming entry point instantiated for fixed extra arguments.
type Parser struct {
	Name   string // e.g. "keys_and_cert.ReadKeysAndCert", "signature.ReadSignature[7]"
	Family string // structure family, used to route generated inputs
	Fn     func(in []byte) Parsed
}

func errStr(err error) string {
	if err == nil {
		return ""
	}
	return err.Error()
}

// mappingAccepted decides acceptance of a mapping parse without looking at error texts: no error
// at all, or - the one benign situation, bytes following the mapping's declared extent - errors
// together with a non-empty remainder while the declared extent on its own parses without error.
func mappingAccepted(errs []error, in, rem []byte, reparse func(x []byte) []error) (bool, string) {
	if len(errs) == 0 {
		return true, ""
	}
	if len(rem) > 0 && len(rem) < len(in) {
		if len(reparse(in[:len(in)-len(rem)])) == 0 {
			return true, ""
		}
	}
	return false, errs[0].Error()
}

func bytesSer(f func() []byte) func() ([]byte, error) {
	return func() ([]byte, error) { return f(), nil }
}

// Parsers lists every exported byte-consuming entry point of the library.
var Parsers []Parser

// add registers an entry point. The input is always handed over with cap == len: a parser that
// re-slices past the end of what it was given (reading the caller's unrelated bytes) then fails
// loudly instead of silently succeeding whenever the caller's slice happens to have spare capacity.
func add(name, family string, fn func(in []byte) Parsed) {
	Parsers = append(Parsers, Parser{name, family, func(in []byte) Parsed { return fn(in[:len(in):len(in)]) }})
}

func init() {
	// ---- data
	for _, n := range []int{1, 2, 4, 8} {
		n := n
		add(fmt.Sprintf("data.ReadInteger[%d]", n), fmt.Sprintf("Integer[%d]", n), func(in []byte) Parsed {
			i, rem := data.ReadInteger(in, n)
			return Parsed{OK: len(i) == n, Err: "short", HasRem: true, Rem: rem, Ser: bytesSer(i.Bytes), Val: i}
		})
		add(fmt.Sprintf("data.NewInteger[%d]", n), fmt.Sprintf("Integer[%d]", n), func(in []byte) Parsed {
			i, rem, err := data.NewInteger(in, n)
			ok := err == nil && i != nil && len(*i) == n
			p := Parsed{OK: ok, Err: errStr(err), HasRem: true, Rem: rem, Val: i}
			if i != nil {
				p.Ser = bytesSer(i.Bytes)
			}
			return p
		})
	}
	add("data.NewIntegerFromBytes", "IntegerExact", func(in []byte) Parsed {
		i, err := data.NewIntegerFromBytes(in)
		return Parsed{OK: err == nil, Err: errStr(err), Ser: bytesSer(i.Bytes), Val: i}
	})
	add("data.ReadI2PString", "I2PString", func(in []byte) Parsed {
		s, rem, err := data.ReadI2PString(in)
		return Parsed{OK: err == nil, Err: errStr(err), HasRem: true, Rem: rem, Ser: func() ([]byte, error) { return []byte(s), nil }, Val: s}
	})
	add("data.NewI2PStringFromBytes", "I2PStringExact", func(in []byte) Parsed {
		s, err := data.NewI2PStringFromBytes(in)
		return Parsed{OK: err == nil, Err: errStr(err), Ser: func() ([]byte, error) { return []byte(s), nil }, Val: s}
	})
	add("data.ReadDate", "Date", func(in []byte) Parsed {
		d, rem, err := data.ReadDate(in)
		return Parsed{OK: err == nil, Err: errStr(err), HasRem: true, Rem: rem, Ser: bytesSer(d.Bytes), Val: d}
	})
	add("data.NewDate", "Date", func(in []byte) Parsed {
		d, rem, err := data.NewDate(in)
		p := Parsed{OK: err == nil && d != nil, Err: errStr(err), HasRem: true, Rem: rem, Val: d}
		if d != nil {
			p.Ser = bytesSer(d.Bytes)
		}
		return p
	})
	add("data.ReadHash", "Hash", func(in []byte) Parsed {
		h, rem, err := data.ReadHash(in)
		return Parsed{OK: err == nil, Err: errStr(err), HasRem: true, Rem: rem, Ser: func() ([]byte, error) { b := h.Bytes(); return b[:], nil }, Val: h}
	})
	add("data.NewHashFromSlice", "HashExact", func(in []byte) Parsed {
		h, err := data.NewHashFromSlice(in)
		return Parsed{OK: err == nil, Err: errStr(err), Ser: func() ([]byte, error) { b := h.Bytes(); return b[:], nil }, Val: h}
	})
	add("data.ReadMapping", "Mapping", func(in []byte) Parsed {
		m, rem, errs := data.ReadMapping(in)
		ok, e := mappingAccepted(errs, in, rem, func(x []byte) []error { _, _, e := data.ReadMapping(x); return e })
		return Parsed{OK: ok, Err: e, HasRem: true, Rem: rem, Ser: bytesSer((&m).Data), Val: m}
	})
	add("data.NewMapping", "Mapping", func(in []byte) Parsed {
		m, rem, errs := data.NewMapping(in)
		ok, e := mappingAccepted(errs, in, rem, func(x []byte) []error { _, _, e := data.NewMapping(x); return e })
		p := Parsed{OK: ok && m != nil, Err: e, HasRem: true, Rem: rem, Val: m}
		if m != nil {
			p.Ser = bytesSer(m.Data)
		}
		return p
	})
	add("data.ReadMappingValues", "MappingValues", func(in []byte) Parsed {
		l, _ := data.NewIntegerFromInt(len(in)&0xffff, 2)
		v, rem, errs := data.ReadMappingValues(in, *l)
		ok, e := mappingAccepted(errs, in, rem, func(x []byte) []error {
			xl, _ := data.NewIntegerFromInt(len(x)&0xffff, 2)
			_, _, e := data.ReadMappingValues(x, *xl)
			return e
		})
		return Parsed{OK: ok && v != nil, Err: e, Val: v}
	})
	// ---- certificate / key certificate
	add("certificate.ReadCertificate", "Certificate", func(in []byte) Parsed {
		c, rem, err := certificate.ReadCertificate(in)
		p := Parsed{OK: err == nil && c != nil, Err: errStr(err), HasRem: true, Rem: rem, Val: c}
		if c != nil {
			p.Ser = bytesSer(c.Bytes)
		}
		return p
	})
	add("key_certificate.NewKeyCertificate", "KeyCertificate", func(in []byte) Parsed {
		c, rem, err := key_certificate.NewKeyCertificate(in)
		p := Parsed{OK: err == nil && c != nil, Err: errStr(err), HasRem: true, Rem: rem, Val: c}
		if c != nil {
			p.Ser = bytesSer(c.Bytes)
		}
		return p
	})
	// ---- keys and cert family
	kac := func(name string, f func([]byte) (*keys_and_cert.KeysAndCert, []byte, error)) {
		add(name, "KeysAndCert", func(in []byte) Parsed {
			k, rem, err := f(in)
			p := Parsed{OK: err == nil && k != nil, Err: errStr(err), HasRem: true, Rem: rem, Val: k}
			if k != nil {
				p.Ser = k.Bytes
			}
			return p
		})
	}
	kac("keys_and_cert.ReadKeysAndCert", keys_and_cert.ReadKeysAndCert)
	kac("keys_and_cert.ReadKeysAndCertElgAndEd25519", keys_and_cert.ReadKeysAndCertElgAndEd25519)
	kac("keys_and_cert.ReadKeysAndCertX25519AndEd25519", keys_and_cert.ReadKeysAndCertX25519AndEd25519)
	add("destination.ReadDestination", "Destination", func(in []byte) Parsed {
		d, rem, err := destination.ReadDestination(in)
		return Parsed{OK: err == nil, Err: errStr(err), HasRem: true, Rem: rem, Ser: d.Bytes, Val: d}
	})
	add("destination.NewDestinationFromBytes", "Destination", func(in []byte) Parsed {
		d, rem, err := destination.NewDestinationFromBytes(in)
		p := Parsed{OK: err == nil && d != nil, Err: errStr(err), HasRem: true, Rem: rem, Val: d}
		if d != nil {
			p.Ser = d.Bytes
		}
		return p
	})
	add("lease_set.ReadDestinationFromLeaseSet", "Destination", func(in []byte) Parsed {
		d, rem, err := lease_set.ReadDestinationFromLeaseSet(in)
		return Parsed{OK: err == nil, Err: errStr(err), HasRem: true, Rem: rem, Ser: d.Bytes, Val: d}
	})
	// composite routes to the same structures (conversions and wrapping constructors)
	add("router_identity.ReadRouterIdentity+AsDestination", "Destination", func(in []byte) Parsed {
		r, rem, err := router_identity.ReadRouterIdentity(in)
		if err != nil || r == nil {
			return Parsed{OK: false, Err: errStr(err), HasRem: true, Rem: rem}
		}
		d := r.AsDestination()
		return Parsed{OK: true, HasRem: true, Rem: rem, Ser: d.Bytes, Val: d}
	})
	add("destination.NewDestination(ReadKeysAndCert)", "Destination", func(in []byte) Parsed {
		k, rem, err := keys_and_cert.ReadKeysAndCert(in)
		if err != nil || k == nil {
			return Parsed{OK: false, Err: errStr(err), HasRem: true, Rem: rem}
		}
		d, err := destination.NewDestination(k)
		if err != nil || d == nil {
			return Parsed{OK: false, Err: errStr(err), HasRem: true, Rem: rem}
		}
		return Parsed{OK: true, HasRem: true, Rem: rem, Ser: d.Bytes, Val: d}
	})
	add("router_identity.NewRouterIdentityFromKeysAndCert(ReadKeysAndCert)", "RouterIdentity", func(in []byte) Parsed {
		k, rem, err := keys_and_cert.ReadKeysAndCert(in)
		if err != nil || k == nil {
			return Parsed{OK: false, Err: errStr(err), HasRem: true, Rem: rem}
		}
		r, err := router_identity.NewRouterIdentityFromKeysAndCert(k)
		if err != nil || r == nil || r.KeysAndCert == nil {
			return Parsed{OK: false, Err: errStr(err), HasRem: true, Rem: rem}
		}
		return Parsed{OK: true, HasRem: true, Rem: rem, Ser: r.KeysAndCert.Bytes, Val: r}
	})
	// assemble-from-parts constructors fed with the parts of a parsed identity (what an application does when it
	// re-creates an identity it received): certificate, keys and padding exactly as the reader exposed them
	add("router_identity.NewRouterIdentity(parts of ReadKeysAndCert)", "RouterIdentity", func(in []byte) Parsed {
		k, rem, err := keys_and_cert.ReadKeysAndCert(in)
		if err != nil || k == nil || k.KeyCertificate == nil {
			return Parsed{OK: false, Err: errStr(err), HasRem: true, Rem: rem}
		}
		r, err := router_identity.NewRouterIdentity(k.ReceivingPublic, k.SigningPublic, k.Certificate(), k.Padding)
		if err != nil || r == nil || r.KeysAndCert == nil {
			return Parsed{OK: false, Err: errStr(err), HasRem: true, Rem: rem}
		}
		return Parsed{OK: true, HasRem: true, Rem: rem, Ser: r.KeysAndCert.Bytes, Val: r}
	})
	add("keys_and_cert.NewKeysAndCert(parts of ReadKeysAndCert)", "KeysAndCert", func(in []byte) Parsed {
		k, rem, err := keys_and_cert.ReadKeysAndCert(in)
		if err != nil || k == nil || k.KeyCertificate == nil {
			return Parsed{OK: false, Err: errStr(err), HasRem: true, Rem: rem}
		}
		k2, err := keys_and_cert.NewKeysAndCert(k.KeyCertificate, k.ReceivingPublic, k.Padding, k.SigningPublic)
		if err != nil || k2 == nil {
			return Parsed{OK: false, Err: errStr(err), HasRem: true, Rem: rem}
		}
		return Parsed{OK: true, HasRem: true, Rem: rem, Ser: k2.Bytes, Val: k2}
	})
	add("router_identity.ReadRouterIdentity", "RouterIdentity", func(in []byte) Parsed {
		r, rem, err := router_identity.ReadRouterIdentity(in)
		p := Parsed{OK: err == nil && r != nil, Err: errStr(err), HasRem: true, Rem: rem, Val: r}
		if r != nil && r.KeysAndCert != nil {
			p.Ser = r.KeysAndCert.Bytes
		}
		return p
	})
	add("router_identity.NewRouterIdentityFromBytes", "RouterIdentity", func(in []byte) Parsed {
		r, rem, err := router_identity.NewRouterIdentityFromBytes(in)
		p := Parsed{OK: err == nil && r != nil, Err: errStr(err), HasRem: true, Rem: rem, Val: r}
		if r != nil && r.KeysAndCert != nil {
			p.Ser = r.KeysAndCert.Bytes
		}
		return p
	})
	// ---- leases
	add("lease.ReadLease", "Lease", func(in []byte) Parsed {
		l, rem, err := lease.ReadLease(in)
		return Parsed{OK: err == nil, Err: errStr(err), HasRem: true, Rem: rem, Ser: bytesSer(l.Bytes), Val: l}
	})
	add("lease.NewLeaseFromBytes", "Lease", func(in []byte) Parsed {
		l, rem, err := lease.NewLeaseFromBytes(in)
		p := Parsed{OK: err == nil && l != nil, Err: errStr(err), HasRem: true, Rem: rem, Val: l}
		if l != nil {
			p.Ser = bytesSer(l.Bytes)
		}
		return p
	})
	add("lease.ReadLease2", "Lease2", func(in []byte) Parsed {
		l, rem, err := lease.ReadLease2(in)
		return Parsed{OK: err == nil, Err: errStr(err), HasRem: true, Rem: rem, Ser: bytesSer(l.Bytes), Val: l}
	})
	add("lease.NewLease2FromBytes", "Lease2", func(in []byte) Parsed {
		l, rem, err := lease.NewLease2FromBytes(in)
		p := Parsed{OK: err == nil && l != nil, Err: errStr(err), HasRem: true, Rem: rem, Val: l}
		if l != nil {
			p.Ser = bytesSer(l.Bytes)
		}
		return p
	})
	// ---- signatures
	for _, t := range []int{0, 1, 2, 3, 4, 7, 8, 11} {
		t := t
		fam := fmt.Sprintf("Signature[%d]", t)
		add(fmt.Sprintf("signature.ReadSignature[%d]", t), fam, func(in []byte) Parsed {
			s, rem, err := signature.ReadSignature(in, t)
			return Parsed{OK: err == nil, Err: errStr(err), HasRem: true, Rem: rem, Ser: bytesSer(s.Bytes), Val: s}
		})
		add(fmt.Sprintf("signature.NewSignature[%d]", t), fam, func(in []byte) Parsed {
			s, rem, err := signature.NewSignature(in, t)
			p := Parsed{OK: err == nil && s != nil, Err: errStr(err), HasRem: true, Rem: rem, Val: s}
			if s != nil {
				p.Ser = bytesSer(s.Bytes)
			}
			return p
		})
		add(fmt.Sprintf("signature.NewSignatureFromBytes[%d]", t), fam+"Exact", func(in []byte) Parsed {
			s, err := signature.NewSignatureFromBytes(in, t)
			return Parsed{OK: err == nil, Err: errStr(err), Ser: bytesSer(s.Bytes), Val: s}
		})
	}
	for _, t := range []int{7, 0, 1, 2, 11} {
		t := t
		add(fmt.Sprintf("offline_signature.ReadOfflineSignature[%d]", t), fmt.Sprintf("OfflineSignature[%d]", t), func(in []byte) Parsed {
			o, rem, err := offline_signature.ReadOfflineSignature(in, uint16(t))
			return Parsed{OK: err == nil, Err: errStr(err), HasRem: true, Rem: rem, Ser: bytesSer((&o).Bytes), Val: &o}
		})
	}
	// ---- router address / info
	add("router_address.ReadRouterAddress", "RouterAddress", func(in []byte) Parsed {
		a, rem, err := router_address.ReadRouterAddress(in)
		return Parsed{OK: err == nil, Err: errStr(err), HasRem: true, Rem: rem, Ser: bytesSer(a.Bytes), Val: &a}
	})
	add("router_info.ReadRouterInfo", "RouterInfo", func(in []byte) Parsed {
		ri, rem, err := router_info.ReadRouterInfo(in)
		return Parsed{OK: err == nil, Err: errStr(err), HasRem: true, Rem: rem, Ser: ri.Bytes, Val: &ri}
	})
	// ---- leasesets
	add("lease_set.ReadLeaseSet", "LeaseSet", func(in []byte) Parsed {
		ls, err := lease_set.ReadLeaseSet(in)
		return Parsed{OK: err == nil, Err: errStr(err), Ser: ls.Bytes, Val: &ls}
	})
	add("lease_set2.ReadLeaseSet2", "LeaseSet2", func(in []byte) Parsed {
		ls, rem, err := lease_set2.ReadLeaseSet2(in)
		return Parsed{OK: err == nil, Err: errStr(err), HasRem: true, Rem: rem, Ser: (&ls).Bytes, Val: &ls}
	})
	add("meta_leaseset.ReadMetaLeaseSet", "MetaLeaseSet", func(in []byte) Parsed {
		m, rem, err := meta_leaseset.ReadMetaLeaseSet(in)
		return Parsed{OK: err == nil, Err: errStr(err), HasRem: true, Rem: rem, Ser: (&m).Bytes, Val: &m}
	})
	add("encrypted_leaseset.ReadEncryptedLeaseSet", "EncryptedLeaseSet", func(in []byte) Parsed {
		e, rem, err := encrypted_leaseset.ReadEncryptedLeaseSet(in)
		return Parsed{OK: err == nil, Err: errStr(err), HasRem: true, Rem: rem, Ser: (&e).Bytes, Val: &e}
	})
	// ---- session key / tags
	add("session_key.ReadSessionKey", "SessionKey", func(in []byte) Parsed {
		k, rem, err := session_key.ReadSessionKey(in)
		return Parsed{OK: err == nil, Err: errStr(err), HasRem: true, Rem: rem, Ser: bytesSer(k.Bytes), Val: k}
	})
	add("session_key.NewSessionKey", "SessionKey", func(in []byte) Parsed {
		k, rem, err := session_key.NewSessionKey(in)
		p := Parsed{OK: err == nil && k != nil, Err: errStr(err), HasRem: true, Rem: rem, Val: k}
		if k != nil {
			p.Ser = bytesSer(k.Bytes)
		}
		return p
	})
	add("session_tag.ReadSessionTag", "SessionTag", func(in []byte) Parsed {
		k, rem, err := session_tag.ReadSessionTag(in)
		return Parsed{OK: err == nil, Err: errStr(err), HasRem: true, Rem: rem, Ser: bytesSer(k.Bytes), Val: k}
	})
	add("session_tag.NewSessionTag", "SessionTag", func(in []byte) Parsed {
		k, rem, err := session_tag.NewSessionTag(in)
		p := Parsed{OK: err == nil && k != nil, Err: errStr(err), HasRem: true, Rem: rem, Val: k}
		if k != nil {
			p.Ser = bytesSer(k.Bytes)
		}
		return p
	})
	add("session_tag.NewSessionTagFromBytes", "SessionTagExact", func(in []byte) Parsed {
		k, err := session_tag.NewSessionTagFromBytes(in)
		return Parsed{OK: err == nil, Err: errStr(err), Ser: bytesSer(k.Bytes), Val: k}
	})
	add("session_tag.ReadECIESSessionTag", "ECIESSessionTag", func(in []byte) Parsed {
		k, rem, err := session_tag.ReadECIESSessionTag(in)
		return Parsed{OK: err == nil, Err: errStr(err), HasRem: true, Rem: rem, Ser: bytesSer(k.Bytes), Val: k}
	})
	add("session_tag.NewECIESSessionTag", "ECIESSessionTag", func(in []byte) Parsed {
		k, rem, err := session_tag.NewECIESSessionTag(in)
		p := Parsed{OK: err == nil && k != nil, Err: errStr(err), HasRem: true, Rem: rem, Val: k}
		if k != nil {
			p.Ser = bytesSer(k.Bytes)
		}
		return p
	})
	add("session_tag.NewECIESSessionTagFromBytes", "ECIESSessionTagExact", func(in []byte) Parsed {
		k, err := session_tag.NewECIESSessionTagFromBytes(in)
		return Parsed{OK: err == nil, Err: errStr(err), Ser: bytesSer(k.Bytes), Val: k}
	})
}

// ByFamily returns the parsers of one family.
func ByFamily(fam string) []Parser {
	var out []Parser
	for _, p := range Parsers {
		if p.Family == fam {
			out = append(out, p)
		}
	}
	return out
}

// ByName returns one parser.
func ByName(name string) (Parser, bool) {
	for _, p := range Parsers {
		if p.Name == name {
			return p, true
		}
	}
	return Parser{}, false
}
