package adapt

import (
	"crypto/ed25519"
	"fmt"
	"time"
	"verif/internal/snap"

	"verif/internal/refmodel"

	"github.com/go-i2p/common/certificate"
	"github.com/go-i2p/common/data"
	"github.com/go-i2p/common/destination"
	"github.com/go-i2p/common/encrypted_leaseset"
	"github.com/go-i2p/common/key_certificate"
	"github.com/go-i2p/common/keys_and_cert"
	"github.com/go-i2p/common/lease"
	"github.com/go-i2p/common/lease_set"
	"github.com/go-i2p/common/lease_set2"
	"github.com/go-i2p/common/offline_signature"
	"github.com/go-i2p/common/router_address"
	"github.com/go-i2p/common/router_identity"
	"github.com/go-i2p/common/router_info"
	"github.com/go-i2p/crypto/types"
)

// ErrNotConstructible marks model values the library's constructors cannot express (so the
// encode direction has nothing to say about them).
type ErrNotConstructible struct{ Why string }

func (e ErrNotConstructible) Error() string { return "not constructible: " + e.Why }

// ErrArgumentMutated: a constructor changed a value it was only given to read (deep snapshot of the arguments
// before and after the call differs). Callers own their arguments - a Mapping taken from a received structure,
// key material, lease lists - and go on using them.
type ErrArgumentMutated struct{ Entry, What string }

func (e ErrArgumentMutated) Error() string {
	return e.Entry + " changed its argument: " + e.What
}

// argGuard snapshots constructor arguments; check() reports the first that changed.
type argGuard struct {
	names []string
	vals  []any
	h     [][32]byte
}

func guardArgs(kv ...any) *argGuard {
	g := &argGuard{}
	for i := 0; i+1 < len(kv); i += 2 {
		g.names = append(g.names, kv[i].(string))
		g.vals = append(g.vals, kv[i+1])
		g.h = append(g.h, snap.Hash(kv[i+1], snap.Options{}))
	}
	return g
}

func (g *argGuard) check(entry string) error {
	for i, v := range g.vals {
		if snap.Hash(v, snap.Options{}) != g.h[i] {
			return ErrArgumentMutated{entry, g.names[i]}
		}
	}
	return nil
}

// KeyCert builds the library KeyCertificate for a model identity through the constructors
// (typed constructor for the plain form, certificate constructor for extra payload).
func KeyCert(k refmodel.KeysAndCert) (*key_certificate.KeyCertificate, *certificate.Certificate, error) {
	if k.Cert.Type != refmodel.CertKey {
		return nil, nil, ErrNotConstructible{"no constructor yields a KeysAndCert with a NULL certificate"}
	}
	if len(k.Cert.Payload) == 4 {
		kc, err := key_certificate.NewKeyCertificateWithTypes(k.SigType, k.CryptoType)
		if err != nil {
			return nil, nil, err
		}
		return kc, &kc.Certificate, nil
	}
	c, err := certificate.NewCertificateWithType(certificate.CERT_KEY, k.Cert.Payload)
	if err != nil {
		return nil, nil, err
	}
	kc, err := key_certificate.KeyCertificateFromCertificate(c)
	return kc, c, err
}

// KAC builds a library KeysAndCert from a model identity via NewKeysAndCert.
func KAC(k refmodel.KeysAndCert) (*keys_and_cert.KeysAndCert, error) {
	kc, _, err := KeyCert(k)
	if err != nil {
		return nil, err
	}
	pk, err := CryptoPub(k.CryptoType, k.Crypto)
	if err != nil {
		return nil, ErrNotConstructible{err.Error()}
	}
	sk, err := SigningPub(k.SigType, k.Signing)
	if err != nil {
		return nil, ErrNotConstructible{err.Error()}
	}
	return keys_and_cert.NewKeysAndCert(kc, pk, append([]byte(nil), k.Padding...), sk)
}

func Destination(k refmodel.KeysAndCert) (*destination.Destination, error) {
	if k.Cert.Type == refmodel.CertNull {
		// a legacy NULL-certificate destination can only be obtained from its bytes
		d, rem, err := destination.ReadDestination(k.Bytes())
		if err != nil || len(rem) != 0 {
			return nil, ErrNotConstructible{"NULL-certificate destination does not parse"}
		}
		return &d, nil
	}
	kac, err := KAC(k)
	if err != nil {
		return nil, err
	}
	return destination.NewDestination(kac)
}

func RouterIdentity(k refmodel.KeysAndCert) (*router_identity.RouterIdentity, error) {
	_, c, err := KeyCert(k)
	if err != nil {
		return nil, err
	}
	pk, err := CryptoPub(k.CryptoType, k.Crypto)
	if err != nil {
		return nil, ErrNotConstructible{err.Error()}
	}
	sk, err := SigningPub(k.SigType, k.Signing)
	if err != nil {
		return nil, ErrNotConstructible{err.Error()}
	}
	return router_identity.NewRouterIdentity(pk, sk, c, append([]byte(nil), k.Padding...))
}

func RouterAddress(a refmodel.RouterAddress) (*router_address.RouterAddress, error) {
	if a.Expiration != 0 {
		return nil, ErrNotConstructible{"NewRouterAddress always writes a zero expiration"}
	}
	if len(a.Style) == 0 {
		return nil, ErrNotConstructible{"empty transport style is refused"}
	}
	return router_address.NewRouterAddress(a.Cost, time.Time{}, string(a.Style), a.Options.ToMap())
}

// RouterInfo constructs and signs through NewRouterInfo (Ed25519 only).
func RouterInfo(ri refmodel.RouterInfo, kp refmodel.KeyPair) (*router_info.RouterInfo, error) {
	if kp.Type != refmodel.SigEd25519 {
		return nil, ErrNotConstructible{"NewRouterInfo supports Ed25519 only"}
	}
	if ri.PeerSize != 0 {
		return nil, ErrNotConstructible{"peer_size is always 0 in NewRouterInfo"}
	}
	id, err := RouterIdentity(ri.Ident)
	if err != nil {
		return nil, err
	}
	var addrs []*router_address.RouterAddress
	for _, a := range ri.Addrs {
		la, err := RouterAddress(a)
		if err != nil {
			return nil, err
		}
		addrs = append(addrs, la)
	}
	priv, err := SigningPriv(kp)
	if err != nil {
		return nil, err
	}
	_ = priv
	p := newEdPriv(kp.Priv)
	return router_info.NewRouterInfo(id, time.UnixMilli(int64(ri.Published)), addrs, ri.Options.ToMap(), p, 7)
}

func Lease(l refmodel.Lease) (*lease.Lease, error) {
	return lease.NewLease(data.Hash(l.Hash), l.TunnelID, time.UnixMilli(int64(l.EndMs)))
}

func Lease2(l refmodel.Lease2) (*lease.Lease2, error) {
	return lease.NewLease2(data.Hash(l.Hash), l.TunnelID, time.Unix(int64(l.EndSec), 0))
}

func LeaseSet(ls refmodel.LeaseSet, kp refmodel.KeyPair) (*lease_set.LeaseSet, error) {
	d, err := Destination(ls.Dest)
	if err != nil {
		return nil, err
	}
	ek, err := CryptoPub(refmodel.CryptoElG, ls.EncKey)
	if err != nil {
		return nil, err
	}
	sk, err := SigningPub(ls.Dest.SigType, ls.SignKey)
	if err != nil {
		return nil, ErrNotConstructible{err.Error()}
	}
	var leases []lease.Lease
	for _, l := range ls.Leases {
		ll, err := Lease(l)
		if err != nil {
			return nil, err
		}
		leases = append(leases, *ll)
	}
	priv, err := SigningPriv(kp)
	if err != nil {
		return nil, ErrNotConstructible{err.Error()}
	}
	return lease_set.NewLeaseSet(*d, ek, sk, leases, priv)
}

func Offline(o *refmodel.Offline, destSigType int) (*offline_signature.OfflineSignature, error) {
	if o == nil {
		return nil, nil
	}
	v, err := offline_signature.NewOfflineSignature(o.Expires, uint16(o.TransType), o.TransKey, o.Sig, uint16(destSigType))
	if err != nil {
		return nil, err
	}
	return &v, nil
}

func LeaseSet2(ls refmodel.LeaseSet2, signer refmodel.KeyPair) (*lease_set2.LeaseSet2, error) {
	d, err := Destination(ls.Dest)
	if err != nil {
		return nil, err
	}
	off, err := Offline(ls.Offline, ls.Dest.SigType)
	if err != nil {
		return nil, err
	}
	opts, err := LibMappingOf(ls.Options)
	if err != nil {
		return nil, err
	}
	var keys []lease_set2.EncryptionKey
	for _, k := range ls.Keys {
		keys = append(keys, lease_set2.EncryptionKey{KeyType: uint16(k.Type), KeyLen: uint16(len(k.Data)), KeyData: append([]byte(nil), k.Data...)})
	}
	var leases []lease.Lease2
	for _, l := range ls.Leases {
		ll, err := Lease2(l)
		if err != nil {
			return nil, err
		}
		leases = append(leases, *ll)
	}
	// Ed25519-family keys are handed over in their raw form (the constructor chooses pure or
	// pre-hashed signing from the signing type); other types as go-i2p/crypto private keys.
	var sk interface{}
	if len(signer.Priv) == 64 {
		sk = ed25519.PrivateKey(signer.Priv)
	} else if p, err := SigningPriv(signer); err == nil {
		sk = p
	} else {
		return nil, ErrNotConstructible{err.Error()}
	}
	g := guardArgs("destination", d, "offline signature", off, "options mapping", &opts, "encryption keys", keys, "leases", leases)
	v, err := lease_set2.NewLeaseSet2(*d, ls.Published, ls.Expires, ls.Flags, off, opts, keys, leases, sk)
	if err != nil {
		return nil, err
	}
	if e := g.check("lease_set2.NewLeaseSet2"); e != nil {
		return &v, e
	}
	return &v, nil
}

// LibMappingOf turns a model mapping into a library Mapping value the way an application would come by it:
// a mapping whose pairs are in key order through GoMapToMapping; a mapping whose pairs are NOT in key order
// (the constructors always sort, so such a value can only have been received) by parsing its wire form, which
// keeps the wire order.
func LibMappingOf(m refmodel.Mapping) (data.Mapping, error) {
	sorted := m.Sorted()
	inOrder := true
	for i := range m {
		if string(m[i].K) != string(sorted[i].K) {
			inOrder = false
		}
	}
	if inOrder {
		lm, err := data.GoMapToMapping(m.ToMap())
		if err != nil || lm == nil {
			return data.Mapping{}, err
		}
		return *lm, nil
	}
	wire := refmodel.MappingBytes(m)
	lm, rem, errs := data.ReadMapping(append([]byte(nil), wire...))
	if len(errs) != 0 || len(rem) != 0 {
		return data.Mapping{}, ErrNotConstructible{"an out-of-order mapping is only obtainable from the parser, which refuses this one"}
	}
	return lm, nil
}

// ELSKeyForm selects one of the private key representations NewEncryptedLeaseSet accepts.
type ELSKeyForm int

const (
	ELSStdPriv ELSKeyForm = iota // crypto/ed25519.PrivateKey
	ELSArray                     // [64]byte
	ELSLibPtr                    // *go-i2p/crypto ed25519.Ed25519PrivateKey
	ELSBytes                     // []byte
)

func EncryptedLeaseSet(e refmodel.EncryptedLeaseSet, signer refmodel.KeyPair, form ELSKeyForm) (*encrypted_leaseset.EncryptedLeaseSet, error) {
	off, err := Offline(e.Offline, e.SigType)
	if err != nil {
		return nil, err
	}
	if len(signer.Priv) != 64 {
		return nil, ErrNotConstructible{"NewEncryptedLeaseSet signs with Ed25519 keys only"}
	}
	var key interface{}
	switch form {
	case ELSStdPriv:
		key = ed25519.PrivateKey(signer.Priv)
	case ELSArray:
		var a [64]byte
		copy(a[:], signer.Priv)
		key = a
	case ELSLibPtr:
		key = newEdPriv(signer.Priv)
	case ELSBytes:
		key = append([]byte(nil), signer.Priv...)
	}
	return encrypted_leaseset.NewEncryptedLeaseSet(uint16(e.SigType), append([]byte(nil), e.Blinded...), e.Published, e.Expires, e.Flags, off, append([]byte(nil), e.Inner...), key)
}

var _ = fmt.Sprint
var _ types.SigningPrivateKey
