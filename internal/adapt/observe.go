package adapt

import (
	"encoding/hex"
	"fmt"
	"sort"

	"verif/internal/refmodel"

	"github.com/go-i2p/common/data"
	"github.com/go-i2p/common/encrypted_leaseset"
	"github.com/go-i2p/common/keys_and_cert"
	"github.com/go-i2p/common/lease_set"
	"github.com/go-i2p/common/lease_set2"
	"github.com/go-i2p/common/meta_leaseset"
	"github.com/go-i2p/common/offline_signature"
	"github.com/go-i2p/common/router_address"
	"github.com/go-i2p/common/router_info"
)

// Obs is a flat field->value observation of a structure, produced once from the model value
// and once from the library value through its public accessors. C02 compares the two.
type Obs map[string]string

func hx(b []byte) string { return hex.EncodeToString(b) }

// Diff lists fields of want that are missing or different in got (sorted).
func Diff(want, got Obs) []string {
	var out []string
	for k, w := range want {
		g, ok := got[k]
		if !ok {
			out = append(out, fmt.Sprintf("%s: missing (model %s)", k, trunc(w)))
		} else if g != w {
			out = append(out, fmt.Sprintf("%s: library %s, model %s", k, trunc(g), trunc(w)))
		}
	}
	sort.Strings(out)
	return out
}

func trunc(s string) string {
	if len(s) > 80 {
		return s[:80] + "..."
	}
	return s
}

// ---------- model side ----------

func ModelMapping(p string, m refmodel.Mapping, o Obs) {
	o[p+".n"] = fmt.Sprint(len(m))
	for i, kv := range m {
		o[fmt.Sprintf("%s[%d].k", p, i)] = hx(kv.K)
		o[fmt.Sprintf("%s[%d].v", p, i)] = hx(kv.V)
	}
}

func ModelKAC(p string, k refmodel.KeysAndCert, o Obs) {
	o[p+".sigtype"] = fmt.Sprint(k.SigType)
	o[p+".cryptotype"] = fmt.Sprint(k.CryptoType)
	o[p+".crypto"] = hx(k.Crypto)
	o[p+".signing"] = hx(k.Signing)
	o[p+".padding"] = hx(k.Padding)
	o[p+".cert.type"] = fmt.Sprint(k.Cert.Type)
	o[p+".cert.payload"] = hx(k.Cert.Payload)
	o[p+".bytes"] = hx(k.Bytes())
}

func ModelOffline(p string, off *refmodel.Offline, o Obs) {
	if off == nil {
		o[p+".present"] = "false"
		return
	}
	o[p+".present"] = "true"
	o[p+".expires"] = fmt.Sprint(off.Expires)
	o[p+".sigtype"] = fmt.Sprint(off.TransType)
	o[p+".key"] = hx(off.TransKey)
	o[p+".sig"] = hx(off.Sig)
}

func ModelRouterAddress(p string, a refmodel.RouterAddress, o Obs) {
	o[p+".cost"] = fmt.Sprint(a.Cost)
	o[p+".expiration"] = hx(refmodel.BE(a.Expiration, 8))
	o[p+".style"] = hx(a.Style)
	ModelMapping(p+".options", a.Options, o)
}

func ModelRouterInfo(ri refmodel.RouterInfo, withSig bool) Obs {
	o := Obs{}
	ModelKAC("ident", ri.Ident, o)
	o["published"] = hx(refmodel.BE(ri.Published, 8))
	o["naddr"] = fmt.Sprint(len(ri.Addrs))
	for i, a := range ri.Addrs {
		ModelRouterAddress(fmt.Sprintf("addr[%d]", i), a, o)
	}
	o["peer_size"] = fmt.Sprint(ri.PeerSize)
	ModelMapping("options", ri.Options, o)
	if withSig {
		o["signature"] = hx(ri.Sig)
	}
	return o
}

func ModelLeaseSet(ls refmodel.LeaseSet, withSig bool) Obs {
	o := Obs{}
	ModelKAC("dest", ls.Dest, o)
	o["enckey"] = hx(ls.EncKey)
	o["signkey"] = hx(ls.SignKey)
	o["nleases"] = fmt.Sprint(len(ls.Leases))
	for i, l := range ls.Leases {
		o[fmt.Sprintf("lease[%d].gw", i)] = hx(l.Hash[:])
		o[fmt.Sprintf("lease[%d].tunnel", i)] = fmt.Sprint(l.TunnelID)
		o[fmt.Sprintf("lease[%d].end", i)] = hx(refmodel.BE(l.EndMs, 8))
	}
	if withSig {
		o["signature"] = hx(ls.Sig)
	}
	return o
}

func modelLeases2(ls []refmodel.Lease2, o Obs) {
	o["nleases"] = fmt.Sprint(len(ls))
	for i, l := range ls {
		o[fmt.Sprintf("lease[%d].gw", i)] = hx(l.Hash[:])
		o[fmt.Sprintf("lease[%d].tunnel", i)] = fmt.Sprint(l.TunnelID)
		o[fmt.Sprintf("lease[%d].end", i)] = fmt.Sprint(l.EndSec)
	}
}

func ModelLeaseSet2(ls refmodel.LeaseSet2, withSig bool) Obs {
	o := Obs{}
	ModelKAC("dest", ls.Dest, o)
	o["published"] = fmt.Sprint(ls.Published)
	o["expires"] = fmt.Sprint(ls.Expires)
	o["flags"] = fmt.Sprint(ls.Flags)
	ModelOffline("offline", ls.Offline, o)
	ModelMapping("options", ls.Options, o)
	o["nkeys"] = fmt.Sprint(len(ls.Keys))
	for i, k := range ls.Keys {
		o[fmt.Sprintf("key[%d].type", i)] = fmt.Sprint(k.Type)
		o[fmt.Sprintf("key[%d].len", i)] = fmt.Sprint(len(k.Data))
		o[fmt.Sprintf("key[%d].data", i)] = hx(k.Data)
	}
	modelLeases2(ls.Leases, o)
	if withSig {
		o["signature"] = hx(ls.Sig)
	}
	return o
}

func ModelMeta(m refmodel.MetaLeaseSet) Obs {
	o := Obs{}
	ModelKAC("dest", m.Dest, o)
	o["published"] = fmt.Sprint(m.Published)
	o["expires"] = fmt.Sprint(m.Expires)
	o["flags"] = fmt.Sprint(m.Flags)
	ModelOffline("offline", m.Offline, o)
	ModelMapping("options", m.Options, o)
	o["nentries"] = fmt.Sprint(len(m.Entries))
	for i, e := range m.Entries {
		p := fmt.Sprintf("entry[%d]", i)
		o[p+".hash"] = hx(e.Hash[:])
		o[p+".type"] = fmt.Sprint(e.Type)
		o[p+".expires"] = fmt.Sprint(e.Expires)
		o[p+".cost"] = fmt.Sprint(e.Cost)
		ModelMapping(p+".props", e.Props, o)
	}
	o["signature"] = hx(m.Sig)
	return o
}

func ModelELS(e refmodel.EncryptedLeaseSet, withSig bool) Obs {
	o := Obs{}
	o["sigtype"] = fmt.Sprint(e.SigType)
	o["blinded"] = hx(e.Blinded)
	o["published"] = fmt.Sprint(e.Published)
	o["expires"] = fmt.Sprint(e.Expires)
	o["flags"] = fmt.Sprint(e.Flags)
	ModelOffline("offline", e.Offline, o)
	o["innerlen"] = fmt.Sprint(len(e.Inner))
	o["inner"] = hx(e.Inner)
	if withSig {
		o["signature"] = hx(e.Sig)
	}
	return o
}

// ---------- library side (public accessors only) ----------

func LibMapping(p string, m data.Mapping, o Obs) {
	vals := m.Values()
	o[p+".n"] = fmt.Sprint(len(vals))
	for i, kv := range vals {
		k, e1 := kv[0].Data()
		v, e2 := kv[1].Data()
		if e1 != nil || e2 != nil {
			o[fmt.Sprintf("%s[%d].k", p, i)] = "error"
			continue
		}
		o[fmt.Sprintf("%s[%d].k", p, i)] = hx([]byte(k))
		o[fmt.Sprintf("%s[%d].v", p, i)] = hx([]byte(v))
	}
}

func LibKAC(p string, k *keys_and_cert.KeysAndCert, o Obs) {
	if k == nil || k.KeyCertificate == nil {
		o[p+".sigtype"] = "nil"
		return
	}
	o[p+".sigtype"] = fmt.Sprint(k.KeyCertificate.SigningPublicKeyType())
	o[p+".cryptotype"] = fmt.Sprint(k.KeyCertificate.PublicKeyType())
	if pk, err := k.PublicKey(); err == nil && pk != nil {
		o[p+".crypto"] = hx(pk.Bytes())
	}
	if sk, err := k.SigningPublicKey(); err == nil && sk != nil {
		o[p+".signing"] = hx(sk.Bytes())
	}
	o[p+".padding"] = hx(k.Padding)
	c := k.Certificate()
	if t, err := c.Type(); err == nil {
		o[p+".cert.type"] = fmt.Sprint(t)
	}
	if d, err := c.Data(); err == nil {
		o[p+".cert.payload"] = hx(d)
	}
	if b, err := k.Bytes(); err == nil {
		o[p+".bytes"] = hx(b)
	}
}

func LibOffline(p string, off *offline_signature.OfflineSignature, o Obs) {
	if off == nil {
		o[p+".present"] = "false"
		return
	}
	o[p+".present"] = "true"
	o[p+".expires"] = fmt.Sprint(off.Expires())
	o[p+".sigtype"] = fmt.Sprint(off.TransientSigType())
	o[p+".key"] = hx(off.TransientPublicKey())
	o[p+".sig"] = hx(off.Signature())
}

func LibRouterAddress(p string, a *router_address.RouterAddress, o Obs) {
	o[p+".cost"] = fmt.Sprint(a.Cost())
	e := a.Expiration()
	o[p+".expiration"] = hx(e[:])
	if s, err := a.TransportStyle().Data(); err == nil {
		o[p+".style"] = hx([]byte(s))
	}
	LibMapping(p+".options", a.Options(), o)
}

func LibRouterInfo(ri *router_info.RouterInfo) Obs {
	o := Obs{}
	if id := ri.RouterIdentity(); id != nil {
		LibKAC("ident", id.KeysAndCert, o)
	}
	if p := ri.Published(); p != nil {
		o["published"] = hx(p.Bytes())
	}
	o["naddr"] = fmt.Sprint(ri.RouterAddressCount())
	for i, a := range ri.RouterAddresses() {
		LibRouterAddress(fmt.Sprintf("addr[%d]", i), a, o)
	}
	o["peer_size"] = fmt.Sprint(ri.PeerSize())
	LibMapping("options", ri.Options(), o)
	sg := ri.Signature()
	o["signature"] = hx(sg.Bytes())
	return o
}

func LibLeaseSet(ls *lease_set.LeaseSet) Obs {
	o := Obs{}
	LibKAC("dest", ls.Destination().KeysAndCert, o)
	if pk, err := ls.PublicKey(); err == nil {
		o["enckey"] = hx(pk[:])
	}
	if sk, err := ls.SigningKey(); err == nil && sk != nil {
		o["signkey"] = hx(sk.Bytes())
	}
	o["nleases"] = fmt.Sprint(ls.LeaseCount())
	for i, l := range ls.Leases() {
		gw := l.TunnelGateway()
		o[fmt.Sprintf("lease[%d].gw", i)] = hx(gw[:])
		o[fmt.Sprintf("lease[%d].tunnel", i)] = fmt.Sprint(l.TunnelID())
		d := l.Date()
		o[fmt.Sprintf("lease[%d].end", i)] = hx(d[:])
	}
	sg := ls.Signature()
	o["signature"] = hx(sg.Bytes())
	return o
}

func LibLeaseSet2(ls *lease_set2.LeaseSet2) Obs {
	o := Obs{}
	LibKAC("dest", ls.Destination().KeysAndCert, o)
	o["published"] = fmt.Sprint(ls.Published())
	o["expires"] = fmt.Sprint(ls.Expires())
	o["flags"] = fmt.Sprint(ls.Flags())
	LibOffline("offline", ls.OfflineSignature(), o)
	LibMapping("options", ls.Options(), o)
	o["nkeys"] = fmt.Sprint(ls.EncryptionKeyCount())
	for i, k := range ls.EncryptionKeys() {
		o[fmt.Sprintf("key[%d].type", i)] = fmt.Sprint(k.KeyType)
		o[fmt.Sprintf("key[%d].len", i)] = fmt.Sprint(k.KeyLen)
		o[fmt.Sprintf("key[%d].data", i)] = hx(k.KeyData)
	}
	o["nleases"] = fmt.Sprint(ls.LeaseCount())
	for i, l := range ls.Leases() {
		gw := l.TunnelGateway()
		o[fmt.Sprintf("lease[%d].gw", i)] = hx(gw[:])
		o[fmt.Sprintf("lease[%d].tunnel", i)] = fmt.Sprint(l.TunnelID())
		o[fmt.Sprintf("lease[%d].end", i)] = fmt.Sprint(l.EndDate())
	}
	sg := ls.Signature()
	o["signature"] = hx(sg.Bytes())
	return o
}

func LibMeta(m *meta_leaseset.MetaLeaseSet) Obs {
	o := Obs{}
	LibKAC("dest", m.Destination().KeysAndCert, o)
	o["published"] = fmt.Sprint(m.Published())
	o["expires"] = fmt.Sprint(m.Expires())
	o["flags"] = fmt.Sprint(m.Flags())
	LibOffline("offline", m.OfflineSignature(), o)
	LibMapping("options", m.Options(), o)
	o["nentries"] = fmt.Sprint(m.NumEntries())
	for i, e := range m.Entries() {
		p := fmt.Sprintf("entry[%d]", i)
		h := e.Hash()
		o[p+".hash"] = hx(h[:])
		o[p+".type"] = fmt.Sprint(e.Type())
		o[p+".expires"] = fmt.Sprint(e.Expires())
		o[p+".cost"] = fmt.Sprint(e.Cost())
		LibMapping(p+".props", e.Properties(), o)
	}
	sg := m.Signature()
	o["signature"] = hx(sg.Bytes())
	return o
}

func LibELS(e *encrypted_leaseset.EncryptedLeaseSet) Obs {
	o := Obs{}
	o["sigtype"] = fmt.Sprint(e.SigType())
	o["blinded"] = hx(e.BlindedPublicKey())
	o["published"] = fmt.Sprint(e.Published())
	o["expires"] = fmt.Sprint(e.Expires())
	o["flags"] = fmt.Sprint(e.Flags())
	LibOffline("offline", e.OfflineSignature(), o)
	o["innerlen"] = fmt.Sprint(e.InnerLength())
	o["inner"] = hx(e.EncryptedInnerData())
	sg := e.Signature()
	o["signature"] = hx(sg.Bytes())
	return o
}
