// Package adapt turns refmodel values into library objects and wraps the library's parsers in a
// uniform shape. It is harness glue: it may import the library, refmodel may not.
package adapt

import (
	"fmt"

	"verif/internal/refmodel"

	"github.com/go-i2p/common/key_certificate"
	"github.com/go-i2p/crypto/curve25519"
	"github.com/go-i2p/crypto/dsa"
	"github.com/go-i2p/crypto/ecdsa"
	"github.com/go-i2p/crypto/ed25519"
	elgamal "github.com/go-i2p/crypto/elg"
	"github.com/go-i2p/crypto/types"
	"go.step.sm/crypto/x25519"
)

// SigningPub builds the go-i2p/crypto public key object for wire bytes of a signing type
// directly from the crypto module's types (not through the library's own constructors).
func SigningPub(sigType int, b []byte) (types.SigningPublicKey, error) {
	switch sigType {
	case refmodel.SigDSA:
		if len(b) != 128 {
			return nil, fmt.Errorf("len")
		}
		var k dsa.DSAPublicKey
		copy(k[:], b)
		return k, nil
	case refmodel.SigP256:
		if len(b) != 64 {
			return nil, fmt.Errorf("len")
		}
		var k ecdsa.ECP256PublicKey
		copy(k[:], b)
		return k, nil
	case refmodel.SigP384:
		if len(b) != 96 {
			return nil, fmt.Errorf("len")
		}
		var k ecdsa.ECP384PublicKey
		copy(k[:], b)
		return k, nil
	case refmodel.SigEd25519, refmodel.SigEd25519ph, refmodel.SigRedDSA:
		return ed25519.Ed25519PublicKey(append([]byte(nil), b...)), nil
	}
	return nil, fmt.Errorf("no library key object for signing type %d", sigType)
}

// CryptoPub builds the receiving public key object.
func CryptoPub(cryptoType int, b []byte) (types.ReceivingPublicKey, error) {
	switch cryptoType {
	case refmodel.CryptoElG:
		if len(b) != 256 {
			return nil, fmt.Errorf("len")
		}
		var k elgamal.ElgPublicKey
		copy(k[:], b)
		return k, nil
	case refmodel.CryptoX25519, refmodel.CryptoMLKEM512, refmodel.CryptoMLKEM768, refmodel.CryptoMLKEM1024:
		return curve25519.Curve25519PublicKey(append([]byte(nil), b...)), nil
	}
	return nil, fmt.Errorf("no library key object for crypto type %d", cryptoType)
}

// KeyCertBytes is the wire form of a KEY certificate for the given types.
func KeyCertBytes(sig, crypto int, extra []byte) []byte {
	return refmodel.Cert{Type: refmodel.CertKey, Payload: refmodel.KeyCertPayload(sig, crypto, extra)}.Bytes()
}

// ParsedKeyCert obtains a KeyCertificate for arbitrary codes through the byte parser (the typed
// constructor refuses unknown codes).
func ParsedKeyCert(sig, crypto int, extra []byte) (*key_certificate.KeyCertificate, error) {
	kc, _, err := key_certificate.NewKeyCertificate(KeyCertBytes(sig, crypto, extra))
	return kc, err
}

// SigningPriv builds the library private key object for a refmodel key pair.
func SigningPriv(kp refmodel.KeyPair) (types.SigningPrivateKey, error) {
	switch kp.Type {
	case refmodel.SigDSA:
		return dsa.NewDSAPrivateKey(kp.Priv)
	case refmodel.SigP256:
		return ecdsa.NewECP256PrivateKey(kp.Priv)
	case refmodel.SigP384:
		return nil, fmt.Errorf("crypto module's ECP384PrivateKey does not implement SigningPrivateKey (no Generate)")
	case refmodel.SigEd25519, refmodel.SigEd25519ph, refmodel.SigRedDSA:
		return ed25519.NewEd25519PrivateKey(kp.Priv)
	}
	return nil, fmt.Errorf("no private key object for type %d", kp.Type)
}

// newEdPriv returns the *Ed25519PrivateKey form NewRouterInfo / NewEncryptedLeaseSet expect.
func newEdPriv(priv []byte) *ed25519.Ed25519PrivateKey {
	k := ed25519.Ed25519PrivateKey(append([]byte(nil), priv...))
	return &k
}

// X25519Pair derives a deterministic X25519 key pair (public, private) in the typed forms
// EncryptInnerLeaseSet2 / DecryptInnerData accept.
func X25519Pair(seed uint64) (x25519.PublicKey, x25519.PrivateKey) {
	priv := x25519.PrivateKey(refmodel.Fill("x25519", seed, 32))
	pub, err := priv.PublicKey()
	if err != nil {
		panic(err)
	}
	return pub, priv
}
