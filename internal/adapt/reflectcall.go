package adapt

import (
	"fmt"
	"reflect"
	"strings"
	"time"

	"verif/internal/core"
)

// CallOutcome describes one reflective method invocation.
type CallOutcome struct {
	Type     string
	Method   string
	Args     string
	Panicked bool
	Msg      string
	Site     string
	Out      []reflect.Value
}

var timeType = reflect.TypeOf(time.Time{})

// argMenu returns a small menu of values for a parameter type; ok=false if the type has no menu.
func argMenu(t reflect.Type) ([]reflect.Value, bool) {
	mk := func(vs ...any) []reflect.Value {
		out := make([]reflect.Value, 0, len(vs))
		for _, v := range vs {
			out = append(out, reflect.ValueOf(v).Convert(t))
		}
		return out
	}
	if t == timeType {
		return []reflect.Value{reflect.ValueOf(time.Time{}), reflect.ValueOf(time.Unix(1900000000, 0)), reflect.ValueOf(time.Unix(-1, 0))}, true
	}
	switch t.Kind() {
	case reflect.Int, reflect.Int64:
		return mk(int64(-1), int64(0), int64(1), int64(2), int64(16), int64(1<<31)), true
	case reflect.Int32, reflect.Int16, reflect.Int8:
		return mk(int64(-1), int64(0), int64(1)), true
	case reflect.Uint8:
		return mk(uint64(0), uint64(1), uint64(3), uint64(255)), true
	case reflect.Uint16:
		return mk(uint64(0), uint64(7), uint64(65535)), true
	case reflect.Uint32, reflect.Uint64, reflect.Uint:
		return mk(uint64(0), uint64(1), uint64(1<<32-1)), true
	case reflect.Bool:
		return mk(false, true), true
	case reflect.String:
		return mk("", "host", "a"), true
	case reflect.Slice:
		if t.Elem().Kind() == reflect.Uint8 {
			vals := [][]byte{nil, {}, {1}, {4, 'h', 'o', 's', 't'}, {5, 'a'}, make([]byte, 32)}
			// key- and signature-sized buffers (cap == len) around every field width the library slices by
			for _, n := range []int{31, 33, 40, 64, 65, 96, 100, 127, 128, 129, 132, 256, 384, 387} {
				b := make([]byte, n)
				for i := range b {
					b[i] = byte(i*7 + 1)
				}
				vals = append(vals, b)
			}
			out := make([]reflect.Value, 0, len(vals))
			for _, v := range vals {
				if v == nil {
					out = append(out, reflect.Zero(t))
				} else {
					out = append(out, reflect.ValueOf(v).Convert(t))
				}
			}
			return out, true
		}
		return []reflect.Value{reflect.Zero(t), reflect.MakeSlice(t, 0, 0)}, true
	case reflect.Array:
		z := reflect.New(t).Elem()
		f := reflect.New(t).Elem()
		if t.Elem().Kind() == reflect.Uint8 {
			for i := 0; i < t.Len(); i++ {
				f.Index(i).SetUint(uint64(i + 1))
			}
		}
		return []reflect.Value{z, f}, true
	case reflect.Ptr:
		if t.Elem().Kind() == reflect.Struct || t.Elem().Kind() == reflect.Array || t.Elem().Kind() == reflect.Slice {
			return []reflect.Value{reflect.Zero(t), reflect.New(t.Elem())}, true
		}
		return []reflect.Value{reflect.Zero(t)}, true
	case reflect.Struct:
		return []reflect.Value{reflect.New(t).Elem()}, true
	case reflect.Interface:
		out := []reflect.Value{reflect.Zero(t)}
		for _, v := range []any{[]byte{1, 2, 3}, "x", 7, make([]byte, 32)} {
			if reflect.TypeOf(v).Implements(t) {
				out = append(out, reflect.ValueOf(v).Convert(t))
			}
		}
		return out, true
	case reflect.Map:
		return []reflect.Value{reflect.Zero(t)}, true
	}
	return nil, false
}

// TypeName is pkg.Type of a value's (element) type.
func TypeName(t reflect.Type) string {
	for t.Kind() == reflect.Ptr {
		t = t.Elem()
	}
	p := t.PkgPath()
	if i := strings.LastIndexByte(p, '/'); i >= 0 {
		p = p[i+1:]
	}
	return p + "." + t.Name()
}

// CallMethods invokes every exported method of v (through a pointer, so pointer- and
// value-receiver methods are both reached). withArgs=false restricts to argument-free methods.
// For a nil pointer only pointer-receiver methods are called (a value-receiver method cannot be
// entered through a nil pointer: the language itself panics before any library code runs).
// skip lists method names not to call. visit receives each outcome.
func CallMethods(v any, withArgs bool, skip map[string]bool, visit func(o CallOutcome)) (called, unsupported int) {
	rv := reflect.ValueOf(v)
	if !rv.IsValid() {
		return
	}
	if rv.Kind() != reflect.Ptr {
		p := reflect.New(rv.Type())
		p.Elem().Set(rv)
		rv = p
	}
	pt := rv.Type()
	et := pt.Elem()
	isNil := rv.IsNil()
	tname := TypeName(pt)
	for i := 0; i < pt.NumMethod(); i++ {
		m := pt.Method(i)
		if skip[m.Name] {
			continue
		}
		if isNil {
			if _, valueRecv := et.MethodByName(m.Name); valueRecv {
				continue
			}
		}
		mt := m.Type // includes receiver as In(0)
		nin := mt.NumIn() - 1
		if nin > 0 && !withArgs {
			continue
		}
		if mt.IsVariadic() {
			unsupported++
			continue
		}
		menus := make([][]reflect.Value, nin)
		ok := true
		for k := 0; k < nin; k++ {
			menu, has := argMenu(mt.In(k + 1))
			if !has {
				ok = false
				break
			}
			menus[k] = menu
		}
		if !ok {
			unsupported++
			continue
		}
		// cartesian product capped at 400 combinations (menus are tiny; the cap is reported by callers)
		idx := make([]int, nin)
		for combos := 0; combos < 400; combos++ {
			args := make([]reflect.Value, nin)
			var desc []string
			for k := range args {
				args[k] = menus[k][idx[k]]
				desc = append(desc, fmt.Sprintf("%v", idx[k]))
			}
			var out []reflect.Value
			fn := rv.Method(i)
			panicked, msg, site := core.GuardSite(func() { out = fn.Call(args) })
			called++
			visit(CallOutcome{Type: tname, Method: m.Name, Args: strings.Join(desc, ","), Panicked: panicked, Msg: msg, Site: site, Out: out})
			// next combination
			k := 0
			for ; k < nin; k++ {
				idx[k]++
				if idx[k] < len(menus[k]) {
					break
				}
				idx[k] = 0
			}
			if k == nin {
				break
			}
		}
	}
	return
}

// IsLibraryType reports whether t (after pointer removal) is declared in go-i2p/common.
func IsLibraryType(t reflect.Type) bool {
	for t.Kind() == reflect.Ptr {
		t = t.Elem()
	}
	return strings.HasPrefix(t.PkgPath(), "github.com/go-i2p/common")
}

// FuncInfo is an exported package-level function prepared for reflective calls.
type FuncInfo struct {
	Name string
	V    reflect.Value
	T    reflect.Type
}

// FuncsTaking indexes functions by the library types of their parameters (pointer removed).
// Functions with a parameter that has no argument menu (maps, funcs, channels, foreign
// interfaces without a menu value) are left out and counted in unsupported.
func FuncsTaking(all []FuncInfo) (byType map[reflect.Type][]FuncInfo, unsupported int) {
	byType = map[reflect.Type][]FuncInfo{}
	for _, f := range all {
		ok := true
		var libs []reflect.Type
		for i := 0; i < f.T.NumIn(); i++ {
			pt := f.T.In(i)
			if IsLibraryType(pt) && (pt.Kind() == reflect.Ptr || pt.Kind() == reflect.Struct || pt.Kind() == reflect.Array || pt.Kind() == reflect.Slice) {
				base := pt
				for base.Kind() == reflect.Ptr {
					base = base.Elem()
				}
				libs = append(libs, base)
				continue
			}
			if _, has := argMenu(pt); !has {
				ok = false
			}
		}
		if !ok {
			unsupported++
			continue
		}
		seen := map[reflect.Type]bool{}
		for _, b := range libs {
			if !seen[b] {
				seen[b] = true
				byType[b] = append(byType[b], f)
			}
		}
	}
	return
}

// CallFuncsWith calls every function of fs with v (a non-nil value or pointer of a library
// type) supplied for every parameter of v's type - as value or pointer, whichever the
// parameter wants - and menu values for the remaining primitive parameters; a function with a
// parameter of ANOTHER library type is skipped (no value of that type is at hand). At most 16
// argument combinations per function.
func CallFuncsWith(v any, fs []FuncInfo, visit func(o CallOutcome)) (called int) {
	rv := reflect.ValueOf(v)
	if !rv.IsValid() {
		return
	}
	base := rv.Type()
	for base.Kind() == reflect.Ptr {
		base = base.Elem()
	}
	var val, ptr reflect.Value
	if rv.Kind() == reflect.Ptr {
		if rv.IsNil() {
			return
		}
		ptr, val = rv, rv.Elem()
	} else {
		p := reflect.New(rv.Type())
		p.Elem().Set(rv)
		ptr, val = p, p.Elem()
	}
	for _, f := range fs {
		nin := f.T.NumIn()
		menus := make([][]reflect.Value, nin)
		ok := true
		for i := 0; i < nin && ok; i++ {
			pt := f.T.In(i)
			switch {
			case pt == base:
				menus[i] = []reflect.Value{val}
			case pt.Kind() == reflect.Ptr && pt.Elem() == base:
				menus[i] = []reflect.Value{ptr}
			case IsLibraryType(pt) && (pt.Kind() == reflect.Ptr || pt.Kind() == reflect.Struct || pt.Kind() == reflect.Array || pt.Kind() == reflect.Slice):
				ok = false
			default:
				m, has := argMenu(pt)
				if !has {
					ok = false
				}
				menus[i] = m
			}
		}
		if !ok {
			continue
		}
		idx := make([]int, nin)
		for combos := 0; combos < 16; combos++ {
			args := make([]reflect.Value, nin)
			var desc []string
			for k := range args {
				args[k] = menus[k][idx[k]]
				desc = append(desc, fmt.Sprint(idx[k]))
			}
			var out []reflect.Value
			panicked, msg, site := core.GuardSite(func() { out = f.V.Call(args) })
			called++
			visit(CallOutcome{Type: "func", Method: f.Name, Args: strings.Join(desc, ","), Panicked: panicked, Msg: msg, Site: site, Out: out})
			k := 0
			for ; k < nin; k++ {
				idx[k]++
				if idx[k] < len(menus[k]) {
					break
				}
				idx[k] = 0
			}
			if k == nin {
				break
			}
		}
	}
	return
}
