package refmodel

import (
	"errors"
	"strings"
)

const B32Alphabet = "abcdefghijklmnopqrstuvwxyz234567"
const B64Alphabet = "ABCDEFGHIJKLMNOPQRSTUVWXYZabcdefghijklmnopqrstuvwxyz0123456789-~"

// encodeBits is the bit-level definition shared by base32 (5 bits/char, 8-char quantum) and
// base64 (6 bits/char, 4-char quantum): concatenate the input bits, cut into groups, pad the
// last group with zero bits, then pad the text with '=' to a whole quantum if requested.
func encodeBits(data []byte, alphabet string, bits, quantum int, pad bool) string {
	var sb strings.Builder
	acc, nbits := 0, 0
	for _, b := range data {
		acc = acc<<8 | int(b)
		nbits += 8
		for nbits >= bits {
			sb.WriteByte(alphabet[(acc>>(nbits-bits))&(1<<bits-1)])
			nbits -= bits
		}
	}
	if nbits > 0 {
		sb.WriteByte(alphabet[(acc<<(bits-nbits))&(1<<bits-1)])
	}
	if pad {
		for sb.Len()%quantum != 0 {
			sb.WriteByte('=')
		}
	}
	return sb.String()
}

func B32Encode(data []byte, pad bool) string { return encodeBits(data, B32Alphabet, 5, 8, pad) }
func B64Encode(data []byte) string           { return encodeBits(data, B64Alphabet, 6, 4, true) }

var ErrBadEncoding = errors.New("refmodel: malformed encoding")

// Verdict of the reference decoder: Accept (with value), Reject, or Unspecified (inputs that
// differ from a canonical encoding only in non-zero trailing bits — lenient decoders may accept).
type Verdict int

const (
	Reject Verdict = iota
	Accept
	Unspecified
)

// decodeBits: CR and LF are skipped. The text is body + '=' run + trailing text.
//   - every body character must be in the alphabet (else Reject);
//   - unpadded: any '=' is a foreign character (Reject); a final partial quantum whose length
//     cannot encode whole bytes is Unspecified (lenient decoders drop it);
//   - padded: body + '=' run must fill whole quanta, the run must be shorter than a quantum and
//     only follow a partial quantum of valid length (else Reject);
//   - text after a completed padding run: a foreign character there is Reject, alphabet
//     characters or further '=' are Unspecified (the standard decoders disagree with each other);
//   - non-zero trailing bits in the last character are Unspecified.
func decodeBits(s string, alphabet string, bits, quantum int, padded bool) ([]byte, Verdict) {
	var clean []byte
	for i := 0; i < len(s); i++ {
		if s[i] == '\r' || s[i] == '\n' {
			continue
		}
		clean = append(clean, s[i])
	}
	body, npad, trail := clean, 0, []byte(nil)
	if i := strings.IndexByte(string(clean), '='); i >= 0 {
		j := i
		for j < len(clean) && clean[j] == '=' {
			j++
		}
		body, npad, trail = clean[:i], j-i, clean[j:]
	}
	for _, c := range body {
		if strings.IndexByte(alphabet, c) < 0 {
			return nil, Reject
		}
	}
	verdict := Accept
	rem := len(body) % quantum
	validRem := map[int]bool{0: true}
	for nbytes := 1; nbytes*8 < quantum*bits; nbytes++ {
		validRem[(nbytes*8+bits-1)/bits] = true
	}
	if !padded {
		if npad != 0 {
			return nil, Reject
		}
		if !validRem[rem] {
			verdict = Unspecified
		}
	} else {
		if !validRem[rem] {
			return nil, Reject
		}
		if (len(body)+npad)%quantum != 0 || npad >= quantum || (npad != 0 && rem == 0) {
			return nil, Reject
		}
		if len(trail) > 0 {
			for _, c := range trail {
				if c != '=' && strings.IndexByte(alphabet, c) < 0 {
					return nil, Reject
				}
			}
			verdict = Unspecified
		}
	}
	acc, nbits := 0, 0
	var out []byte
	for _, c := range body {
		v := strings.IndexByte(alphabet, c)
		acc = (acc<<bits | v) & 0xffffff
		nbits += bits
		if nbits >= 8 {
			out = append(out, byte(acc>>(nbits-8)))
			nbits -= 8
		}
	}
	if nbits > 0 && nbits < bits && acc&(1<<nbits-1) != 0 {
		verdict = Unspecified // non-zero trailing bits
	}
	return out, verdict
}

func B32Decode(s string, padded bool) ([]byte, Verdict) {
	return decodeBits(s, B32Alphabet, 5, 8, padded)
}
func B64Decode(s string) ([]byte, Verdict) { return decodeBits(s, B64Alphabet, 6, 4, true) }
