package refmodel

import (
	"crypto"
	"crypto/dsa"
	"crypto/ecdsa"
	"crypto/ed25519"
	"crypto/elliptic"
	"crypto/rand"
	"crypto/sha1"
	"crypto/sha256"
	"crypto/sha512"
	"encoding/binary"
	"math/big"
)

// I2P's fixed DSA domain parameters (specification constants).
var (
	dsaP, _ = new(big.Int).SetString("9c05b2aa960d9b97b8931963c9cc9e8c3026e9b8ed92fad0a69cc886d5bf8015fcadae31a0ad18fab3f01b00a358de237655c4964afaa2b337e96ad316b9fb1cc564b5aec5b69a9ff6c3e4548707fef8503d91dd8602e867e6d35d2235c1869ce2479c3b9d5401de04e0727fb33d6511285d4cf29538d9e3b6051f5b22cc1c93", 16)
	dsaQ, _ = new(big.Int).SetString("a5dfc28fef4ca1e286744cd8eed9d29d684046b7", 16)
	dsaG, _ = new(big.Int).SetString("0c1f4d27d40093b429e962d7223824e0bbc47e7c832a39236fc683af84889581075ff9082ed32353d4374d7301cda1d23c431f4698599dda02451824ff369752593647cc3ddc197de985e43d136cdcfc6bd5409cd2f450821142a5e6f8eb1c3ab5d0484b8129fcf17bce4f7f33321c3cb3dbb14a905e7b2b3e93be4708cbcc82", 16)
)

// KeyPair is a signing key of one of the verifiable types, generated from the standard library.
type KeyPair struct {
	Type int
	Pub  []byte // wire form
	Priv []byte // wire/private form: Ed25519 64 bytes (seed||pub), ECDSA D, DSA X
}

// seedBytes expands (type, seed) into n pseudo-random bytes (SHA-256 in counter mode).
func seedBytes(label string, seed uint64, n int) []byte {
	var out []byte
	for ctr := uint32(0); len(out) < n; ctr++ {
		h := sha256.New()
		h.Write([]byte(label))
		var b [12]byte
		binary.BigEndian.PutUint64(b[:8], seed)
		binary.BigEndian.PutUint32(b[8:], ctr)
		h.Write(b[:])
		out = h.Sum(out)
	}
	return out[:n]
}

// Fill returns n deterministic marker bytes for a named region (region-distinct, never 0x00/0xff first).
func Fill(label string, seed uint64, n int) []byte { return seedBytes("fill:"+label, seed, n) }

func fixed(x *big.Int, n int) []byte {
	out := make([]byte, n)
	b := x.Bytes()
	copy(out[n-len(b):], b)
	return out
}

// GenKey deterministically derives a key pair of the given signing type from seed.
func GenKey(sigType int, seed uint64) KeyPair {
	switch sigType {
	case SigEd25519, SigEd25519ph, SigRedDSA:
		priv := ed25519.NewKeyFromSeed(seedBytes("ed", seed, 32))
		return KeyPair{sigType, append([]byte(nil), priv.Public().(ed25519.PublicKey)...), append([]byte(nil), priv...)}
	case SigP256, SigP384:
		curve, n := elliptic.P256(), 32
		if sigType == SigP384 {
			curve, n = elliptic.P384(), 48
		}
		d := new(big.Int).SetBytes(seedBytes("ec", seed, n+8))
		d.Mod(d, new(big.Int).Sub(curve.Params().N, big.NewInt(1)))
		d.Add(d, big.NewInt(1))
		x, y := curve.ScalarBaseMult(d.Bytes())
		return KeyPair{sigType, append(fixed(x, n), fixed(y, n)...), fixed(d, n)}
	case SigDSA:
		for s := seed; ; s += 1 << 32 {
			x := new(big.Int).SetBytes(seedBytes("dsa", s, 28))
			x.Mod(x, new(big.Int).Sub(dsaQ, big.NewInt(1)))
			x.Add(x, big.NewInt(1))
			y := new(big.Int).Exp(dsaG, x, dsaP)
			if len(y.Bytes()) == 128 { // full-width Y keeps every implementation's padding convention out of the picture
				return KeyPair{sigType, fixed(y, 128), fixed(x, 20)}
			}
		}
	}
	panic("refmodel.GenKey: unsupported type")
}

// GenKeyShaped searches deterministic key pairs of the given type for a public key whose wire form
// has a zero FIRST byte (shape 1) or a zero LAST byte (shape 2): encodings that lose a byte when an
// implementation routes key material through an arbitrary-precision integer or trims it. For DSA
// the full-width filter of GenKey is lifted (a 1024-bit Y with a zero top byte is a legal key).
func GenKeyShaped(sigType int, seed uint64, shape int) KeyPair {
	ok := func(pub []byte) bool {
		switch shape {
		case 1:
			return pub[0] == 0
		case 2:
			return pub[len(pub)-1] == 0
		}
		return true
	}
	for k := uint64(0); ; k++ {
		s := seed*100003 + k
		var kp KeyPair
		if sigType == SigDSA {
			x := new(big.Int).SetBytes(seedBytes("dsa-shaped", s, 28))
			x.Mod(x, new(big.Int).Sub(dsaQ, big.NewInt(1)))
			x.Add(x, big.NewInt(1))
			kp = KeyPair{sigType, fixed(new(big.Int).Exp(dsaG, x, dsaP), 128), fixed(x, 20)}
		} else {
			kp = GenKey(sigType, s)
		}
		if ok(kp.Pub) {
			return kp
		}
	}
}

// Sign produces a wire-format signature of msg with kp.
func Sign(kp KeyPair, msg []byte) []byte {
	switch kp.Type {
	case SigEd25519, SigRedDSA:
		return ed25519.Sign(ed25519.PrivateKey(kp.Priv), msg)
	case SigEd25519ph:
		sig, err := ed25519.PrivateKey(kp.Priv).Sign(nil, func() []byte { h := sha512.Sum512(msg); return h[:] }(), &ed25519.Options{Hash: crypto.SHA512})
		if err != nil {
			panic(err)
		}
		return sig
	case SigP256, SigP384:
		curve, n := elliptic.P256(), 32
		var digest []byte
		if kp.Type == SigP384 {
			curve, n = elliptic.P384(), 48
			h := sha512.Sum384(msg)
			digest = h[:]
		} else {
			h := sha256.Sum256(msg)
			digest = h[:]
		}
		priv := &ecdsa.PrivateKey{D: new(big.Int).SetBytes(kp.Priv)}
		priv.Curve = curve
		priv.X, priv.Y = new(big.Int).SetBytes(kp.Pub[:n]), new(big.Int).SetBytes(kp.Pub[n:])
		r, s, err := ecdsa.Sign(rand.Reader, priv, digest)
		if err != nil {
			panic(err)
		}
		return append(fixed(r, n), fixed(s, n)...)
	case SigDSA:
		priv := &dsa.PrivateKey{X: new(big.Int).SetBytes(kp.Priv)}
		priv.P, priv.Q, priv.G = dsaP, dsaQ, dsaG
		priv.Y = new(big.Int).SetBytes(kp.Pub)
		h := sha1.Sum(msg)
		r, s, err := dsa.Sign(rand.Reader, priv, h[:])
		if err != nil {
			panic(err)
		}
		return append(fixed(r, 20), fixed(s, 20)...)
	}
	panic("refmodel.Sign: unsupported type")
}

// Verify checks a wire-format signature under a wire-format public key of the given type.
// Types the specification defines but this model cannot verify (P-521, RSA) return false.
func Verify(sigType int, pub, msg, sig []byte) bool {
	si, ok := SigTable[sigType]
	if !ok || len(pub) != si.PubLen || len(sig) != si.SigLen {
		return false
	}
	switch sigType {
	case SigEd25519, SigRedDSA:
		return ed25519.Verify(ed25519.PublicKey(pub), msg, sig)
	case SigEd25519ph:
		h := sha512.Sum512(msg)
		return ed25519.VerifyWithOptions(ed25519.PublicKey(pub), h[:], sig, &ed25519.Options{Hash: crypto.SHA512}) == nil
	case SigP256, SigP384:
		curve, n := elliptic.P256(), 32
		var digest []byte
		if sigType == SigP384 {
			curve, n = elliptic.P384(), 48
			h := sha512.Sum384(msg)
			digest = h[:]
		} else {
			h := sha256.Sum256(msg)
			digest = h[:]
		}
		x, y := new(big.Int).SetBytes(pub[:n]), new(big.Int).SetBytes(pub[n:])
		if !curve.IsOnCurve(x, y) {
			return false
		}
		pk := &ecdsa.PublicKey{Curve: curve, X: x, Y: y}
		return ecdsa.Verify(pk, digest, new(big.Int).SetBytes(sig[:n]), new(big.Int).SetBytes(sig[n:]))
	case SigDSA:
		pk := &dsa.PublicKey{Y: new(big.Int).SetBytes(pub)}
		pk.P, pk.Q, pk.G = dsaP, dsaQ, dsaG
		h := sha1.Sum(msg)
		return dsa.Verify(pk, h[:], new(big.Int).SetBytes(sig[:20]), new(big.Int).SetBytes(sig[20:]))
	}
	return false
}

// Verifiable reports whether Verify implements the type.
func Verifiable(sigType int) bool {
	switch sigType {
	case SigEd25519, SigRedDSA, SigEd25519ph, SigP256, SigP384, SigDSA:
		return true
	}
	return false
}

// SHA256 of data.
func SHA256(data []byte) [32]byte { return sha256.Sum256(data) }

// AuthKind identifies a signed structure for VerifyRaw.
type AuthKind int

const (
	AuthRouterInfo AuthKind = iota
	AuthLeaseSet
	AuthLeaseSet2
	AuthMeta
	AuthELS
)

// VerifyRaw decides authenticity of a signed structure from the *received bytes* only:
// consumed is exactly what a parser consumed. It reads the identity (or blinded key) at the
// front, the offline block at its fixed position when flag bit 0 is set, takes the last
// siglen bytes as the signature, and checks it over prefix || consumed[:len-siglen] under the
// identity key — or under the transient key, in which case the offline block must itself verify
// under the identity key. The middle of the structure is never parsed, so this oracle shares
// nothing with any mapping / lease parser.
func VerifyRaw(kind AuthKind, consumed []byte) (ok bool, why string) {
	r := &Rd{B: consumed}
	var idType int
	var idKey []byte
	var prefix []byte
	var off *Offline
	switch kind {
	case AuthRouterInfo, AuthLeaseSet:
		k := r.KeysAndCert()
		if r.Err != nil {
			return false, "identity: " + r.Err.Error()
		}
		idType, idKey = k.SigType, k.Signing
	case AuthLeaseSet2, AuthMeta:
		k := r.KeysAndCert()
		r.Take(4 + 2)
		flags := r.UInt(2)
		if r.Err != nil {
			return false, "header: " + r.Err.Error()
		}
		idType, idKey = k.SigType, k.Signing
		if flags&1 != 0 {
			o := r.Offline(idType)
			if r.Err != nil {
				return false, "offline block: " + r.Err.Error()
			}
			off = &o
		}
		prefix = []byte{StoreLS2}
		if kind == AuthMeta {
			prefix = []byte{StoreMeta}
		}
	case AuthELS:
		idType = int(r.UInt(2))
		si, known := SigTable[idType]
		if r.Err != nil || !known {
			return false, "unknown blinded key type"
		}
		idKey = r.Take(si.PubLen)
		r.Take(4 + 2)
		flags := r.UInt(2)
		if r.Err != nil {
			return false, "header: " + r.Err.Error()
		}
		if flags&1 != 0 {
			o := r.Offline(idType)
			if r.Err != nil {
				return false, "offline block: " + r.Err.Error()
			}
			off = &o
		}
		prefix = []byte{StoreELS}
	}
	signType, signKey := idType, idKey
	if off != nil {
		if !Verify(idType, idKey, off.SignedData(), off.Sig) {
			return false, "offline block is not signed by the identity key"
		}
		signType, signKey = off.TransType, off.TransKey
	}
	si, known := SigTable[signType]
	if !known || len(consumed) < r.Off+si.SigLen {
		return false, "no room for signature"
	}
	body, sig := consumed[:len(consumed)-si.SigLen], consumed[len(consumed)-si.SigLen:]
	msg := append(append([]byte(nil), prefix...), body...)
	if !Verify(signType, signKey, msg, sig) {
		return false, "signature does not verify over the received bytes"
	}
	return true, ""
}
