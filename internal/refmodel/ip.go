package refmodel

import "strings"

// ParseIPLiteral is a strict recogniser of IP literals written from RFC 791 dotted-quad and
// RFC 4291 section 2.2 text forms. Result: verdict, 16-byte address (IPv4 as ::ffff:a.b.c.d),
// family 4 or 6. Unspecified is returned for forms implementations legitimately differ on
// (leading zeros in a dotted quad, zone identifiers).
func ParseIPLiteral(s string) (Verdict, [16]byte, int) {
	var z [16]byte
	if s == "" {
		return Reject, z, 0
	}
	if i := strings.IndexByte(s, '%'); i >= 0 {
		v, _, _ := ParseIPLiteral(s[:i])
		if v == Accept && strings.Contains(s[:i], ":") && i+1 < len(s) {
			return Unspecified, z, 0
		}
		return Reject, z, 0
	}
	if !strings.Contains(s, ":") {
		v, q := parseQuad(s)
		if v != Accept {
			return v, z, 0
		}
		z[10], z[11] = 0xff, 0xff
		copy(z[12:], q[:])
		return Accept, z, 4
	}
	// IPv6
	var head, tail []uint16
	var quad []byte
	parts := strings.Split(s, "::")
	if len(parts) > 2 {
		return Reject, z, 0
	}
	parseGroups := func(t string, last bool) ([]uint16, []byte, bool) {
		if t == "" {
			return nil, nil, true
		}
		var gs []uint16
		fs := strings.Split(t, ":")
		for i, f := range fs {
			if last && i == len(fs)-1 && strings.Contains(f, ".") {
				v, q := parseQuad(f)
				if v != Accept {
					return nil, nil, false
				}
				return gs, q[:], true
			}
			if len(f) < 1 || len(f) > 4 {
				return nil, nil, false
			}
			var x uint16
			for _, c := range []byte(f) {
				var d byte
				switch {
				case c >= '0' && c <= '9':
					d = c - '0'
				case c >= 'a' && c <= 'f':
					d = c - 'a' + 10
				case c >= 'A' && c <= 'F':
					d = c - 'A' + 10
				default:
					return nil, nil, false
				}
				x = x<<4 | uint16(d)
			}
			gs = append(gs, x)
		}
		return gs, nil, true
	}
	var ok bool
	if len(parts) == 1 {
		head, quad, ok = parseGroups(parts[0], true)
		if !ok {
			return Reject, z, 0
		}
		n := len(head)
		if quad != nil {
			n += 2
		}
		if n != 8 {
			return Reject, z, 0
		}
	} else {
		var q1 []byte
		head, q1, ok = parseGroups(parts[0], false)
		if !ok || q1 != nil {
			return Reject, z, 0
		}
		tail, quad, ok = parseGroups(parts[1], true)
		if !ok {
			return Reject, z, 0
		}
		n := len(head) + len(tail)
		if quad != nil {
			n += 2
		}
		if n > 7 {
			return Reject, z, 0
		}
	}
	for i, g := range head {
		z[2*i], z[2*i+1] = byte(g>>8), byte(g)
	}
	end := 16
	if quad != nil {
		copy(z[12:], quad)
		end = 12
	}
	for i := range tail {
		g := tail[len(tail)-1-i]
		z[end-2*i-2], z[end-2*i-1] = byte(g>>8), byte(g)
	}
	fam := 6
	isMapped := true
	for i := 0; i < 10; i++ {
		if z[i] != 0 {
			isMapped = false
		}
	}
	if isMapped && z[10] == 0xff && z[11] == 0xff {
		fam = 4 // an IPv4-mapped IPv6 literal denotes an IPv4 address
	}
	return Accept, z, fam
}

func parseQuad(s string) (Verdict, [4]byte) {
	var q [4]byte
	fs := strings.Split(s, ".")
	if len(fs) != 4 {
		return Reject, q
	}
	leadingZero := false
	for i, f := range fs {
		if len(f) == 0 || len(f) > 3 {
			return Reject, q
		}
		v := 0
		for _, c := range []byte(f) {
			if c < '0' || c > '9' {
				return Reject, q
			}
			v = v*10 + int(c-'0')
		}
		if v > 255 {
			return Reject, q
		}
		if len(f) > 1 && f[0] == '0' {
			leadingZero = true
		}
		q[i] = byte(v)
	}
	if leadingZero {
		return Unspecified, q
	}
	return Accept, q
}

// ParsePort: Accept for a canonical decimal 1..65535 (digits only, no leading zeros);
// Unspecified for digit strings with leading zeros or a leading '+' whose value is in range;
// Reject otherwise. Returns the canonical decimal text.
func ParsePort(s string) (Verdict, string) {
	if s == "" {
		return Reject, ""
	}
	t := s
	unspecified := false
	if t[0] == '+' {
		t = t[1:]
		unspecified = true
	}
	if t == "" || len(t) > 30 {
		return Reject, ""
	}
	v := 0
	for _, c := range []byte(t) {
		if c < '0' || c > '9' {
			return Reject, ""
		}
		if v < 1<<40 {
			v = v*10 + int(c-'0')
		}
	}
	if v < 1 || v > 65535 {
		return Reject, ""
	}
	if len(t) > 1 && t[0] == '0' {
		unspecified = true
	}
	canon := itoa(v)
	if unspecified {
		return Unspecified, canon
	}
	return Accept, canon
}

func itoa(v int) string {
	if v == 0 {
		return "0"
	}
	var b []byte
	for v > 0 {
		b = append([]byte{byte('0' + v%10)}, b...)
		v /= 10
	}
	return string(b)
}
