// Package refmodel is an independent model of the I2P 0.9.67 common structures, written from
// the specification's layout diagrams and type tables. It imports nothing from
// github.com/go-i2p/common or github.com/go-i2p/crypto (checked by setup).
package refmodel

// Signing types (spec "SigningPublicKey" table).
const (
	SigDSA       = 0
	SigP256      = 1
	SigP384      = 2
	SigP521      = 3
	SigRSA2048   = 4
	SigRSA3072   = 5
	SigRSA4096   = 6
	SigEd25519   = 7
	SigEd25519ph = 8
	SigRedDSA    = 11
)

// Crypto types (spec "PublicKey" table).
const (
	CryptoElG       = 0
	CryptoP256      = 1
	CryptoP384      = 2
	CryptoP521      = 3
	CryptoX25519    = 4
	CryptoMLKEM512  = 5
	CryptoMLKEM768  = 6
	CryptoMLKEM1024 = 7
)

// Certificate types.
const (
	CertNull     = 0
	CertHashcash = 1
	CertHidden   = 2
	CertSigned   = 3
	CertMultiple = 4
	CertKey      = 5
)

type SigInfo struct{ PubLen, SigLen int }

// SigTable: type code -> (public key length, signature length). Codes absent are unknown.
var SigTable = map[int]SigInfo{
	SigDSA:       {128, 40},
	SigP256:      {64, 64},
	SigP384:      {96, 96},
	SigP521:      {132, 132},
	SigRSA2048:   {256, 256},
	SigRSA3072:   {384, 384},
	SigRSA4096:   {512, 512},
	SigEd25519:   {32, 64},
	SigEd25519ph: {32, 64},
	SigRedDSA:    {32, 64},
}

// CryptoTable: type code -> public key length (as carried in a key certificate / LS2 key entry).
var CryptoTable = map[int]int{
	CryptoElG:       256,
	CryptoP256:      64,
	CryptoP384:      96,
	CryptoP521:      132,
	CryptoX25519:    32,
	CryptoMLKEM512:  32,
	CryptoMLKEM768:  32,
	CryptoMLKEM1024: 32,
}

// SigKnown / CryptoKnown report whether a code is in the specification's table.
func SigKnown(t int) bool    { _, ok := SigTable[t]; return ok }
func CryptoKnown(t int) bool { _, ok := CryptoTable[t]; return ok }

// ProhibitedDestSig: signing types that may not appear in a Destination (RSA and Ed25519ph are
// for offline signing only).
func ProhibitedDestSig(t int) bool {
	return t == SigRSA2048 || t == SigRSA3072 || t == SigRSA4096 || t == SigEd25519ph
}

// ProhibitedDestCrypto: ML-KEM hybrids are leaseset-only.
func ProhibitedDestCrypto(t int) bool {
	return t == CryptoMLKEM512 || t == CryptoMLKEM768 || t == CryptoMLKEM1024
}

// ProhibitedRISig: RouterIdentity additionally excludes RedDSA.
func ProhibitedRISig(t int) bool    { return ProhibitedDestSig(t) || t == SigRedDSA }
func ProhibitedRICrypto(t int) bool { return ProhibitedDestCrypto(t) }

// KnownSigCodes / KnownCryptoCodes in ascending order.
var KnownSigCodes = []int{0, 1, 2, 3, 4, 5, 6, 7, 8, 11}
var KnownCryptoCodes = []int{0, 1, 2, 3, 4, 5, 6, 7}

// Store-type prefixes for DatabaseStore signatures.
const (
	StoreLS2  = 3
	StoreELS  = 5
	StoreMeta = 7
)
