package refmodel

import "fmt"

// ---------- Certificate ----------

type Cert struct {
	Type    int
	Payload []byte
}

func (c Cert) Emit(b *Buf, name string) {
	b.Span(name, func() {
		b.Put("type", BE(uint64(c.Type), 1))
		b.Put("len", BE(uint64(len(c.Payload)), 2))
		b.Put("payload", c.Payload)
	})
}

func (c Cert) Bytes() []byte { var b Buf; c.Emit(&b, "cert"); return b.B }

func (r *Rd) Cert() Cert {
	t := int(r.UInt(1))
	n := int(r.UInt(2))
	p := r.Take(n)
	return Cert{t, append([]byte(nil), p...)}
}

// KeyCertPayload builds sigtype(2) cryptotype(2) + extra.
func KeyCertPayload(sig, crypto int, extra []byte) []byte {
	out := append(BE(uint64(sig), 2), BE(uint64(crypto), 2)...)
	return append(out, extra...)
}

// ---------- KeysAndCert (Destination / RouterIdentity) ----------

type KeysAndCert struct {
	SigType    int
	CryptoType int
	Crypto     []byte // CryptoTable[CryptoType] bytes, start of the 256-byte public key field
	Padding    []byte // the bytes between
	Signing    []byte // SigTable[SigType].PubLen bytes, end of the 128-byte signing key field
	Cert       Cert
}

// NewKAC builds a well-formed identity. nullCert is only legal for (DSA, ElGamal).
func NewKAC(sig, crypto int, nullCert bool, extra []byte, cryptoKey, padding, signing []byte) KeysAndCert {
	k := KeysAndCert{SigType: sig, CryptoType: crypto, Crypto: cryptoKey, Padding: padding, Signing: signing}
	if nullCert {
		k.Cert = Cert{CertNull, append([]byte(nil), extra...)} // a NULL certificate may declare (ignored) payload bytes
	} else {
		k.Cert = Cert{CertKey, KeyCertPayload(sig, crypto, extra)}
	}
	return k
}

func (k KeysAndCert) Emit(b *Buf, name string) {
	b.Span(name, func() {
		if len(k.Crypto)+len(k.Padding)+len(k.Signing) != 384 {
			panic(fmt.Sprintf("refmodel: key block is %d+%d+%d != 384", len(k.Crypto), len(k.Padding), len(k.Signing)))
		}
		b.Put("crypto", k.Crypto)
		b.Put("padding", k.Padding)
		b.Put("signing", k.Signing)
		k.Cert.Emit(b, "cert")
	})
}

func (k KeysAndCert) Bytes() []byte { var b Buf; k.Emit(&b, "id"); return b.B }

// KeysAndCert strictly decodes an identity: 384-byte block + certificate; key positions follow
// the certificate's declared types (crypto key start-aligned, signing key end-aligned).
func (r *Rd) KeysAndCert() KeysAndCert {
	block := r.Take(384)
	c := r.Cert()
	if r.Err != nil {
		return KeysAndCert{}
	}
	k := KeysAndCert{Cert: c}
	switch c.Type {
	case CertNull:
		// a NULL certificate that declares payload bytes is framed by its length field like any other
		// certificate (property C02 quantifies over "NULL and KEY certificates with and without extra payload")
		k.SigType, k.CryptoType = SigDSA, CryptoElG
	case CertKey:
		if len(c.Payload) < 4 {
			r.Fail("KEY certificate payload < 4")
			return k
		}
		k.SigType, k.CryptoType = int(U(c.Payload[0:2])), int(U(c.Payload[2:4]))
	default:
		r.Fail("unsupported certificate type %d in identity", c.Type)
		return k
	}
	si, ok := SigTable[k.SigType]
	cl, ok2 := CryptoTable[k.CryptoType]
	if !ok || !ok2 {
		r.Fail("unknown key types %d/%d", k.SigType, k.CryptoType)
		return k
	}
	if si.PubLen > 128 || cl > 256 {
		r.Fail("key does not fit the inline block")
		return k
	}
	k.Crypto = append([]byte(nil), block[:cl]...)
	k.Padding = append([]byte(nil), block[cl:384-si.PubLen]...)
	k.Signing = append([]byte(nil), block[384-si.PubLen:]...)
	return k
}

// ---------- Leases ----------

type Lease struct {
	Hash     [32]byte
	TunnelID uint32
	EndMs    uint64
}

func (l Lease) Bytes() []byte {
	out := append([]byte(nil), l.Hash[:]...)
	out = append(out, BE(uint64(l.TunnelID), 4)...)
	return append(out, BE(l.EndMs, 8)...)
}

type Lease2 struct {
	Hash     [32]byte
	TunnelID uint32
	EndSec   uint32
}

func (l Lease2) Bytes() []byte {
	out := append([]byte(nil), l.Hash[:]...)
	out = append(out, BE(uint64(l.TunnelID), 4)...)
	return append(out, BE(uint64(l.EndSec), 4)...)
}

// ---------- RouterAddress / RouterInfo ----------

type RouterAddress struct {
	Cost       uint8
	Expiration uint64
	Style      []byte
	Options    Mapping
}

func (a RouterAddress) Emit(b *Buf, name string) {
	b.Span(name, func() {
		b.Put("cost", BE(uint64(a.Cost), 1))
		b.Put("expiration", BE(a.Expiration, 8))
		b.Put("style", Str(a.Style))
		b.EmitMapping("options", a.Options)
	})
}

func (a RouterAddress) Bytes() []byte { var b Buf; a.Emit(&b, "addr"); return b.B }

func (r *Rd) RouterAddress() RouterAddress {
	var a RouterAddress
	a.Cost = uint8(r.UInt(1))
	a.Expiration = r.UInt(8)
	a.Style = append([]byte(nil), r.Str()...)
	a.Options = r.Mapping()
	return a
}

type RouterInfo struct {
	Ident     KeysAndCert
	Published uint64
	Addrs     []RouterAddress
	PeerSize  uint8
	Options   Mapping
	Sig       []byte
}

func (ri RouterInfo) Emit(b *Buf) {
	ri.Ident.Emit(b, "ident")
	b.Put("published", BE(ri.Published, 8))
	b.Put("size", BE(uint64(len(ri.Addrs)), 1))
	for i, a := range ri.Addrs {
		a.Emit(b, fmt.Sprintf("addr[%d]", i))
	}
	b.Put("peer_size", BE(uint64(ri.PeerSize), 1))
	b.EmitMapping("options", ri.Options)
	b.Put("signature", ri.Sig)
}

func (ri RouterInfo) Bytes() []byte { var b Buf; ri.Emit(&b); return b.B }

func DecodeRouterInfo(in []byte) (RouterInfo, int, error) {
	r := &Rd{B: in}
	var ri RouterInfo
	ri.Ident = r.KeysAndCert()
	ri.Published = r.UInt(8)
	n := int(r.UInt(1))
	for i := 0; i < n && r.Err == nil; i++ {
		ri.Addrs = append(ri.Addrs, r.RouterAddress())
	}
	ri.PeerSize = uint8(r.UInt(1))
	r.Take(32 * int(ri.PeerSize))
	ri.Options = r.Mapping()
	if r.Err == nil {
		ri.Sig = append([]byte(nil), r.Take(SigTable[ri.Ident.SigType].SigLen)...)
	}
	return ri, r.Off, r.Err
}

// ---------- LeaseSet ----------

type LeaseSet struct {
	Dest    KeysAndCert
	EncKey  []byte // 256
	SignKey []byte // length of the destination's signing key type
	Leases  []Lease
	Sig     []byte
}

func (ls LeaseSet) Emit(b *Buf) {
	ls.Dest.Emit(b, "dest")
	b.Put("enckey", ls.EncKey)
	b.Put("signkey", ls.SignKey)
	b.Put("num", BE(uint64(len(ls.Leases)), 1))
	for i, l := range ls.Leases {
		b.Put(fmt.Sprintf("lease[%d]", i), l.Bytes())
	}
	b.Put("signature", ls.Sig)
}

func (ls LeaseSet) Bytes() []byte { var b Buf; ls.Emit(&b); return b.B }

func (r *Rd) lease() Lease {
	var l Lease
	copy(l.Hash[:], r.Take(32))
	l.TunnelID = uint32(r.UInt(4))
	l.EndMs = r.UInt(8)
	return l
}

func (r *Rd) lease2() Lease2 {
	var l Lease2
	copy(l.Hash[:], r.Take(32))
	l.TunnelID = uint32(r.UInt(4))
	l.EndSec = uint32(r.UInt(4))
	return l
}

func DecodeLeaseSet(in []byte) (LeaseSet, int, error) {
	r := &Rd{B: in}
	var ls LeaseSet
	ls.Dest = r.KeysAndCert()
	if r.Err != nil {
		return ls, r.Off, r.Err
	}
	si := SigTable[ls.Dest.SigType]
	ls.EncKey = append([]byte(nil), r.Take(256)...)
	ls.SignKey = append([]byte(nil), r.Take(si.PubLen)...)
	n := int(r.UInt(1))
	if n > 16 {
		r.Fail("more than 16 leases")
	}
	for i := 0; i < n && r.Err == nil; i++ {
		ls.Leases = append(ls.Leases, r.lease())
	}
	ls.Sig = append([]byte(nil), r.Take(si.SigLen)...)
	return ls, r.Off, r.Err
}

// ---------- OfflineSignature ----------

type Offline struct {
	Expires   uint32
	TransType int
	TransKey  []byte
	Sig       []byte // by the destination's key; length from the destination's signing type
}

func (o Offline) Emit(b *Buf, name string) {
	b.Span(name, func() {
		b.Put("expires", BE(uint64(o.Expires), 4))
		b.Put("sigtype", BE(uint64(o.TransType), 2))
		b.Put("transient", o.TransKey)
		b.Put("signature", o.Sig)
	})
}

func (o Offline) Bytes() []byte { var b Buf; o.Emit(&b, "offline"); return b.B }

// SignedData is what the destination signs: expires, sigtype, transient key.
func (o Offline) SignedData() []byte {
	out := BE(uint64(o.Expires), 4)
	out = append(out, BE(uint64(o.TransType), 2)...)
	return append(out, o.TransKey...)
}

func (r *Rd) Offline(destSigType int) Offline {
	var o Offline
	o.Expires = uint32(r.UInt(4))
	o.TransType = int(r.UInt(2))
	ti, ok := SigTable[o.TransType]
	if !ok {
		r.Fail("unknown transient type %d", o.TransType)
		return o
	}
	o.TransKey = append([]byte(nil), r.Take(ti.PubLen)...)
	di, ok := SigTable[destSigType]
	if !ok {
		r.Fail("unknown destination type %d", destSigType)
		return o
	}
	o.Sig = append([]byte(nil), r.Take(di.SigLen)...)
	return o
}

func DecodeOffline(in []byte, destSigType int) (Offline, int, error) {
	r := &Rd{B: in}
	o := r.Offline(destSigType)
	return o, r.Off, r.Err
}

// ---------- LeaseSet2 ----------

type EncKey struct {
	Type int
	Data []byte
}

type LeaseSet2 struct {
	Dest      KeysAndCert
	Published uint32
	Expires   uint16
	Flags     uint16
	Offline   *Offline
	Options   Mapping
	Keys      []EncKey
	Leases    []Lease2
	Sig       []byte
}

func (ls LeaseSet2) Emit(b *Buf) {
	ls.Dest.Emit(b, "dest")
	b.Put("published", BE(uint64(ls.Published), 4))
	b.Put("expires", BE(uint64(ls.Expires), 2))
	b.Put("flags", BE(uint64(ls.Flags), 2))
	if ls.Offline != nil {
		ls.Offline.Emit(b, "offline")
	}
	b.EmitMapping("options", ls.Options)
	b.Put("numk", BE(uint64(len(ls.Keys)), 1))
	for i, k := range ls.Keys {
		b.Span(fmt.Sprintf("key[%d]", i), func() {
			b.Put("type", BE(uint64(k.Type), 2))
			b.Put("len", BE(uint64(len(k.Data)), 2))
			b.Put("data", k.Data)
		})
	}
	b.Put("num", BE(uint64(len(ls.Leases)), 1))
	for i, l := range ls.Leases {
		b.Put(fmt.Sprintf("lease[%d]", i), l.Bytes())
	}
	b.Put("signature", ls.Sig)
}

func (ls LeaseSet2) Bytes() []byte { var b Buf; ls.Emit(&b); return b.B }

// SigTypeOf returns the type of the key that signs the structure (transient if offline).
func sigTypeOf(dest int, off *Offline) int {
	if off != nil {
		return off.TransType
	}
	return dest
}

func DecodeLeaseSet2(in []byte) (LeaseSet2, int, error) {
	r := &Rd{B: in}
	var ls LeaseSet2
	ls.Dest = r.KeysAndCert()
	ls.Published = uint32(r.UInt(4))
	ls.Expires = uint16(r.UInt(2))
	ls.Flags = uint16(r.UInt(2))
	if r.Err != nil {
		return ls, r.Off, r.Err
	}
	if ls.Flags&1 != 0 {
		o := r.Offline(ls.Dest.SigType)
		ls.Offline = &o
	}
	ls.Options = r.Mapping()
	nk := int(r.UInt(1))
	if r.Err == nil && (nk < 1 || nk > 16) {
		r.Fail("key count %d", nk)
	}
	for i := 0; i < nk && r.Err == nil; i++ {
		t := int(r.UInt(2))
		l := int(r.UInt(2))
		ls.Keys = append(ls.Keys, EncKey{t, append([]byte(nil), r.Take(l)...)})
	}
	n := int(r.UInt(1))
	if r.Err == nil && n > 16 {
		r.Fail("lease count %d", n)
	}
	for i := 0; i < n && r.Err == nil; i++ {
		ls.Leases = append(ls.Leases, r.lease2())
	}
	if r.Err == nil {
		st := sigTypeOf(ls.Dest.SigType, ls.Offline)
		si, ok := SigTable[st]
		if !ok {
			r.Fail("unknown signing type %d", st)
		} else {
			ls.Sig = append([]byte(nil), r.Take(si.SigLen)...)
		}
	}
	return ls, r.Off, r.Err
}

// ---------- EncryptedLeaseSet ----------

type EncryptedLeaseSet struct {
	SigType   int
	Blinded   []byte
	Published uint32
	Expires   uint16
	Flags     uint16
	Offline   *Offline
	Inner     []byte
	Sig       []byte
}

func (e EncryptedLeaseSet) Emit(b *Buf) {
	b.Put("sigtype", BE(uint64(e.SigType), 2))
	b.Put("blinded", e.Blinded)
	b.Put("published", BE(uint64(e.Published), 4))
	b.Put("expires", BE(uint64(e.Expires), 2))
	b.Put("flags", BE(uint64(e.Flags), 2))
	if e.Offline != nil {
		e.Offline.Emit(b, "offline")
	}
	b.Put("innerlen", BE(uint64(len(e.Inner)), 2))
	b.Put("inner", e.Inner)
	b.Put("signature", e.Sig)
}

func (e EncryptedLeaseSet) Bytes() []byte { var b Buf; e.Emit(&b); return b.B }

func DecodeEncryptedLeaseSet(in []byte) (EncryptedLeaseSet, int, error) {
	r := &Rd{B: in}
	var e EncryptedLeaseSet
	e.SigType = int(r.UInt(2))
	si, ok := SigTable[e.SigType]
	if r.Err == nil && !ok {
		r.Fail("unknown sig type %d", e.SigType)
	}
	if r.Err != nil {
		return e, r.Off, r.Err
	}
	e.Blinded = append([]byte(nil), r.Take(si.PubLen)...)
	e.Published = uint32(r.UInt(4))
	e.Expires = uint16(r.UInt(2))
	e.Flags = uint16(r.UInt(2))
	if r.Err == nil && e.Flags&1 != 0 {
		o := r.Offline(e.SigType)
		e.Offline = &o
	}
	n := int(r.UInt(2))
	e.Inner = append([]byte(nil), r.Take(n)...)
	if r.Err == nil {
		st := sigTypeOf(e.SigType, e.Offline)
		s2, ok := SigTable[st]
		if !ok {
			r.Fail("unknown signing type %d", st)
		} else {
			e.Sig = append([]byte(nil), r.Take(s2.SigLen)...)
		}
	}
	return e, r.Off, r.Err
}

// ---------- MetaLeaseSet (layout as documented in meta_leaseset_struct.go; see DESIGN E2) ----------

type MetaEntry struct {
	Hash    [32]byte
	Type    uint8
	Expires uint32
	Cost    uint8
	Props   Mapping
}

type MetaLeaseSet struct {
	Dest      KeysAndCert
	Published uint32
	Expires   uint16
	Flags     uint16
	Offline   *Offline
	Options   Mapping
	Entries   []MetaEntry
	Sig       []byte
}

func (m MetaLeaseSet) Emit(b *Buf) {
	m.Dest.Emit(b, "dest")
	b.Put("published", BE(uint64(m.Published), 4))
	b.Put("expires", BE(uint64(m.Expires), 2))
	b.Put("flags", BE(uint64(m.Flags), 2))
	if m.Offline != nil {
		m.Offline.Emit(b, "offline")
	}
	b.EmitMapping("options", m.Options)
	b.Put("num", BE(uint64(len(m.Entries)), 1))
	for i, e := range m.Entries {
		b.Span(fmt.Sprintf("entry[%d]", i), func() {
			b.Put("hash", e.Hash[:])
			b.Put("type", BE(uint64(e.Type), 1))
			b.Put("expires", BE(uint64(e.Expires), 4))
			b.Put("cost", BE(uint64(e.Cost), 1))
			b.EmitMapping("props", e.Props)
		})
	}
	b.Put("signature", m.Sig)
}

func (m MetaLeaseSet) Bytes() []byte { var b Buf; m.Emit(&b); return b.B }

func DecodeMetaLeaseSet(in []byte) (MetaLeaseSet, int, error) {
	r := &Rd{B: in}
	var m MetaLeaseSet
	m.Dest = r.KeysAndCert()
	m.Published = uint32(r.UInt(4))
	m.Expires = uint16(r.UInt(2))
	m.Flags = uint16(r.UInt(2))
	if r.Err != nil {
		return m, r.Off, r.Err
	}
	if m.Flags&1 != 0 {
		o := r.Offline(m.Dest.SigType)
		m.Offline = &o
	}
	m.Options = r.Mapping()
	n := int(r.UInt(1))
	if r.Err == nil && (n < 1 || n > 16) {
		r.Fail("entry count %d", n)
	}
	for i := 0; i < n && r.Err == nil; i++ {
		var e MetaEntry
		copy(e.Hash[:], r.Take(32))
		e.Type = uint8(r.UInt(1))
		e.Expires = uint32(r.UInt(4))
		e.Cost = uint8(r.UInt(1))
		e.Props = r.Mapping()
		m.Entries = append(m.Entries, e)
	}
	if r.Err == nil {
		st := sigTypeOf(m.Dest.SigType, m.Offline)
		si, ok := SigTable[st]
		if !ok {
			r.Fail("unknown signing type %d", st)
		} else {
			m.Sig = append([]byte(nil), r.Take(si.SigLen)...)
		}
	}
	return m, r.Off, r.Err
}

// DecodeKeysAndCert / DecodeCert / DecodeMapping / DecodeRouterAddress: top-level strict decoders.
func DecodeKeysAndCert(in []byte) (KeysAndCert, int, error) {
	r := &Rd{B: in}
	k := r.KeysAndCert()
	return k, r.Off, r.Err
}
func DecodeCert(in []byte) (Cert, int, error) {
	r := &Rd{B: in}
	c := r.Cert()
	return c, r.Off, r.Err
}
func DecodeMapping(in []byte) (Mapping, int, error) {
	r := &Rd{B: in}
	m := r.Mapping()
	return m, r.Off, r.Err
}
func DecodeRouterAddress(in []byte) (RouterAddress, int, error) {
	r := &Rd{B: in}
	a := r.RouterAddress()
	return a, r.Off, r.Err
}
