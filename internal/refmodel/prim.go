package refmodel

import (
	"errors"
	"fmt"
	"math/big"
	"strings"
)

// Region names a byte range of an emitted encoding.
type Region struct {
	Name string
	Off  int
	Len  int
}

// Buf accumulates an encoding together with its region map.
type Buf struct {
	B      []byte
	R      []Region
	prefix []string
}

func (b *Buf) Push(name string) { b.prefix = append(b.prefix, name) }
func (b *Buf) Pop()             { b.prefix = b.prefix[:len(b.prefix)-1] }
func (b *Buf) path(name string) string {
	if len(b.prefix) == 0 {
		return name
	}
	return strings.Join(b.prefix, ".") + "." + name
}

// Put appends data as a named region.
func (b *Buf) Put(name string, data []byte) {
	b.R = append(b.R, Region{b.path(name), len(b.B), len(data)})
	b.B = append(b.B, data...)
}

// Span records a region covering everything appended by f.
func (b *Buf) Span(name string, f func()) {
	start := len(b.B)
	idx := len(b.R)
	b.R = append(b.R, Region{})
	b.Push(name)
	f()
	b.Pop()
	b.R[idx] = Region{b.path(name), start, len(b.B) - start}
}

// Find returns the first region with the given full name.
func FindRegion(rs []Region, name string) (Region, bool) {
	for _, r := range rs {
		if r.Name == name {
			return r, true
		}
	}
	return Region{}, false
}

// BE encodes v big-endian in exactly n bytes using math/big (panics if it does not fit: model bug).
func BE(v uint64, n int) []byte {
	x := new(big.Int).SetUint64(v)
	raw := x.Bytes()
	if len(raw) > n {
		panic(fmt.Sprintf("refmodel.BE: %d does not fit %d bytes", v, n))
	}
	out := make([]byte, n)
	copy(out[n-len(raw):], raw)
	return out
}

// BEBig returns the big-endian interpretation of b as a big integer.
func BEBig(b []byte) *big.Int { return new(big.Int).SetBytes(b) }

// U returns the big-endian value of up to 8 bytes.
func U(b []byte) uint64 {
	x := BEBig(b)
	if !x.IsUint64() {
		panic("refmodel.U: more than 64 bits")
	}
	return x.Uint64()
}

// Str encodes an I2P String: one length byte + content (len <= 255).
func Str(s []byte) []byte {
	if len(s) > 255 {
		panic("refmodel.Str: too long")
	}
	return append([]byte{byte(len(s))}, s...)
}

// Pair is one mapping entry.
type Pair struct{ K, V []byte }

// Mapping is an ordered list of pairs (the order on the wire).
type Mapping []Pair

// EmitMapping appends size(2) + pairs; regions: <name>.size, <name>.pair[i].
func (b *Buf) EmitMapping(name string, m Mapping) {
	var body []byte
	type span struct{ off, n int }
	var spans []span
	for _, p := range m {
		o := len(body)
		body = append(body, Str(p.K)...)
		body = append(body, '=')
		body = append(body, Str(p.V)...)
		body = append(body, ';')
		spans = append(spans, span{o, len(body) - o})
	}
	if len(body) > 65535 {
		panic("refmodel.EmitMapping: body exceeds 65535")
	}
	b.Span(name, func() {
		b.Put("size", BE(uint64(len(body)), 2))
		base := len(b.B)
		b.B = append(b.B, body...)
		for i, s := range spans {
			b.R = append(b.R, Region{b.path(fmt.Sprintf("pair[%d]", i)), base + s.off, s.n})
		}
	})
}

// MappingBytes is the plain encoding of a mapping.
func MappingBytes(m Mapping) []byte {
	var b Buf
	b.EmitMapping("m", m)
	return b.B
}

// Sorted returns a copy of m ordered by key bytes ascending (stable).
func (m Mapping) Sorted() Mapping {
	out := append(Mapping(nil), m...)
	for i := 1; i < len(out); i++ {
		for j := i; j > 0 && string(out[j].K) < string(out[j-1].K); j-- {
			out[j], out[j-1] = out[j-1], out[j]
		}
	}
	return out
}

// ToMap converts to a Go map (later duplicates win; callers avoid duplicates).
func (m Mapping) ToMap() map[string]string {
	out := map[string]string{}
	for _, p := range m {
		out[string(p.K)] = string(p.V)
	}
	return out
}

var ErrShort = errors.New("refmodel: input too short")

// Rd is a strict decoder cursor.
type Rd struct {
	B   []byte
	Off int
	Err error
}

func (r *Rd) Take(n int) []byte {
	if r.Err != nil {
		return nil
	}
	if n < 0 || r.Off+n > len(r.B) {
		r.Err = ErrShort
		return nil
	}
	out := r.B[r.Off : r.Off+n]
	r.Off += n
	return out
}

func (r *Rd) UInt(n int) uint64 {
	b := r.Take(n)
	if b == nil {
		return 0
	}
	return U(b)
}

func (r *Rd) Fail(format string, a ...any) {
	if r.Err == nil {
		r.Err = fmt.Errorf(format, a...)
	}
}

func (r *Rd) Str() []byte {
	n := int(r.UInt(1))
	return r.Take(n)
}

// Mapping strictly decodes size + pairs; the pairs must fill the declared size exactly.
func (r *Rd) Mapping() Mapping {
	size := int(r.UInt(2))
	body := r.Take(size)
	if r.Err != nil {
		return nil
	}
	sub := &Rd{B: body}
	m := Mapping{}
	for sub.Off < len(body) {
		k := sub.Str()
		if eq := sub.Take(1); sub.Err == nil && eq[0] != '=' {
			sub.Fail("mapping: expected '='")
		}
		v := sub.Str()
		if sc := sub.Take(1); sub.Err == nil && sc[0] != ';' {
			sub.Fail("mapping: expected ';'")
		}
		if sub.Err != nil {
			r.Err = fmt.Errorf("mapping body: %w", sub.Err)
			return nil
		}
		m = append(m, Pair{append([]byte(nil), k...), append([]byte(nil), v...)})
	}
	return m
}
