package choose

import (
	"sync"
	"testing"
)

func TestExploreMatchesClosedForm(t *testing.T) {
	menus := []int{3, 2, 5, 4, 2, 7}
	for bound := 0; bound <= 4; bound++ {
		var mu sync.Mutex
		seen := map[[6]int]int{}
		st, capped := Explore(bound, 4, nil, func(c *Ctx) {
			var v [6]int
			for i, m := range menus {
				v[i] = c.Pick("p", m)
			}
			mu.Lock()
			seen[v]++
			mu.Unlock()
		})
		want := Count(menus, bound)
		if capped || st.Executions != want || int64(len(seen)) != want {
			t.Fatalf("bound %d: executions %d distinct %d want %d", bound, st.Executions, len(seen), want)
		}
		for v, n := range seen {
			if n != 1 {
				t.Fatalf("vector %v visited %d times", v, n)
			}
			d := 0
			for _, x := range v {
				if x != 0 {
					d++
				}
			}
			if d > bound {
				t.Fatalf("vector %v exceeds bound %d", v, bound)
			}
		}
	}
}

// Data-dependent shape: later points exist only under some choices.
func TestExploreDependentPoints(t *testing.T) {
	var mu sync.Mutex
	seen := map[string]int{}
	st, _ := Explore(2, 3, nil, func(c *Ctx) {
		s := ""
		if c.Flag("a") {
			s += "A"
			if c.Pick("b", 3) == 2 {
				s += "B2"
				if c.Flag("c") {
					s += "C"
				}
			}
		}
		if c.Flag("d") {
			s += "D"
		}
		mu.Lock()
		seen[s]++
		mu.Unlock()
	})
	// executions with <=2 deviations: "", A, D, AD, A+b1 (A), A+b2 (AB2)  => vectors: [],[a],[d],[a,d],[a,b1],[a,b2]
	if st.Executions != 6 {
		t.Fatalf("executions %d, seen %v", st.Executions, seen)
	}
	if _, ok := seen["AB2C"]; ok {
		t.Fatal("3-deviation execution explored under bound 2")
	}
}

func TestReplayDivergencePanics(t *testing.T) {
	defer func() {
		if recover() == nil {
			t.Fatal("expected panic")
		}
	}()
	Run([]int{5}, func(c *Ctx) { c.Pick("x", 2) })
}
