// Package choose: E1 — stateless, deviation-bounded, exhaustive DFS over nondeterministic
// choices. A generator is ordinary Go code calling c.Pick(name, n) at every field; option 0 is
// the default, every other option costs one deviation. Explore enumerates *every* execution
// whose number of non-default choices is <= bound, exactly once (no hashing, no merging).
package choose

import (
	"fmt"
	"strings"
	"sync"
	"sync/atomic"
)

type point struct {
	name string
	n    int
	cost int // cost of taking a non-default option here
}

type Ctx struct {
	prefix  []int
	choices []int
	points  []point
	spent   int
	bound   int
	Worker  int
}

// Pick returns an option index in [0,n). Replay of a prefix with an out-of-range choice panics
// (a divergence during replay is a hard error, never silently re-interpreted).
func (c *Ctx) Pick(name string, n int) int { return c.PickCost(name, n, 1) }

// PickCost is Pick with an explicit deviation cost for the non-default options (0 = free variation).
func (c *Ctx) PickCost(name string, n int, cost int) int {
	if n <= 0 {
		panic("choose: empty menu " + name)
	}
	i := len(c.choices)
	v := 0
	if i < len(c.prefix) {
		v = c.prefix[i]
		if v < 0 || v >= n {
			panic(fmt.Sprintf("choose: replay divergence at point %d (%s): choice %d out of range %d", i, name, v, n))
		}
	}
	if v != 0 {
		c.spent += cost
	}
	c.choices = append(c.choices, v)
	c.points = append(c.points, point{name, n, cost})
	return v
}

// Flag is a two-option Pick.
func (c *Ctx) Flag(name string) bool { return c.Pick(name, 2) == 1 }

// Budget returns how many deviations remain for choices after the current point.
func (c *Ctx) Budget() int { return c.bound - c.spent }

// Vector returns the choice vector of this execution (the replay artefact).
func (c *Ctx) Vector() []int { return append([]int(nil), c.choices...) }

// Describe lists the non-default choices by name.
func (c *Ctx) Describe() string {
	var sb strings.Builder
	for i, v := range c.choices {
		if v != 0 {
			fmt.Fprintf(&sb, "%s=%d ", c.points[i].name, v)
		}
	}
	if sb.Len() == 0 {
		return "(all defaults)"
	}
	return strings.TrimSpace(sb.String())
}

// Deviations returns the names of the non-default points (used as violation classes).
func (c *Ctx) Deviations() []string {
	var out []string
	for i, v := range c.choices {
		if v != 0 {
			out = append(out, fmt.Sprintf("%s=%d", c.points[i].name, v))
		}
	}
	return out
}

type Stats struct {
	Executions  int64 // complete executions (traces)
	Points      int64 // choice points reached (states)
	Transitions int64 // choices taken
}

// Run executes the generator once with the given choice vector (replay).
func Run(vector []int, body func(c *Ctx)) *Ctx {
	c := &Ctx{prefix: vector, bound: 1 << 30}
	body(c)
	if len(c.choices) < len(vector) {
		panic(fmt.Sprintf("choose: replay divergence: vector has %d choices, execution took %d", len(vector), len(c.choices)))
	}
	return c
}

// Explore enumerates all executions with at most bound deviations, in parallel over the
// level-1 subtrees. body is called once per execution and must be safe for concurrent use on
// distinct Ctx values. stop (optional) is polled between executions; when it returns true the
// remaining subtrees are abandoned and capped is reported.
func Explore(bound int, workers int, stop func() bool, body func(c *Ctx)) (st Stats, capped bool) {
	st, capped, div := ExploreDiv(bound, workers, stop, body)
	if div != "" {
		panic(div) // a generator that is not a function of its choices is a harness error
	}
	return st, capped
}

// ExploreDiv is Explore for bodies that execute code under test between choice points: when an execution
// does not reproduce the recorded prefix (it reaches fewer or other choice points than the execution the
// prefix was taken from) the exploration of that subtree cannot continue; instead of a hard error the
// divergence is reported (first message) so that the caller can attribute it.
func ExploreDiv(bound int, workers int, stop func() bool, body func(c *Ctx)) (st Stats, capped bool, diverged string) {
	var divMsg atomic.Value
	guard := func(f func()) {
		defer func() {
			if x := recover(); x != nil {
				divMsg.CompareAndSwap(nil, fmt.Sprint(x))
			}
		}()
		f()
	}
	defer func() {
		if m, ok := divMsg.Load().(string); ok {
			diverged = m
		}
	}()
	var ex, pts, tr atomic.Int64
	var cap atomic.Bool
	runOne := func(prefix []int, worker int) *Ctx {
		c := &Ctx{prefix: prefix, bound: bound, Worker: worker}
		body(c)
		ex.Add(1)
		pts.Add(int64(len(c.points)))
		tr.Add(int64(len(c.choices)))
		return c
	}
	var rec func(prefix []int, worker int)
	rec = func(prefix []int, worker int) {
		if stop != nil && stop() {
			cap.Store(true)
			return
		}
		c := runOne(prefix, worker)
		spent := 0
		for i := 0; i < len(c.choices); i++ {
			if i >= len(prefix) {
				if spent+c.points[i].cost <= bound {
					for alt := 1; alt < c.points[i].n; alt++ {
						np := make([]int, i+1)
						copy(np, c.choices[:i])
						np[i] = alt
						rec(np, worker)
					}
				}
			}
			if c.choices[i] != 0 {
				spent += c.points[i].cost
			}
		}
	}
	// root execution, then shard its alternatives
	var root *Ctx
	guard(func() { root = runOne(nil, 0) })
	if root == nil {
		return Stats{ex.Load(), pts.Load(), tr.Load()}, cap.Load(), ""
	}
	type job struct{ prefix []int }
	var jobs []job
	for i := 0; i < len(root.choices); i++ {
		if root.points[i].cost <= bound {
			for alt := 1; alt < root.points[i].n; alt++ {
				np := make([]int, i+1)
				np[i] = alt
				jobs = append(jobs, job{np})
			}
		}
	}
	if workers < 1 {
		workers = 1
	}
	var next atomic.Int64
	var wg sync.WaitGroup
	for w := 0; w < workers; w++ {
		wg.Add(1)
		go func(w int) {
			defer wg.Done()
			for {
				j := int(next.Add(1) - 1)
				if j >= len(jobs) {
					return
				}
				guard(func() { rec(jobs[j].prefix, w) })
			}
		}(w)
	}
	wg.Wait()
	return Stats{ex.Load(), pts.Load(), tr.Load()}, cap.Load(), ""
}

// Count returns the closed-form number of executions for a generator whose every execution
// reaches the same k points with menu sizes n[i] and unit costs: sum over subsets S, |S|<=bound,
// of prod_{i in S}(n[i]-1). Used by the engine's self-test.
func Count(n []int, bound int) int64 {
	// dp[j] = number of ways with exactly j deviations
	dp := make([]int64, bound+1)
	dp[0] = 1
	for _, m := range n {
		for j := bound; j >= 1; j-- {
			dp[j] += dp[j-1] * int64(m-1)
		}
	}
	var s int64
	for _, v := range dp {
		s += v
	}
	return s
}

// Exhausted reports that the replay prefix is consumed and no deviation budget is left: no
// alternative can be scheduled at later points, so a caller may skip calling Pick (used by the
// cooperative scheduler to avoid a Pick at every statement once its preemptions are spent).
func (c *Ctx) Exhausted() bool { return len(c.choices) >= len(c.prefix) && c.spent >= c.bound }
