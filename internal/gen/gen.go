// Package gen: the shared structure generators. Every field is a choose.Pick over a small menu
// (default first; each other option is one deviation). All values produced here are
// *well-formed* model values with real keys and real signatures made by refmodel (standard
// library crypto only). Malformed encodings are derived from them by the byte-level operators
// in mutate.go, using the region map.
package gen

import (
	"bytes"
	"fmt"
	"sync"

	"verif/internal/choose"
	"verif/internal/refmodel"
)

type Role int

const (
	RoleDest Role = iota
	RoleRouter
)

var keyCache sync.Map

// Key returns a cached deterministic key pair.
func Key(sigType int, seed uint64) refmodel.KeyPair {
	k := [2]uint64{uint64(sigType), seed}
	if v, ok := keyCache.Load(k); ok {
		return v.(refmodel.KeyPair)
	}
	kp := refmodel.GenKey(sigType, seed)
	keyCache.Store(k, kp)
	return kp
}

// KeyShaped is Key for the degenerate encodings of refmodel.GenKeyShaped (cached).
func KeyShaped(sigType int, seed uint64, shape int) refmodel.KeyPair {
	if shape == 0 {
		return Key(sigType, seed)
	}
	k := [3]uint64{uint64(sigType), seed, uint64(shape)}
	if v, ok := keyCache.Load(k); ok {
		return v.(refmodel.KeyPair)
	}
	kp := refmodel.GenKeyShaped(sigType, seed, shape)
	keyCache.Store(k, kp)
	return kp
}

// Fixed far-future instants so that no time-dependent validator interferes.
const (
	Published   = 1900000000 // 2030-03-17
	PublishedMs = 1900000000123
	ExpiresOff  = 600
	OfflineExp  = 2000000000
	LeaseEndSec = 1900000600
	LeaseEndMs  = 1900000600000
)

// cryptoKey returns marker bytes that are a valid ElGamal Y (2 <= Y < p-1) when n == 256.
func cryptoKey(label string, seed uint64, n int, fill int) []byte {
	switch fill {
	case 1:
		b := make([]byte, n)
		b[n-1] = 2
		return b
	}
	b := refmodel.Fill(label, seed, n)
	b[0] &= 0x7f
	b[0] |= 0x01
	return b
}

// KAC generates an identity. name prefixes the choice names.
func KAC(c *choose.Ctx, name string, role Role, seed uint64) (refmodel.KeysAndCert, refmodel.KeyPair) {
	sigMenu := []int{7, 0, 1, 2, 11}
	if role == RoleRouter {
		sigMenu = []int{7, 0, 1, 2}
	}
	sig := sigMenu[c.Pick(name+".sigtype", len(sigMenu))]
	cr := []int{4, 0}[c.Pick(name+".cryptotype", 2)]
	form := c.Pick(name+".certform", 5) // 0 KEY, 1 KEY+1 extra, 2 KEY+5 extra, 3 NULL (forces DSA/ElGamal), 4 NULL declaring 2 payload bytes
	padFill := c.Pick(name+".padfill", 3)
	keyFill := c.Pick(name+".cryptofill", 2)
	var extra []byte
	null := false
	switch form {
	case 1:
		extra = []byte{0xE1}
	case 2:
		extra = []byte{0xE1, 0xE2, 0xE3, 0xE4, 0xE5}
	case 3:
		null, sig, cr = true, 0, 0
	case 4:
		null, sig, cr = true, 0, 0
		extra = []byte{0xA1, 0xA2}
	}
	// signing-key encodings with a zero first / last byte (real keys, found by search: the structures stay verifiable)
	kp := KeyShaped(sig, seed, c.Pick(name+".sigkeyshape", 3))
	cl := refmodel.CryptoTable[cr]
	pl := 384 - cl - len(kp.Pub)
	var pad []byte
	switch padFill {
	case 0:
		pad = refmodel.Fill(name+".pad", seed, pl)
	case 1:
		pad = make([]byte, pl)
	case 2:
		pad = bytes.Repeat([]byte{0xff}, pl)
	}
	return refmodel.NewKAC(sig, cr, null, extra, cryptoKey(name+".crypto", seed, cl, keyFill), pad, kp.Pub), kp
}

var longKey = bytes.Repeat([]byte("K"), 255)
var longVal = bytes.Repeat([]byte("v"), 255)

// MappingMenu is the shared options menu. Index 0 is the empty mapping.
var MappingMenu = []refmodel.Mapping{
	{},
	{{K: []byte("a"), V: []byte("b")}},
	{{K: []byte("a"), V: []byte("")}},
	{{K: []byte("a"), V: []byte("1")}, {K: []byte("b"), V: []byte("2")}},
	{{K: []byte("b"), V: []byte("2")}, {K: []byte("a"), V: []byte("1")}},
	{{K: []byte(""), V: []byte("")}},
	{{K: longKey, V: longVal}},
	{{K: []byte("a=b;c"), V: []byte("d;=e")}},
	{{K: []byte("caps"), V: []byte("BC")}, {K: []byte("host"), V: []byte("127.0.0.1")}, {K: []byte("port"), V: []byte("4567")}},
	{{K: []byte("x"), V: []byte{0x00, 0xff}}, {K: []byte("y"), V: []byte("")}},
	// well-known option keys present but empty (accessors index into these values)
	{{K: []byte("caps"), V: []byte("")}, {K: []byte("host"), V: []byte("")}, {K: []byte("i"), V: []byte("")}, {K: []byte("port"), V: []byte("")}, {K: []byte("router.version"), V: []byte("")}, {K: []byte("s"), V: []byte("")}, {K: []byte("v"), V: []byte("")}},
	// router-level options with a realistic and with a degenerate version string
	{{K: []byte("caps"), V: []byte("fRX")}, {K: []byte("netId"), V: []byte("2")}, {K: []byte("router.version"), V: []byte("0.9.67")}},
	{{K: []byte("caps"), V: []byte("6")}, {K: []byte("host"), V: []byte("example.i2p")}, {K: []byte("router.version"), V: []byte("..")}},
}

// MappingNames for readable identities.
var MappingNames = []string{"empty", "a=b", "a=''", "sorted2", "unsorted2", "''=''", "255/255", "specials", "caps-host-port", "binary+emptylast", "wellknown-empty", "router-caps-version", "degenerate-version"}

func Mapping(c *choose.Ctx, name string) refmodel.Mapping {
	return MappingMenu[c.Pick(name, len(MappingMenu))]
}

// Offline generates an optional offline block signed by dest. Returns nil when absent.
func Offline(c *choose.Ctx, name string, dest refmodel.KeyPair, seed uint64) (*refmodel.Offline, *refmodel.KeyPair) {
	menu := []int{-1, 7, 1, 0, 11, 8, 2}
	t := menu[c.Pick(name+".transient", len(menu))]
	if t < 0 {
		return nil, nil
	}
	exp := []uint32{OfflineExp, 1, 1<<32 - 1}[c.Pick(name+".expires", 3)]
	tk := Key(t, seed+1000)
	o := refmodel.Offline{Expires: exp, TransType: t, TransKey: tk.Pub}
	o.Sig = refmodel.Sign(dest, o.SignedData())
	return &o, &tk
}

func hash(label string, seed uint64) (h [32]byte) {
	copy(h[:], refmodel.Fill(label, seed, 32))
	h[0] |= 1
	return
}

// Signed is a generated, signed structure with its encoding, region map and keys.
type Signed struct {
	Kind    string
	Bytes   []byte
	Regions []refmodel.Region
	Value   any
	Signer  refmodel.KeyPair // the key that made the outer signature
	IDKey   refmodel.KeyPair // the identity key
}

// RouterAddress generates one address.
func RouterAddress(c *choose.Ctx, name string) refmodel.RouterAddress {
	a := refmodel.RouterAddress{}
	a.Cost = []uint8{10, 0, 255}[c.Pick(name+".cost", 3)]
	a.Expiration = []uint64{0, 1900000000000}[c.Pick(name+".expiration", 2)]
	a.Style = [][]byte{[]byte("NTCP2"), []byte("SSU2"), []byte("x"), bytes.Repeat([]byte("T"), 255)}[c.Pick(name+".style", 4)]
	a.Options = Mapping(c, name+".options")
	return a
}

// RouterInfo: Ed25519 by default (the only type the library's verifier supports), other types as variations.
func RouterInfo(c *choose.Ctx) Signed {
	id, kp := KAC(c, "ident", RoleRouter, 11)
	ri := refmodel.RouterInfo{Ident: id}
	ri.Published = []uint64{PublishedMs, 1, 1<<63 - 1}[c.Pick("published", 3)]
	n := []int{1, 0, 2, 255}[c.Pick("naddr", 4)]
	for i := 0; i < n; i++ {
		if i < 2 {
			ri.Addrs = append(ri.Addrs, RouterAddress(c, fmt.Sprintf("addr[%d]", i)))
		} else {
			ri.Addrs = append(ri.Addrs, refmodel.RouterAddress{Cost: uint8(i), Style: []byte("NTCP2"), Options: MappingMenu[1]})
		}
	}
	ri.Options = Mapping(c, "options")
	var b refmodel.Buf
	ri.Emit(&b)
	ri.Sig = refmodel.Sign(kp, b.B)
	b = refmodel.Buf{}
	ri.Emit(&b)
	return Signed{"RouterInfo", b.B, b.R, ri, kp, kp}
}

// leaseShape: field values of the first lease that are legal on the wire but degenerate: an all-zero
// gateway hash, tunnel id 0 / 2^32-1, an all-ff hash (rules about them differ between twin sites).
func leaseShape(c *choose.Ctx, h *[32]byte, tunnel *uint32) {
	switch c.Pick("lease[0].shape", 5) {
	case 1:
		*h = [32]byte{}
	case 2:
		*tunnel = 0
	case 3:
		*tunnel = 1<<32 - 1
	case 4:
		for i := range h {
			h[i] = 0xff
		}
	}
}

// leaseSkew: end dates in wire order are deliberately neither ascending nor descending and contain a tie
// (3 1 4 1 5 9 2 6 ...), so that anything that sorts, dedups or takes an extremum of the leases in place shows.
func leaseSkew(i int) uint64 {
	return uint64([]int{3, 1, 4, 1, 5, 9, 2, 6, 5, 3, 5, 8, 9, 7, 9, 3}[i%16])
}

func leases(c *choose.Ctx) []refmodel.Lease {
	n := []int{1, 0, 2, 16}[c.Pick("nleases", 4)]
	var out []refmodel.Lease
	for i := 0; i < n; i++ {
		l := refmodel.Lease{Hash: hash("gw", uint64(i)), TunnelID: uint32(i + 1), EndMs: LeaseEndMs + leaseSkew(i)*1000}
		if i == 0 {
			leaseShape(c, &l.Hash, &l.TunnelID)
		}
		out = append(out, l)
	}
	return out
}

func leases2(c *choose.Ctx, menu []int) []refmodel.Lease2 {
	n := menu[c.Pick("nleases", len(menu))]
	var out []refmodel.Lease2
	for i := 0; i < n; i++ {
		l := refmodel.Lease2{Hash: hash("gw2", uint64(i)), TunnelID: uint32(i + 1), EndSec: LeaseEndSec + uint32(leaseSkew(i))}
		if i == 0 {
			leaseShape(c, &l.Hash, &l.TunnelID)
		}
		out = append(out, l)
	}
	return out
}

// LeaseSet (legacy).
func LeaseSet(c *choose.Ctx) Signed {
	d, kp := KAC(c, "dest", RoleDest, 21)
	ls := refmodel.LeaseSet{Dest: d}
	ls.EncKey = cryptoKey("ls.enckey", 5, 256, c.Pick("enckeyfill", 2))
	ls.SignKey = Key(d.SigType, 22).Pub // a real (range-valid) key of the destination's type
	ls.Leases = leases(c)
	var b refmodel.Buf
	ls.Emit(&b)
	ls.Sig = refmodel.Sign(kp, b.B)
	b = refmodel.Buf{}
	ls.Emit(&b)
	return Signed{"LeaseSet", b.B, b.R, ls, kp, kp}
}

var keyEntryMenu = []refmodel.EncKey{
	{Type: 4, Data: refmodel.Fill("ek4", 1, 32)},
	{Type: 0, Data: cryptoKey("ek0", 1, 256, 0)},
	{Type: 5, Data: refmodel.Fill("ek5", 1, 32)},
	{Type: 0x1234, Data: refmodel.Fill("ekx", 1, 7)},
	{Type: 4, Data: refmodel.Fill("ek4long", 1, 64)},  // known type, length other than the table's
	{Type: 5, Data: refmodel.Fill("ek5full", 1, 832)}, // ML-KEM-512 hybrid announced at its full length
	{Type: 0, Data: refmodel.Fill("ek0short", 1, 1)},
}

func encKeys(c *choose.Ctx) []refmodel.EncKey {
	n := []int{1, 2, 16}[c.Pick("nkeys", 3)]
	var out []refmodel.EncKey
	for i := 0; i < n; i++ {
		if i < 2 {
			out = append(out, keyEntryMenu[c.Pick(fmt.Sprintf("key[%d].kind", i), len(keyEntryMenu))])
		} else {
			out = append(out, refmodel.EncKey{Type: 4, Data: refmodel.Fill("ekn", uint64(i), 32)})
		}
	}
	return out
}

// LeaseSet2.
func LeaseSet2(c *choose.Ctx) Signed {
	d, kp := KAC(c, "dest", RoleDest, 31)
	ls := refmodel.LeaseSet2{Dest: d}
	ls.Published = []uint32{Published, 0, 1<<32 - 1}[c.Pick("published", 3)]
	ls.Expires = []uint16{ExpiresOff, 0, 65535}[c.Pick("expires", 3)]
	ls.Flags = []uint16{0, 2, 4, 6}[c.Pick("flags", 4)]
	off, tk := Offline(c, "offline", kp, 32)
	signer := kp
	if off != nil {
		ls.Offline = off
		ls.Flags |= 1
		signer = *tk
	}
	ls.Options = Mapping(c, "options")
	ls.Keys = encKeys(c)
	ls.Leases = leases2(c, []int{1, 0, 2, 16})
	var b refmodel.Buf
	ls.Emit(&b)
	ls.Sig = refmodel.Sign(signer, append([]byte{refmodel.StoreLS2}, b.B...))
	b = refmodel.Buf{}
	ls.Emit(&b)
	return Signed{"LeaseSet2", b.B, b.R, ls, signer, kp}
}

// MetaLeaseSet.
func MetaLeaseSet(c *choose.Ctx) Signed {
	d, kp := KAC(c, "dest", RoleDest, 41)
	m := refmodel.MetaLeaseSet{Dest: d}
	m.Published = []uint32{Published, 0, 1<<32 - 1}[c.Pick("published", 3)]
	m.Expires = []uint16{ExpiresOff, 0, 65535}[c.Pick("expires", 3)]
	m.Flags = []uint16{0, 2}[c.Pick("flags", 2)]
	off, tk := Offline(c, "offline", kp, 42)
	signer := kp
	if off != nil {
		m.Offline = off
		m.Flags |= 1
		signer = *tk
	}
	m.Options = Mapping(c, "options")
	n := []int{1, 2, 16}[c.Pick("nentries", 3)]
	for i := 0; i < n; i++ {
		e := refmodel.MetaEntry{Hash: hash("me", uint64(i)), Type: 3, Expires: LeaseEndSec, Cost: uint8(i)}
		if i < 2 {
			e.Type = []uint8{3, 1, 5}[c.Pick(fmt.Sprintf("entry[%d].type", i), 3)]
			e.Cost = []uint8{0, 255}[c.Pick(fmt.Sprintf("entry[%d].cost", i), 2)]
			e.Props = Mapping(c, fmt.Sprintf("entry[%d].props", i))
		}
		m.Entries = append(m.Entries, e)
	}
	var b refmodel.Buf
	m.Emit(&b)
	m.Sig = refmodel.Sign(signer, append([]byte{refmodel.StoreMeta}, b.B...))
	b = refmodel.Buf{}
	m.Emit(&b)
	return Signed{"MetaLeaseSet", b.B, b.R, m, signer, kp}
}

// EncryptedLeaseSet.
func EncryptedLeaseSet(c *choose.Ctx) Signed {
	st := []int{11, 7, 0, 1, 2}[c.Pick("sigtype", 5)]
	kp := Key(st, 51)
	e := refmodel.EncryptedLeaseSet{SigType: st, Blinded: kp.Pub}
	e.Published = []uint32{Published, 0, 1<<32 - 1}[c.Pick("published", 3)]
	e.Expires = []uint16{ExpiresOff, 1, 65535}[c.Pick("expires", 3)]
	e.Flags = []uint16{0, 2}[c.Pick("flags", 2)]
	off, tk := Offline(c, "offline", kp, 52)
	signer := kp
	if off != nil {
		e.Offline = off
		e.Flags |= 1
		signer = *tk
	}
	e.Inner = refmodel.Fill("inner", 5, []int{80, 61, 65535}[c.Pick("innerlen", 3)])
	var b refmodel.Buf
	e.Emit(&b)
	e.Sig = refmodel.Sign(signer, append([]byte{refmodel.StoreELS}, b.B...))
	b = refmodel.Buf{}
	e.Emit(&b)
	return Signed{"EncryptedLeaseSet", b.B, b.R, e, signer, kp}
}

// OfflineAlone: an offline signature block on its own (destination type from the menu).
func OfflineAlone(c *choose.Ctx) (Signed, int) {
	dt := []int{7, 11, 0, 1, 2}[c.Pick("desttype", 5)]
	dk := Key(dt, 61)
	tt := []int{7, 1, 0, 11, 8, 2}[c.Pick("transient", 6)]
	exp := []uint32{OfflineExp, 1, 1<<32 - 1}[c.Pick("expires", 3)]
	tk := Key(tt, 62)
	o := refmodel.Offline{Expires: exp, TransType: tt, TransKey: tk.Pub}
	o.Sig = refmodel.Sign(dk, o.SignedData())
	var b refmodel.Buf
	o.Emit(&b, "offline")
	return Signed{"OfflineSignature", b.B, b.R, o, dk, dk}, dt
}

// Identity: a bare KeysAndCert.
func Identity(c *choose.Ctx, role Role) Signed {
	k, kp := KAC(c, "id", role, 71)
	var b refmodel.Buf
	k.Emit(&b, "id")
	return Signed{"KeysAndCert", b.B, b.R, k, kp, kp}
}
