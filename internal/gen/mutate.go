package gen

import (
	"fmt"
	"strings"

	"verif/internal/refmodel"
)

// Mutations enumerates the structure-aware single-step derivations of an encoding, using its
// region map. Each derivation has a class name (stable, used in violation identities) and a
// detail. The enumeration is deterministic and complete for the operator menus below.
//
//	set(field,v)      numeric fields (<= 4 bytes): a menu of values incl. 0, +-1, boundaries, known type codes
//	                  (thorough: all 256 values of one-byte fields, 0..300 and 2^k+-1 for two-byte fields)
//	flip/zero/ones    first-bit flip, last-bit flip, 00-fill, ff-fill of every region
//	padkey/padvalue   a strippable byte (NUL, blank, tab, newline, DEL) inserted at either end of a mapping pair's key or value, lengths adjusted
//	grow(field,k)     k junk bytes appended inside a length-delimited region and the length bumped (k=1..6)
//	shrinklen(field)  length field decreased by one with the data left in place
//	ins/del           one byte inserted / deleted at every region start
//	cut(k)            truncation (every offset when all is true, else region boundaries +-1)
//	append            trailing bytes: 00, ff, 7 x ff, a copy of the whole encoding
func Mutations(s []byte, regs []refmodel.Region, allCuts bool, emit func(class, detail string, b []byte)) {
	clone := func() []byte { return append([]byte(nil), s...) }
	short := func(n string) string { // strip indices for the class: addr[1].options.size -> addr[].options.size
		var sb strings.Builder
		skip := false
		for i := 0; i < len(n); i++ {
			switch {
			case n[i] == '[':
				sb.WriteByte('[')
				skip = true
			case n[i] == ']':
				sb.WriteByte(']')
				skip = false
			case !skip:
				sb.WriteByte(n[i])
			}
		}
		return sb.String()
	}
	isLeaf := func(r refmodel.Region) bool {
		for _, o := range regs {
			if o.Name != r.Name && strings.HasPrefix(o.Name, r.Name+".") {
				return false
			}
		}
		return true
	}
	// Repeated elements (addr[i], lease[i], key[i], entry[i]): operators are applied to indices
	// 0, 1 and the last one only; the elements in between are byte-for-byte of the same shape.
	maxIdx := map[string]int{}
	for _, r := range regs {
		for _, ix := range indices(r.Name) {
			if ix.n > maxIdx[ix.prefix] {
				maxIdx[ix.prefix] = ix.n
			}
		}
	}
	keep := func(name string) bool {
		for _, ix := range indices(name) {
			if ix.n >= 2 && ix.n != maxIdx[ix.prefix] {
				return false
			}
		}
		return true
	}
	// permute(whole elements): two ADJACENT sibling regions of a repeated element (mapping pairs, leases, keys,
	// entries, addresses) exchanged, byte for byte - the length of the encoding and every count and size field
	// stay right, only the order changes; and, for three or more siblings, the whole run reversed
	{
		type sib struct{ off, n int }
		runs := map[string][]sib{}
		var order []string
		for _, r := range regs {
			ix := indices(r.Name)
			if len(ix) == 0 || !strings.HasSuffix(r.Name, "]") {
				continue
			}
			last := ix[len(ix)-1]
			if last.prefix+fmt.Sprintf("[%d]", last.n) != r.Name {
				continue
			}
			if _, ok := runs[last.prefix]; !ok {
				order = append(order, last.prefix)
			}
			runs[last.prefix] = append(runs[last.prefix], sib{r.Off, r.Len})
		}
		for _, pre := range order {
			sibs := runs[pre]
			contiguous := true
			for i := 1; i < len(sibs); i++ {
				if sibs[i].off != sibs[i-1].off+sibs[i-1].n {
					contiguous = false
				}
			}
			// addelem: one more well-formed element and the one-byte count in front of the run bumped - a copy of
			// the last element appended, and for key entries (type, length, data) an entry of an unassigned type
			// inserted in front of and behind the run
			if contiguous && len(sibs) >= 1 {
				for _, r := range regs {
					if r.Len != 1 || r.Off+1 != sibs[0].off || s[r.Off] == 0xff {
						continue
					}
					end := sibs[len(sibs)-1].off + sibs[len(sibs)-1].n
					ins := func(at int, elem []byte) []byte {
						b := append(append(append([]byte(nil), s[:at]...), elem...), s[at:]...)
						b[r.Off]++
						return b
					}
					last := sibs[len(sibs)-1]
					emit("addelem("+short(pre)+"[],copy)", pre, ins(end, s[last.off:last.off+last.n]))
					if strings.HasSuffix(pre, "key") {
						unk := []byte{0x12, 0x34, 0x00, 0x04, 0xde, 0xad, 0xbe, 0xef}
						emit("addelem("+short(pre)+"[],unassigned-type)", pre+" (front)", ins(sibs[0].off, unk))
						emit("addelem("+short(pre)+"[],unassigned-type)", pre+" (back)", ins(end, unk))
					}
					break
				}
			}
			if len(sibs) < 2 || !contiguous {
				continue
			}
			for _, i := range []int{0, len(sibs) - 2} {
				a, c := sibs[i], sibs[i+1]
				b := clone()
				copy(b[a.off:], s[c.off:c.off+c.n])
				copy(b[a.off+c.n:], s[a.off:a.off+a.n])
				if string(b) != string(s) {
					emit("swap("+short(pre)+"[])", fmt.Sprintf("%s[%d] <-> [%d]", pre, i, i+1), b)
				}
				if len(sibs) == 2 {
					break
				}
			}
			if len(sibs) >= 3 {
				b := clone()
				at := sibs[0].off
				for i := len(sibs) - 1; i >= 0; i-- {
					copy(b[at:], s[sibs[i].off:sibs[i].off+sibs[i].n])
					at += sibs[i].n
				}
				if string(b) != string(s) {
					emit("reverse("+short(pre)+"[])", pre, b)
				}
			}
		}
	}
	for _, r := range regs {
		if r.Len == 0 && !strings.HasSuffix(r.Name, "payload") {
			continue
		}
		if !keep(r.Name) {
			continue
		}
		leaf := isLeaf(r)
		cls := short(r.Name)
		if leaf && r.Len >= 1 && r.Len <= 4 {
			cur := refmodel.U(s[r.Off : r.Off+r.Len])
			max := uint64(1)<<(8*uint(r.Len)) - 1
			var menu []uint64
			switch r.Len {
			case 1:
				menu = []uint64{0, 1, 2, 3, 4, 5, 6, 15, 16, 17, 127, 128, 255, cur + 1, cur - 1}
			case 2:
				menu = []uint64{0, 1, 2, 3, 4, 5, 6, 7, 8, 9, 10, 11, 12, 20, 21, 255, 256, 65280, 65534, 65535, cur + 1, cur - 1, cur + 2, cur + 6, cur - 4}
			default:
				menu = []uint64{0, 1, 1<<31 - 1, 1 << 31, max, cur + 1, cur - 1}
			}
			if allCuts { // thorough tier: every value of one-byte fields, dense menus for two-byte fields
				if r.Len == 1 {
					for v := uint64(0); v < 256; v++ {
						menu = append(menu, v)
					}
				} else if r.Len == 2 {
					for v := uint64(0); v <= 300; v++ {
						menu = append(menu, v)
					}
					for k := uint(1); k < 16; k++ {
						menu = append(menu, 1<<k-1, 1<<k, 1<<k+1)
					}
				}
			}
			seen := map[uint64]bool{cur: true}
			for _, v := range menu {
				v &= max
				if seen[v] {
					continue
				}
				seen[v] = true
				b := clone()
				copy(b[r.Off:], refmodel.BE(v, r.Len))
				emit("set("+cls+")", fmt.Sprintf("%s: %d -> %d", r.Name, cur, v), b)
			}
		}
		if leaf && r.Len > 0 {
			b := clone()
			b[r.Off] ^= 0x01
			emit("flipfirst("+cls+")", r.Name, b)
			if r.Len > 1 {
				b = clone()
				b[r.Off+r.Len-1] ^= 0x80
				emit("fliplast("+cls+")", r.Name, b)
			}
			if r.Len > 4 {
				b = clone()
				for i := 0; i < r.Len; i++ {
					b[r.Off+i] = 0
				}
				emit("zero("+cls+")", r.Name, b)
				b = clone()
				for i := 0; i < r.Len; i++ {
					b[r.Off+i] = 0xff
				}
				emit("ones("+cls+")", r.Name, b)
			}
		}
		// insert / delete one byte at the region start
		{
			b := append(append(append([]byte(nil), s[:r.Off]...), 0xA7), s[r.Off:]...)
			emit("ins("+cls+")", r.Name, b)
			if r.Len > 0 {
				b = append(append([]byte(nil), s[:r.Off]...), s[r.Off+1:]...)
				emit("del("+cls+")", r.Name, b)
			}
		}
		// length-delimited regions
		var dataEnd = -1
		switch {
		case strings.HasSuffix(r.Name, ".size") || strings.HasSuffix(r.Name, ".len"):
			parent := r.Name[:strings.LastIndexByte(r.Name, '.')]
			if p, ok := refmodel.FindRegion(regs, parent); ok {
				dataEnd = p.Off + p.Len
			}
		case r.Name == "innerlen":
			if p, ok := refmodel.FindRegion(regs, "inner"); ok {
				dataEnd = p.Off + p.Len
			}
		}
		if dataEnd >= 0 && r.Len == 2 {
			cur := refmodel.U(s[r.Off : r.Off+2])
			for k := 1; k <= 6; k++ {
				if cur+uint64(k) > 65535 {
					break
				}
				junk := []byte{0x6a, 0x75, 0x6e, 0x6b, 0x21, 0x3b}[:k]
				b := append(append(append([]byte(nil), s[:dataEnd]...), junk...), s[dataEnd:]...)
				copy(b[r.Off:], refmodel.BE(cur+uint64(k), 2))
				emit(fmt.Sprintf("grow(%s,%d)", cls, k), r.Name, b)
			}
			// a byte that a "cleaning" parser might strip (NUL, blank, tab, newline, DEL) inserted at the start or the end
			// of a pair's key or value, with the string's length byte and the mapping's size adjusted: a different,
			// well-formed mapping
			if strings.HasSuffix(r.Name, ".size") && cur+1 <= 65535 {
				body := r.Off + 2
				type str struct{ lenAt, n int }
				var strs []str
				okWalk := true
				for p := body; p < dataEnd; {
					var pair [2]str
					for h := 0; h < 2 && okWalk; h++ {
						if p >= dataEnd {
							okWalk = false
							break
						}
						n := int(s[p])
						if p+1+n+1 > dataEnd {
							okWalk = false
							break
						}
						pair[h] = str{p, n}
						p += 1 + n + 1 // length byte, content, '=' or ';'
					}
					if !okWalk {
						break
					}
					strs = append(strs, pair[0], pair[1])
				}
				if okWalk && len(strs) > 0 {
					pick := map[int]bool{0: true, 1: true, len(strs) - 1: true, len(strs) - 2: true}
					for si, st := range strs {
						if !pick[si] || st.n >= 255 {
							continue
						}
						what := "key"
						if si%2 == 1 {
							what = "value"
						}
						for _, pad := range []byte{0x00, ' ', '\t', '\n', 0x7f} {
							for _, atEnd := range []bool{true, false} {
								at := st.lenAt + 1
								if atEnd {
									at += st.n
								}
								b := append(append(append([]byte(nil), s[:at]...), pad), s[at:]...)
								b[st.lenAt]++
								copy(b[r.Off:], refmodel.BE(cur+1, 2))
								emit(fmt.Sprintf("pad%s(%s,%02x,end=%v)", what, cls, pad, atEnd), r.Name, b)
							}
						}
					}
				}
			}
			// a well-formed extra pair smuggled into a mapping
			if strings.HasSuffix(r.Name, ".size") && cur+6 <= 65535 {
				pair := []byte{1, 'z', '=', 1, 'z', ';'}
				b := append(append(append([]byte(nil), s[:dataEnd]...), pair...), s[dataEnd:]...)
				copy(b[r.Off:], refmodel.BE(cur+6, 2))
				emit("addpair("+cls+")", r.Name, b)
				if cur >= 6 { // duplicate of nothing in particular: break the last delimiter
					b = clone()
					b[dataEnd-1] = '!'
					emit("breakdelim("+cls+")", r.Name, b)
				}
			}
		}
	}
	// truncations
	cuts := map[int]bool{}
	if allCuts {
		for k := 0; k < len(s); k++ {
			cuts[k] = true
		}
	} else {
		for _, r := range regs {
			if !keep(r.Name) {
				continue
			}
			ks := []int{r.Off - 1, r.Off, r.Off + 1, r.Off + r.Len - 1}
			if strings.Contains(r.Name, "pair[") && r.Len >= 4 {
				// inside a mapping pair: before '=', after '=', after the value's length byte
				kl := int(s[r.Off])
				if 1+kl+2 < r.Len {
					ks = append(ks, r.Off+1+kl, r.Off+1+kl+1, r.Off+1+kl+2)
				}
			}
			for _, k := range ks {
				if k >= 0 && k < len(s) {
					cuts[k] = true
				}
			}
		}
		for _, k := range []int{0, 1, 2, 3, len(s) - 1, len(s) - 2} {
			if k >= 0 && k < len(s) {
				cuts[k] = true
			}
		}
	}
	for k := 0; k < len(s); k++ {
		if cuts[k] {
			emit("cut", fmt.Sprintf("cut at %d of %d (%s)", k, len(s), RegionAt(regs, k)), s[:k:k])
		}
	}
	emit("append(00)", "", append(clone(), 0))
	emit("append(ff)", "", append(clone(), 0xff))
	emit("append(ffx7)", "", append(clone(), 0xff, 0xff, 0xff, 0xff, 0xff, 0xff, 0xff))
	emit("append(self)", "", append(clone(), s...))
}

// RegionAt names the innermost region containing offset k.
func RegionAt(regs []refmodel.Region, k int) string {
	best := ""
	bestLen := 1 << 30
	for _, r := range regs {
		if k >= r.Off && k < r.Off+r.Len && r.Len < bestLen {
			best, bestLen = r.Name, r.Len
		}
	}
	if best == "" {
		return "end"
	}
	return best
}

// ClassOf strips indices from a region name (addr[3].cost -> addr[].cost).
func ClassOf(name string) string {
	var sb strings.Builder
	skip := false
	for i := 0; i < len(name); i++ {
		switch {
		case name[i] == '[':
			sb.WriteByte('[')
			skip = true
		case name[i] == ']':
			sb.WriteByte(']')
			skip = false
		case !skip:
			sb.WriteByte(name[i])
		}
	}
	return sb.String()
}

type idx struct {
	prefix string
	n      int
}

// indices extracts every "[n]" of a region name together with the text before it.
func indices(name string) []idx {
	var out []idx
	for i := 0; i < len(name); i++ {
		if name[i] != '[' {
			continue
		}
		j := i + 1
		n := 0
		for j < len(name) && name[j] >= '0' && name[j] <= '9' {
			n = n*10 + int(name[j]-'0')
			j++
		}
		if j < len(name) && name[j] == ']' && j > i+1 {
			out = append(out, idx{name[:i], n})
		}
	}
	return out
}
