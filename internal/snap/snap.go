// Package snap: E6 — canonical deep snapshot of a Go value graph (reflect + unsafe): follows
// pointers, interfaces, maps (sorted by key rendering), slices (to len, or to cap when
// WithCap is set: an append into spare capacity of a shared slice is a write worth seeing),
// unexported fields included. Produces a canonical byte string; Hash gives its SHA-256.
package snap

import (
	"bytes"
	"crypto/sha256"
	"encoding/binary"
	"fmt"
	"reflect"
	"sort"
	"unsafe"
)

type Options struct {
	WithCap   bool                  // include slice elements between len and cap
	SkipTypes map[reflect.Type]bool // values of these types are rendered as "<skipped>"
	SkipNames map[string]bool       // struct fields with these names are skipped
	SkipPkgs  map[string]bool       // named types declared in these packages are rendered as "<skipped>" (e.g. "sync": runtime-managed, internally synchronised state whose bits change with GC and scheduling)
}

type walker struct {
	o    Options
	buf  bytes.Buffer
	seen map[uintptr]int
}

// Bytes renders v canonically.
func Bytes(v any, o Options) []byte {
	w := &walker{o: o, seen: map[uintptr]int{}}
	w.walk(reflect.ValueOf(v), 0)
	return w.buf.Bytes()
}

// Hash is SHA-256 of Bytes.
func Hash(v any, o Options) [32]byte { return sha256.Sum256(Bytes(v, o)) }

func (w *walker) tag(s string) { w.buf.WriteString(s) }

func (w *walker) u64(x uint64) {
	var b [8]byte
	binary.BigEndian.PutUint64(b[:], x)
	w.buf.Write(b[:])
}

// access makes an unexported field readable.
func access(v reflect.Value) reflect.Value {
	if v.CanInterface() || !v.CanAddr() {
		return v
	}
	return reflect.NewAt(v.Type(), unsafe.Pointer(v.UnsafeAddr())).Elem()
}

func (w *walker) walk(v reflect.Value, depth int) {
	if !v.IsValid() {
		w.tag("<invalid>")
		return
	}
	if depth > 64 {
		w.tag("<deep>")
		return
	}
	if w.o.SkipTypes[v.Type()] || (len(w.o.SkipPkgs) > 0 && v.Type().PkgPath() != "" && w.o.SkipPkgs[v.Type().PkgPath()]) {
		w.tag("<skipped " + v.Type().String() + ">")
		return
	}
	switch v.Kind() {
	case reflect.Bool:
		if v.Bool() {
			w.tag("T")
		} else {
			w.tag("F")
		}
	case reflect.Int, reflect.Int8, reflect.Int16, reflect.Int32, reflect.Int64:
		w.tag("i")
		w.u64(uint64(v.Int()))
	case reflect.Uint, reflect.Uint8, reflect.Uint16, reflect.Uint32, reflect.Uint64, reflect.Uintptr:
		w.tag("u")
		w.u64(v.Uint())
	case reflect.Float32, reflect.Float64:
		w.tag("f")
		w.u64(uint64(int64(v.Float() * 1e6)))
	case reflect.String:
		w.tag("s")
		w.u64(uint64(v.Len()))
		w.tag(v.String())
	case reflect.Ptr:
		if v.IsNil() {
			w.tag("nil*")
			return
		}
		p := v.Pointer()
		if n, ok := w.seen[p]; ok && v.Elem().Kind() == reflect.Struct {
			w.tag(fmt.Sprintf("<ref%d>", n))
			return
		}
		w.seen[p] = len(w.seen)
		w.tag("*")
		w.walk(v.Elem(), depth+1)
	case reflect.Interface:
		if v.IsNil() {
			w.tag("nilI")
			return
		}
		w.tag("I(" + v.Elem().Type().String() + ")")
		e := v.Elem()
		if e.Kind() != reflect.Ptr && e.Kind() != reflect.Slice && e.Kind() != reflect.Map {
			// copy into addressable storage so unexported fields can be reached
			c := reflect.New(e.Type()).Elem()
			c.Set(e)
			e = c
		}
		w.walk(e, depth+1)
	case reflect.Slice:
		if v.IsNil() {
			w.tag("nil[]")
			return
		}
		n := v.Len()
		w.tag("[")
		w.u64(uint64(n))
		if w.o.WithCap {
			w.u64(uint64(v.Cap()))
		}
		if v.Type().Elem().Kind() == reflect.Uint8 {
			m := n
			if w.o.WithCap {
				m = v.Cap()
			}
			if m > 0 {
				b := unsafe.Slice((*byte)(unsafe.Pointer(v.Pointer())), m)
				w.buf.Write(b)
			}
		} else {
			m := n
			full := v
			if w.o.WithCap && v.Cap() > n {
				full = v.Slice(0, v.Cap())
				m = v.Cap()
			}
			for i := 0; i < m; i++ {
				w.walk(access(full.Index(i)), depth+1)
			}
		}
		w.tag("]")
	case reflect.Array:
		w.tag("A")
		if v.Type().Elem().Kind() == reflect.Uint8 && v.CanAddr() {
			b := unsafe.Slice((*byte)(unsafe.Pointer(v.UnsafeAddr())), v.Len())
			w.buf.Write(b)
			return
		}
		for i := 0; i < v.Len(); i++ {
			w.walk(access(v.Index(i)), depth+1)
		}
	case reflect.Map:
		if v.IsNil() {
			w.tag("nilM")
			return
		}
		// keys are rendered first (in isolation) and sorted, then the values are walked in key
		// order with the main walker, so that reference numbering does not depend on Go's
		// randomised map iteration order
		type kv struct {
			k []byte
			v reflect.Value
		}
		var items []kv
		it := v.MapRange()
		for it.Next() {
			kw := &walker{o: w.o, seen: map[uintptr]int{}}
			kw.walk(it.Key(), depth+1)
			val := it.Value()
			if val.Kind() == reflect.Struct || val.Kind() == reflect.Array {
				c := reflect.New(val.Type()).Elem()
				c.Set(val)
				val = c
			}
			items = append(items, kv{append([]byte(nil), kw.buf.Bytes()...), val})
		}
		sort.Slice(items, func(i, j int) bool { return bytes.Compare(items[i].k, items[j].k) < 0 })
		w.tag("M")
		w.u64(uint64(len(items)))
		for _, it := range items {
			w.buf.Write(it.k)
			w.tag("=>")
			w.walk(it.v, depth+1)
		}
	case reflect.Struct:
		w.tag("{" + v.Type().String())
		if !v.CanAddr() {
			c := reflect.New(v.Type()).Elem()
			c.Set(v)
			v = c
		}
		for i := 0; i < v.NumField(); i++ {
			name := v.Type().Field(i).Name
			if w.o.SkipNames[name] {
				continue
			}
			w.tag("." + name + ":")
			w.walk(access(v.Field(i)), depth+1)
		}
		w.tag("}")
	case reflect.Func, reflect.Chan, reflect.UnsafePointer:
		w.tag("<" + v.Kind().String() + ">")
	default:
		w.tag("<?" + v.Kind().String() + ">")
	}
}
