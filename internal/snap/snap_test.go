package snap

import (
	"testing"

	"github.com/go-i2p/common/lease_set2"
	"github.com/go-i2p/common/router_info"
)

type inner struct {
	b []byte
	m map[string][]byte
	i interface{}
}

func TestSnapSeesUnexportedAndCap(t *testing.T) {
	back := make([]byte, 4, 8)
	v := &inner{b: back, m: map[string][]byte{"k": {1, 2}}, i: inner{b: []byte{9}}}
	h1 := Hash(v, Options{WithCap: true})
	back[:8][6] = 7 // write into spare capacity
	h2 := Hash(v, Options{WithCap: true})
	if h1 == h2 {
		t.Fatal("write into spare capacity not observed")
	}
	h3 := Hash(v, Options{})
	back[1] = 5
	if Hash(v, Options{}) == h3 {
		t.Fatal("write into slice not observed")
	}
	v.m["k"][0] = 3
	h4 := Hash(v, Options{})
	v.i = inner{b: []byte{8}}
	if Hash(v, Options{}) == h4 {
		t.Fatal("interface content not observed")
	}
}

func TestSnapLibraryValues(t *testing.T) {
	var ri router_info.RouterInfo
	var ls lease_set2.LeaseSet2
	_ = Bytes(&ri, Options{WithCap: true})
	_ = Bytes(ls, Options{})
}

func TestScribble(t *testing.T) {
	type inner struct {
		Pub  []byte
		priv []byte
		Zone string
	}
	in := &inner{Pub: []byte{1, 2}, priv: []byte{3}, Zone: "z"}
	m := map[string]string{"a": "b"}
	n := Scribble([]any{in, m, [][]byte{{9}}})
	if in.Pub[0] == 1 || in.priv[0] != 3 || in.Zone == "z" || m["a"] == "b" || n == 0 {
		t.Fatalf("scribble: %+v %v %d", in, m, n)
	}
}
