package snap

import (
	"reflect"
	"unsafe"
)

// (Bytes are overwritten with a fixed pattern, not XOR-ed: two results that alias the same memory are visited
// twice, and a second XOR would restore them.)
//
// Scribble overwrites everything a *caller* can legitimately write through a value it was handed:
// the elements of byte slices and byte arrays, map entries, and whatever is reachable from there
// through pointers, interfaces, slices, maps and EXPORTED struct fields (unexported fields are
// beyond a caller's reach and are left alone; strings are immutable). It models "the caller does
// what it likes with its result" in result-independence histories: a later, independent call must
// not be affected. Returns the number of bytes / entries overwritten.
func Scribble(v any) int {
	s := &scribbler{seen: map[uintptr]bool{}}
	s.walk(reflect.ValueOf(v), 0)
	return s.n
}

// ScribbleValues is Scribble over reflect.Values (results of a reflective call).
func ScribbleValues(vs []reflect.Value) int {
	s := &scribbler{seen: map[uintptr]bool{}}
	for _, v := range vs {
		s.walk(v, 0)
	}
	return s.n
}

type scribbler struct {
	seen map[uintptr]bool
	n    int
}

func (s *scribbler) walk(v reflect.Value, depth int) {
	if !v.IsValid() || depth > 32 {
		return
	}
	switch v.Kind() {
	case reflect.Ptr:
		if v.IsNil() || s.seen[v.Pointer()] {
			return
		}
		s.seen[v.Pointer()] = true
		s.walk(v.Elem(), depth+1)
	case reflect.Interface:
		if !v.IsNil() {
			s.walk(v.Elem(), depth+1)
		}
	case reflect.Slice:
		if v.IsNil() || v.Len() == 0 {
			return
		}
		if v.Type().Elem().Kind() == reflect.Uint8 {
			b := unsafe.Slice((*byte)(unsafe.Pointer(v.Pointer())), v.Len())
			for i := range b {
				b[i] = 0xA5
			}
			s.n += len(b)
			return
		}
		for i := 0; i < v.Len(); i++ {
			s.walk(v.Index(i), depth+1)
		}
		// a caller may also assign whole elements of a slice it was handed
		if k := v.Type().Elem().Kind(); k == reflect.Struct || k == reflect.Ptr || k == reflect.Interface {
			for i := 0; i < v.Len(); i++ {
				if e := v.Index(i); e.CanSet() {
					e.Set(reflect.Zero(e.Type()))
					s.n++
				}
			}
		}
	case reflect.Array:
		if v.Type().Elem().Kind() == reflect.Uint8 && v.CanAddr() {
			b := unsafe.Slice((*byte)(unsafe.Pointer(v.UnsafeAddr())), v.Len())
			for i := range b {
				b[i] = 0xA5
			}
			s.n += len(b)
			return
		}
		for i := 0; i < v.Len(); i++ {
			s.walk(v.Index(i), depth+1)
		}
	case reflect.Map:
		if v.IsNil() {
			return
		}
		for _, k := range v.MapKeys() {
			e := v.MapIndex(k)
			s.walk(e, depth+1)
			if e.Kind() == reflect.String && v.Type().Elem().Kind() == reflect.String && k.CanInterface() {
				func() {
					defer func() { recover() }()
					v.SetMapIndex(k, reflect.ValueOf("scribbled:"+e.String()).Convert(v.Type().Elem()))
					s.n++
				}()
			}
		}
	case reflect.Struct:
		t := v.Type()
		for i := 0; i < v.NumField(); i++ {
			if t.Field(i).PkgPath != "" { // unexported
				continue
			}
			f := v.Field(i)
			if f.Kind() == reflect.String && f.CanSet() {
				f.SetString("scribbled:" + f.String())
				s.n++
				continue
			}
			s.walk(f, depth+1)
		}
	}
}
