package checks

import (
	"verif/internal/core"
	"verif/internal/refmodel"
)

// byteWalk: E3 — all byte strings over a reduced alphabet up to length L, in length-lexicographic
// order per shard, for the small parsers whose whole grammar fits in a few bytes.
//
//	Mapping:     body over {00,01,02,05,'=',';','a',ff}, L<=6 (thorough 7), each with the size
//	             prefix variants {exact, -1, +1, +2, 0, ffff}
//	Certificate: {00,01,02,03,04,05,ff}, L<=6 (thorough 7)
//	I2PString:   {00,01,02,'a',ff}, L<=5 (thorough 6)
func byteWalk(r *core.Run, depthDelta int, visit func(worker int, family string, b []byte)) {
	type spec struct {
		fam   string
		alpha []byte
		L     int
		wrap  func(body []byte, emit func([]byte))
	}
	plain := func(body []byte, emit func([]byte)) { emit(body) }
	mapWrap := func(body []byte, emit func([]byte)) {
		n := len(body)
		for _, sz := range []int{n, n - 1, n + 1, n + 2, 0, 0xffff} {
			if sz < 0 {
				continue
			}
			emit(append(refmodel.BE(uint64(sz), 2), body...))
		}
	}
	d := depthDelta
	if !r.Quick() {
		d++
	}
	specs := []spec{
		{"Mapping", []byte{0x00, 0x01, 0x02, 0x05, '=', ';', 'a', 0xff}, 6 + d, mapWrap},
		{"Certificate", []byte{0x00, 0x01, 0x02, 0x03, 0x04, 0x05, 0xff}, 6 + d, plain},
		{"I2PString", []byte{0x00, 0x01, 0x02, 'a', 0xff}, 5 + d, plain},
	}
	for _, s := range specs {
		s := s
		k := len(s.alpha)
		// shard on the first two symbols
		visit(0, s.fam, nil)
		s.wrap(nil, func(b []byte) { visit(0, s.fam, b) })
		var count int64
		core.ParallelFor(k*k, func(worker, shard int) {
			if r.Expired() {
				return
			}
			a, b := s.alpha[shard/k], s.alpha[shard%k]
			n := int64(0)
			if shard%k == 0 { // length-1 strings once per first symbol
				s.wrap([]byte{a}, func(x []byte) { visit(worker, s.fam, x); n++ })
			}
			var rec func(prefix []byte)
			rec = func(prefix []byte) {
				s.wrap(prefix, func(x []byte) { visit(worker, s.fam, x); n++ })
				if len(prefix) >= s.L {
					return
				}
				for _, c := range s.alpha {
					rec(append(prefix[:len(prefix):len(prefix)], c))
				}
			}
			rec([]byte{a, b})
			r.AddNote("bytewalk_strings_"+s.fam, n)
		})
		_ = count
	}
}
