//go:build !vinstr

package checks

import "verif/internal/core"

// allGlobals is only available in the instrumented build.
func allGlobals() map[string]any { return nil }

const instrumented = false

func c18Explore(i, n int, tier string) c18Result { return c18Result{} }

func c18Replay(r *core.Run, c core.Case) {}

func C18Debug() {}

func stepCount() int64 { return 0 }
