package checks

import (
	"bytes"
	crand "crypto/rand"
	"crypto/sha256"
	"encoding/binary"
	"errors"
	"fmt"
	"math/big"
	"sync"
	"time"

	"filippo.io/edwards25519"

	"verif/internal/adapt"
	"verif/internal/choose"
	"verif/internal/core"
	"verif/internal/gen"
	"verif/internal/refmodel"

	"github.com/go-i2p/common/destination"
	"github.com/go-i2p/common/encrypted_leaseset"
	"github.com/go-i2p/common/lease_set2"
	"github.com/go-i2p/crypto/kdf"
	"go.step.sm/crypto/x25519"
)

func init() { register("C16", runC16, replayC16) }

// detReader: counter-keyed deterministic stream installed as crypto/rand.Reader, so that the
// ephemeral key and nonce of EncryptInnerLeaseSet2 are a function of the case being explored.
type detReader struct {
	mu   sync.Mutex
	seed uint64
	ctr  uint64
}

func (d *detReader) Read(p []byte) (int, error) {
	d.mu.Lock()
	defer d.mu.Unlock()
	for i := 0; i < len(p); {
		var in [16]byte
		binary.BigEndian.PutUint64(in[:8], d.seed)
		binary.BigEndian.PutUint64(in[8:], d.ctr)
		d.ctr++
		h := sha256.Sum256(in[:])
		i += copy(p[i:], h[:])
	}
	return len(p), nil
}

func (d *detReader) reset(seed uint64) { d.mu.Lock(); d.seed, d.ctr = seed, 0; d.mu.Unlock() }

type c16Cipher struct {
	desc   string
	plain  []byte
	ct     []byte
	cookie [32]byte
	priv   x25519.PrivateKey
	seed   uint64
}

func c16ELS(ct []byte) (*encrypted_leaseset.EncryptedLeaseSet, error) {
	e := refmodel.EncryptedLeaseSet{SigType: 11, Blinded: gen.Key(11, 77).Pub, Published: gen.Published, Expires: 600, Inner: ct, Sig: make([]byte, 64)}
	v, _, err := encrypted_leaseset.ReadEncryptedLeaseSet(e.Bytes())
	if err != nil {
		return nil, err
	}
	return &v, nil
}

// c16Decrypt returns (value bytes or nil, error text).
func c16Decrypt(ct []byte, cookie []byte, priv interface{}) ([]byte, bool, string) {
	els, err := c16ELS(ct)
	if err != nil {
		return nil, false, "els: " + err.Error()
	}
	v, err := els.DecryptInnerData(cookie, priv)
	if err != nil {
		if v != nil {
			return nil, true, "error AND a value"
		}
		return nil, false, err.Error()
	}
	if v == nil {
		return nil, false, "nil value without error"
	}
	b, berr := v.Bytes()
	if berr != nil {
		return nil, true, "value does not serialise"
	}
	return b, true, ""
}

func c16Tamper(r *core.Run, c c16Cipher, allValues bool) {
	n := len(c.ct)
	core.ParallelFor(n, func(worker, i int) {
		vals := []byte{1, 2, 4, 8, 16, 32, 64, 128}
		for k := 0; k < 255; k++ {
			var x byte
			if allValues {
				x = byte(k + 1)
			} else if k < len(vals) {
				x = vals[k]
			} else {
				break
			}
			mod := append([]byte(nil), c.ct...)
			mod[i] ^= x
			r.Evaluations.Add(1)
			r.Begin(worker, func() string { return fmt.Sprintf("DecryptInnerData byte %d ^ %02x", i, x) })
			out, gotValue, _ := c16Decrypt(mod, c.cookie[:], c.priv)
			r.End(worker)
			if gotValue {
				region := "ciphertext"
				switch {
				case i < 32:
					region = "ephemeral-key"
				case i < 44:
					region = "nonce"
				case i >= n-16:
					region = "tag"
				}
				id := fmt.Sprintf("C16|tampered-ciphertext-decrypts|%s", region)
				if i == 31 && x == 0x80 {
					id = "C16|tampered-ciphertext-decrypts|ephemeral-key[byte31-bit7]"
				}
				r.Violate(id, fmt.Sprintf("ciphertext byte %d (%s) xor %02x still decrypts to a value (equal to the plaintext: %v) (%s)", i, region, x, bytes.Equal(out, c.plain), c.desc),
					core.Case{Kind: "tamper", Args: map[string]string{"ct": core.HexFull(c.ct), "pos": fmt.Sprint(i), "xor": fmt.Sprint(x), "priv": core.HexFull(c.priv), "cookie": core.HexFull(c.cookie[:])}})
			}
		}
	})
}

func runC16(r *core.Run) {
	r.Rule = "E1: LeaseSet2 values of the generator within 1 variation x 2 recipient key pairs x 2 cookies under a deterministic crypto/rand.Reader; for each of the selected ciphertexts EVERY byte position x the 8 single-bit flips (thorough: all ciphertexts below 1500 bytes, all 255 other values for the first 24 of them); wrong private keys; truncated / extended ciphertexts. Blinding: destination types 7 and 11, KEY certificates with and without extra payload x 6 secrets (32, 64, 65 and 128 bytes; two differing only in the last of 128 bytes) x 3 instants around UTC midnight each expressed in 4 time zones x alphas {derived, of the next day, zero, another secret's, derived with one bit changed}. Oracles: decrypt(encrypt(x)) serialises to x's bytes; any modification or wrong key => error and nil value; blinded key == A + alpha*B computed with filippo.io/edwards25519; equal across zones for the same UTC day, different across days; VerifyBlindedSignature true exactly for the derived factor (also false for all 256 factors one bit away and for alpha + k*L). Sequences: every sequence of <= 3 (thorough 4) operations over {encrypt(3 plaintexts x 2 recipients), decrypt(oldest)} without copying returned ciphertexts; after every step every earlier ciphertext is unchanged and decrypts to its own plaintext; every sequence of <= 4 (thorough 5) operations {decrypt right / wrong / []byte key, Bytes, Verify} on ONE EncryptedLeaseSet value with the verdicts and the serialisation re-checked after every step. non-trivial = distinct (ciphertext, position, value) tamperings that were rejected, round trips, and blinding tuples evaluated"
	r.Assume("alpha derivation (HKDF) is go-i2p/crypto's kdf.DeriveBlindingFactor (third party, trusted); the blinded point itself is recomputed independently")
	det := &detReader{}
	crand.Reader = det
	// ---- encryption round trips
	var mu sync.Mutex
	var ciphers []c16Cipher
	st, capped := choose.Explore(1, 1, r.Expired, func(c *choose.Ctx) {
		s := gen.LeaseSet2(c)
		if s.Value.(refmodel.LeaseSet2).Dest.SigType == 1 || s.Value.(refmodel.LeaseSet2).Dest.SigType == 2 {
			// P-256/P-384 destinations parse fine; keep them
		}
		ls, rem, err := lease_set2.ReadLeaseSet2(s.Bytes)
		if err != nil || len(rem) != 0 {
			// the parser refuses this encoding (too small for LEASESET2_MIN_SIZE - a known C02 finding - or, in a
			// changed tree, a new guard): a LeaseSet2 VALUE with the same fields can still come from the signing
			// constructor, and "encrypting any LeaseSet2 ... and decrypting ... returns identical bytes" speaks
			// about values, whichever way they were obtained
			built, berr := adapt.LeaseSet2(s.Value.(refmodel.LeaseSet2), s.Signer)
			var am adapt.ErrArgumentMutated
			if built == nil || (berr != nil && !errors.As(berr, &am)) {
				return
			}
			bb, e2 := built.Bytes()
			if e2 != nil || len(bb) < 499 {
				return // (MIN_SIZE: the decrypting side parses the plaintext and refuses it - the known finding again)
			}
			ls, s.Bytes = *built, bb
		}
		for kp := uint64(1); kp <= 2; kp++ {
			pub, priv := adapt.X25519Pair(kp)
			for ck := 0; ck < 2; ck++ {
				var cookie [32]byte
				if ck == 1 {
					copy(cookie[:], refmodel.Fill("cookie", 1, 32))
				}
				seed := uint64(len(ciphers))*4 + kp*2 + uint64(ck)
				det.reset(seed)
				r.Evaluations.Add(1)
				var ct []byte
				var err error
				if kp == 1 {
					ct, err = encrypted_leaseset.EncryptInnerLeaseSet2(&ls, cookie, pub)
				} else {
					ct, err = encrypted_leaseset.EncryptInnerLeaseSet2(&ls, cookie, []byte(pub))
				}
				cs := core.Case{Kind: "roundtrip", Args: map[string]string{"vector": fmt.Sprint(c.Vector()), "choices": c.Describe(), "keypair": fmt.Sprint(kp), "cookie": fmt.Sprint(ck)}}
				if err != nil {
					r.Violate("C16|encrypt-fails", fmt.Sprintf("EncryptInnerLeaseSet2 fails on a parsed LeaseSet2: %v (%s)", err, c.Describe()), cs)
					continue
				}
				if len(ct) > 65535 {
					continue
				}
				out, gotValue, why := c16Decrypt(ct, cookie[:], priv)
				r.Traces.Add(1)
				if !gotValue || !bytes.Equal(out, s.Bytes) {
					r.Violate("C16|roundtrip", fmt.Sprintf("decrypt(encrypt(x)) != x: value=%v %s (%s)", gotValue, why, c.Describe()), cs)
					continue
				}
				// layout: eph(32) | nonce(12) | ct | tag(16)
				if len(ct) != 32+12+len(s.Bytes)+16 {
					r.Violate("C16|layout", fmt.Sprintf("ciphertext length %d, expected %d", len(ct), 60+len(s.Bytes)), cs)
				}
				// the same ciphertext under other private-key representations
				for name, pk := range map[string]interface{}{"*PrivateKey": &priv, "[]byte": []byte(priv)} {
					if o2, ok, w := c16Decrypt(ct, cookie[:], pk); !ok || !bytes.Equal(o2, s.Bytes) {
						r.Violate("C16|roundtrip|private-key-form="+name, fmt.Sprintf("decryption with the matching private key given as %s fails: %s", name, w), cs)
					}
				}
				// wrong keys
				_, otherPriv := adapt.X25519Pair(kp + 10)
				flipped := append(x25519.PrivateKey(nil), priv...)
				flipped[1] ^= 1
				for name, wk := range map[string]x25519.PrivateKey{"other-pair": otherPriv, "scalar-bit-flipped": flipped} {
					r.Evaluations.Add(1)
					if _, ok, _ := c16Decrypt(ct, cookie[:], wk); ok {
						r.Violate("C16|wrong-key-decrypts|"+name, fmt.Sprintf("a different private key (%s) decrypts the ciphertext (%s)", name, c.Describe()), cs)
					}
				}
				// truncated / extended
				for _, m := range [][]byte{ct[:len(ct)-1], ct[:59], ct[:60], append(append([]byte(nil), ct...), 0)} {
					r.Evaluations.Add(1)
					if len(m) < 61 {
						continue
					}
					if _, ok, _ := c16Decrypt(m, cookie[:], priv); ok {
						r.Violate("C16|tampered-ciphertext-decrypts|length", fmt.Sprintf("ciphertext of length %d (original %d) decrypts", len(m), len(ct)), cs)
					}
				}
				r.Distinct([]byte("rt"), ct)
				mu.Lock()
				ciphers = append(ciphers, c16Cipher{c.Describe(), s.Bytes, ct, cookie, priv, seed})
				mu.Unlock()
			}
		}
	})
	r.States.Add(st.Points)
	r.Transitions.Add(st.Transitions)
	if capped {
		r.Capped.Store(true)
	}
	// tampering: quick = 6 smallest ciphertexts, one bit per flip; thorough = all ciphertexts below 1500 bytes, every value
	nt := 0
	for _, c := range ciphers {
		if r.Expired() {
			break
		}
		if r.Quick() && (nt >= 6 || len(c.ct) > 900) {
			continue
		}
		if !r.Quick() && len(c.ct) > 1500 {
			continue
		}
		nt++
		// thorough: all 255 other values at every position for the first 24 ciphertexts, the eight
		// single-bit flips for the remaining ones (keeps the tier inside its time budget)
		c16Tamper(r, c, !r.Quick() && nt <= 24)
		r.Distinct([]byte("tamper"), c.ct)
	}
	r.Note("ciphertexts_roundtripped", len(ciphers))
	r.Note("ciphertexts_tampered_at_every_position", nt)
	sd := 3
	if !r.Quick() {
		sd = 4
	}
	c16Sequences(r, det, sd)
	c16ELSHistory(r, det, sd+1)
	c16SizeBoundary(r, det)
	c16Blinding(r)
	c16SpecialPoints(r)
	r.Sample(map[string]any{"ciphertext": "eph(32)|nonce(12)|ct|tag(16)", "tamper": "every byte x 8 single-bit flips"})
	r.Sample(map[string]any{"blinding": "dest type 11, secret 32x00, instant D 23:59:59.999 UTC expressed in UTC-12", "alphas": "derived / next day / zero / other secret / one bit off"})
}

// blindRef computes A + alpha*B independently.
func blindRef(pub []byte, alpha [32]byte) ([]byte, bool) {
	A, err := new(edwards25519.Point).SetBytes(pub)
	if err != nil {
		return nil, false
	}
	a, err := new(edwards25519.Scalar).SetCanonicalBytes(alpha[:])
	if err != nil {
		return nil, false
	}
	P := new(edwards25519.Point).Add(A, new(edwards25519.Point).ScalarBaseMult(a))
	return P.Bytes(), true
}

// c16SizeBoundary: round trips at the upper end of what an EncryptedLeaseSet can carry. The inner length field is
// 16 bits and the layout adds 32 (ephemeral key) + 12 (nonce) + 16 (tag) bytes, so the largest LeaseSet2 that fits is
// 65,475 bytes; every plaintext length from 65,460 to 65,475 (and a few round numbers below) must encrypt, fit,
// and decrypt to identical bytes. The size is tuned with one key entry of an unassigned type.
func c16SizeBoundary(r *core.Run, det *detReader) {
	kp := gen.Key(7, 31)
	dest := refmodel.NewKAC(7, 4, false, nil, refmodel.Fill("c16sz.c", 1, 32), refmodel.Fill("c16sz.p", 1, 320), kp.Pub)
	mk := func(keyLen int) []byte {
		ls := refmodel.LeaseSet2{Dest: dest, Published: gen.Published, Expires: 600,
			Keys:   []refmodel.EncKey{{Type: 4, Data: refmodel.Fill("c16sz.k", 1, 32)}, {Type: 0x1234, Data: refmodel.Fill("c16sz.big", 1, keyLen)}},
			Leases: []refmodel.Lease2{{Hash: [32]byte{1}, TunnelID: 1, EndSec: gen.LeaseEndSec}}, Sig: make([]byte, 64)}
		return ls.Bytes()
	}
	base := len(mk(0))
	targets := []int{4096, 32768, 65000}
	for n := 65460; n <= 65475; n++ {
		targets = append(targets, n)
	}
	pub, priv := adapt.X25519Pair(1)
	for _, n := range targets {
		if n-base < 0 || n-base > 65535 {
			continue
		}
		plain := mk(n - base)
		ls, rem, err := lease_set2.ReadLeaseSet2(plain)
		cs := core.Case{Kind: "sizeboundary", Args: map[string]string{"plaintext_len": fmt.Sprint(n)}}
		if err != nil || len(rem) != 0 {
			r.AddNote("size_boundary_plaintexts_not_parsed", 1)
			continue
		}
		var cookie [32]byte
		det.reset(uint64(900000 + n))
		r.Evaluations.Add(1)
		ct, err := encrypted_leaseset.EncryptInnerLeaseSet2(&ls, cookie, pub)
		if err != nil {
			r.Violate("C16|encrypt-fails|size-boundary", fmt.Sprintf("EncryptInnerLeaseSet2 fails for a %d-byte LeaseSet2 (the ciphertext would be %d bytes, within the 65,535-byte inner field): %v", n, n+60, err), cs)
			continue
		}
		if len(ct) != n+60 {
			r.Violate("C16|layout|size-boundary", fmt.Sprintf("%d-byte plaintext: ciphertext length %d, expected %d", n, len(ct), n+60), cs)
		}
		out, got, why := c16Decrypt(ct, cookie[:], priv)
		r.Traces.Add(1)
		if !got || !bytes.Equal(out, plain) {
			r.Violate("C16|roundtrip|size-boundary", fmt.Sprintf("decrypt(encrypt(x)) != x for a %d-byte LeaseSet2: value=%v %s", n, got, why), cs)
		}
		r.Distinct([]byte("sizeboundary"), []byte(fmt.Sprint(n)))
	}
}

// c16SpecialPoints: destinations whose Ed25519 signing key is an unusual but decodable encoding: non-canonical y
// (y + p), x = 0 with the sign bit set, the neutral element, small-order points. Whatever CreateBlindedDestination
// accepts must behave like any other key: deterministic, A + alpha*B, and VerifyBlindedSignature true for the
// derived factor and false for another.
func c16SpecialPoints(r *core.Run) {
	le := func(hexLE string) []byte { return core.UnHex(hexLE) }
	pts := map[string][]byte{
		"neutral(y=1)":           le("0100000000000000000000000000000000000000000000000000000000000000"),
		"neutral,sign-bit-set":   le("0100000000000000000000000000000000000000000000000000000000000080"),
		"y=p+1(non-canonical 1)": le("eeffffffffffffffffffffffffffffffffffffffffffffffffffffffffffff7f"),
		"y=p(non-canonical 0)":   le("edffffffffffffffffffffffffffffffffffffffffffffffffffffffffffff7f"),
		"y=0(order 4)":           le("0000000000000000000000000000000000000000000000000000000000000000"),
		"y=-1(order 2)":          le("ecffffffffffffffffffffffffffffffffffffffffffffffffffffffffffff7f"),
		"all-ff":                 le("ffffffffffffffffffffffffffffffffffffffffffffffffffffffffffffffff"),
		"order-8":                le("c7176a703d4dd84fba3c0b760d10670f2a2053fa2c39ccc64ec7fd7792ac037a"),
		"canonical,high-y":       le("ebffffffffffffffffffffffffffffffffffffffffffffffffffffffffffff7f"),
	}
	secret := refmodel.Fill("secret", 1, 32)
	day := time.Date(2031, 3, 17, 12, 0, 0, 0, time.UTC)
	for _, st := range []int{7, 11} {
		for name, pub := range pts {
			r.Evaluations.Add(1)
			k := refmodel.NewKAC(st, 4, false, nil, refmodel.Fill("bc", 1, 32), refmodel.Fill("bp", 1, 320), pub)
			d, _, err := destination.ReadDestination(k.Bytes())
			if err != nil {
				continue
			}
			cs := core.Case{Kind: "blind", Args: map[string]string{"sigtype": fmt.Sprint(st), "point": name}}
			id := fmt.Sprintf("C16|blinding|sigtype=%d", st)
			var b1, b2 destination.Destination
			var e1, e2 error
			if pan, msg := core.Guard(func() {
				b1, e1 = encrypted_leaseset.CreateBlindedDestination(d, secret, day)
				b2, e2 = encrypted_leaseset.CreateBlindedDestination(d, secret, day.Add(3*time.Hour))
			}); pan {
				r.Violate(id+"|create-panics[unusual-key-encoding]", fmt.Sprintf("CreateBlindedDestination panics for the signing key %s: %s", name, msg), cs)
				continue
			}
			if e1 != nil || e2 != nil {
				r.AddNote("blinding_unusual_keys_refused", 1)
				continue
			}
			alpha, err := kdf.DeriveBlindingFactor(secret, "2031-03-17")
			if err != nil {
				continue
			}
			k1, _ := b1.SigningPublicKey()
			k2, _ := b2.SigningPublicKey()
			if k1 == nil || k2 == nil || !bytes.Equal(k1.Bytes(), k2.Bytes()) {
				r.Violate(id+"|differs-within-a-utc-day[unusual-key-encoding]", fmt.Sprintf("signing key %s: two instants of one UTC day give different blinded keys", name), cs)
				continue
			}
			if want, ok := blindRef(pub, alpha); ok && !bytes.Equal(k1.Bytes(), want) {
				r.Violate(id+"|blinded-key-differs-from-A+alpha*B[unusual-key-encoding]", fmt.Sprintf("signing key %s: blinded key %x, A + alpha*B = %x", name, k1.Bytes(), want), cs)
			}
			if !encrypted_leaseset.VerifyBlindedSignature(b1, d, alpha) {
				r.Violate(id+"|verify-false-for-derived-factor[unusual-key-encoding]", fmt.Sprintf("signing key %s: CreateBlindedDestination succeeds but VerifyBlindedSignature is false for the derived factor", name), cs)
			}
			other, _ := kdf.DeriveBlindingFactor(secret, "2031-03-18")
			if encrypted_leaseset.VerifyBlindedSignature(b1, d, other) {
				r.Violate(id+"|verify-true-for-wrong-factor|next-day[unusual-key-encoding]", fmt.Sprintf("signing key %s: VerifyBlindedSignature accepts the next day's factor", name), cs)
			}
			r.Traces.Add(1)
			r.Distinct([]byte("blind-special"), []byte{byte(st)}, []byte(name))
		}
	}
}

func c16Blinding(r *core.Run) {
	day := time.Date(2031, 3, 17, 0, 0, 0, 0, time.UTC)
	instants := []time.Time{day, day.Add(24*time.Hour - time.Millisecond), day.Add(24 * time.Hour)}
	zones := []*time.Location{time.UTC, time.FixedZone("UTC+14", 14*3600), time.FixedZone("UTC-12", -12*3600), time.FixedZone("+0530", 5*3600+1800)}
	long := refmodel.Fill("secret", 3, 128)
	long2 := append([]byte(nil), long...)
	long2[127] ^= 1 // differs from long only in its last byte
	secrets := [][]byte{make([]byte, 32), refmodel.Fill("secret", 1, 32), refmodel.Fill("secret", 2, 64), refmodel.Fill("secret", 4, 65), long, long2}
	type bdest struct {
		st    int
		extra []byte
	}
	// instants at the edges of what time.Time expresses as a four-digit calendar year, the zero instant, the
	// epoch and its neighbours, a leap day, the 32-bit rollover, and the wall clock: "deterministic function
	// of (destination, secret, UTC calendar day)" holds for each of them like for any other instant
	extreme := []time.Time{
		{}, time.Time{}.Add(time.Nanosecond), time.Time{}.In(time.FixedZone("UTC-12", -12*3600)),
		time.Unix(0, 0), time.Unix(-1, 0), time.Unix(1, 0).In(time.FixedZone("UTC+14", 14*3600)),
		time.Date(9999, 12, 31, 23, 59, 59, 999999999, time.UTC), time.Date(1, 1, 1, 23, 59, 59, 0, time.UTC),
		time.Date(2032, 2, 29, 12, 0, 0, 0, time.UTC), time.Unix(1<<31, 0), time.Unix(1<<32, 0), time.Now(),
	}
	for _, st := range []int{7, 11} {
		kp := gen.Key(st, 81)
		k := refmodel.NewKAC(st, 4, false, nil, refmodel.Fill("bc", 1, 32), refmodel.Fill("bp", 1, 320), kp.Pub)
		d, _, err := destination.ReadDestination(k.Bytes())
		if err != nil {
			continue
		}
		secret := secrets[1]
		for xi, inst := range extreme {
			r.Evaluations.Add(1)
			dateStr := inst.UTC().Format("2006-01-02")
			alpha, err := kdf.DeriveBlindingFactor(secret, dateStr)
			if err != nil {
				continue
			}
			want, _ := blindRef(kp.Pub, alpha)
			cs := core.Case{Kind: "blind", Args: map[string]string{"sigtype": fmt.Sprint(st), "instant": inst.Format(time.RFC3339Nano), "extreme": fmt.Sprint(xi)}}
			id := fmt.Sprintf("C16|blinding|sigtype=%d", st)
			var b1, b2 destination.Destination
			var e1, e2 error
			if pan, msg := core.Guard(func() {
				b1, e1 = encrypted_leaseset.CreateBlindedDestination(d, secret, inst)
				b2, e2 = encrypted_leaseset.CreateBlindedDestination(d, secret, inst.UTC().Truncate(24*time.Hour).Add(11*time.Hour))
			}); pan {
				r.Violate(id+"|create-panics[unusual-instant]", fmt.Sprintf("CreateBlindedDestination panics for the instant %s: %s", inst.Format(time.RFC3339Nano), msg), cs)
				continue
			}
			if e1 != nil || e2 != nil {
				r.AddNote("blinding_unusual_instants_refused", 1)
				continue
			}
			k1, _ := b1.SigningPublicKey()
			k2, _ := b2.SigningPublicKey()
			if k1 == nil || !bytes.Equal(k1.Bytes(), want) {
				r.Violate(id+"|blinded-key-differs-from-A+alpha*B[unusual-instant]", fmt.Sprintf("instant %s: blinded key is not A + alpha*B for its UTC day %s", inst.Format(time.RFC3339Nano), dateStr), cs)
			}
			if k1 == nil || k2 == nil || !bytes.Equal(k1.Bytes(), k2.Bytes()) {
				r.Violate(id+"|differs-within-a-utc-day[unusual-instant]", fmt.Sprintf("instant %s and 11:00 UTC of the same calendar day %s give different blinded keys", inst.Format(time.RFC3339Nano), dateStr), cs)
			}
			if !encrypted_leaseset.VerifyBlindedSignature(b1, d, alpha) {
				r.Violate(id+"|verify-false-for-derived-factor[unusual-instant]", fmt.Sprintf("VerifyBlindedSignature is false for the factor derived for the UTC day %s of the instant %s", dateStr, inst.Format(time.RFC3339Nano)), cs)
			}
			r.Distinct([]byte("blind-extreme"), []byte{byte(st), byte(xi)})
		}
	}
	for _, bd := range []bdest{{7, nil}, {11, nil}, {7, []byte{0xde, 0xad, 0xbe, 0xef, 0x01}}, {11, []byte{0x01}}} {
		st := bd.st
		kp := gen.Key(st, 81)
		k := refmodel.NewKAC(st, 4, false, bd.extra, refmodel.Fill("bc", 1, 32), refmodel.Fill("bp", 1, 320), kp.Pub)
		d, _, err := destination.ReadDestination(k.Bytes())
		if err != nil {
			r.Violate("C16|blinding|destination-does-not-parse", err.Error(), core.Case{Kind: "blind", Args: map[string]string{"sigtype": fmt.Sprint(st)}})
			continue
		}
		for si, secret := range secrets {
			var perDay [3][]byte
			for ii, inst := range instants {
				dateStr := inst.UTC().Format("2006-01-02")
				alpha, err := kdf.DeriveBlindingFactor(secret, dateStr)
				if err != nil {
					continue
				}
				want, _ := blindRef(kp.Pub, alpha)
				for zi, z := range zones {
					r.Evaluations.Add(1)
					cs := core.Case{Kind: "blind", Args: map[string]string{"sigtype": fmt.Sprint(st), "secret": fmt.Sprint(si), "instant": inst.Format(time.RFC3339Nano), "zone": z.String()}}
					id := fmt.Sprintf("C16|blinding|sigtype=%d", st)
					b, err := encrypted_leaseset.CreateBlindedDestination(d, secret, inst.In(z))
					if err != nil {
						r.Violate(id+"|create-fails", fmt.Sprintf("CreateBlindedDestination fails: %v", err), cs)
						continue
					}
					r.Traces.Add(1)
					bk, _ := b.SigningPublicKey()
					if bk == nil || !bytes.Equal(bk.Bytes(), want) {
						r.Violate(id+"|blinded-key-differs-from-A+alpha*B", fmt.Sprintf("instant %s in zone %s: blinded key is not A + alpha*B for the UTC day %s", inst.Format(time.RFC3339Nano), z, dateStr), cs)
					}
					if zi == 0 {
						perDay[ii] = append([]byte(nil), bk.Bytes()...)
					} else if !bytes.Equal(perDay[ii], bk.Bytes()) {
						r.Violate(id+"|depends-on-location", fmt.Sprintf("same instant %s gives a different blinded key in zone %s", inst.Format(time.RFC3339Nano), z), cs)
					}
					// unchanged parts
					pk0, _ := d.PublicKey()
					pk1, _ := b.PublicKey()
					c0, c1 := d.Certificate().Bytes(), b.Certificate().Bytes()
					if pk1 == nil || !bytes.Equal(pk0.Bytes(), pk1.Bytes()) || !bytes.Equal(d.Padding, b.Padding) || !bytes.Equal(c0, c1) {
						r.Violate(id+"|other-fields-changed", "blinding changed the encryption key, padding or certificate", cs)
					}
					// and on the wire: the blinded destination is the original with only the signing key replaced
					if bb, err := b.Bytes(); err == nil && bk != nil {
						wantB := append([]byte(nil), k.Bytes()...)
						copy(wantB[384-len(want):384], want)
						if !bytes.Equal(bb, wantB) {
							r.Violate(id+"|other-fields-changed[wire]", fmt.Sprintf("the blinded destination's bytes differ from the original's outside the signing key (certificate payload %d bytes)", len(k.Cert.Payload)), cs)
						}
					}
					if bytes.Equal(bk.Bytes(), kp.Pub) {
						r.Violate(id+"|signing-key-unchanged", "blinded signing key equals the original", cs)
					}
					// the library's own check: true for the derived factor, false for every other
					if !encrypted_leaseset.VerifyBlindedSignature(b, d, alpha) {
						r.Violate(id+"|verify-false-for-derived-factor", "VerifyBlindedSignature is false for the factor the blinding was derived with", cs)
					}
					nextAlpha, _ := kdf.DeriveBlindingFactor(secret, inst.UTC().Add(24*time.Hour).Format("2006-01-02"))
					otherAlpha, _ := kdf.DeriveBlindingFactor(refmodel.Fill("secret", 9, 32), dateStr)
					bit := alpha
					bit[0] ^= 1
					for name, a := range map[string][32]byte{"next-day": nextAlpha, "zero": {}, "other-secret": otherAlpha, "one-bit-off": bit} {
						r.Evaluations.Add(1)
						if encrypted_leaseset.VerifyBlindedSignature(b, d, a) {
							r.Violate(id+"|verify-true-for-wrong-factor|"+name, "VerifyBlindedSignature accepts a factor other than the derived one: "+name, cs)
						}
					}
					if zi == 0 {
						// every factor at Hamming distance 1 from the derived one (256 of them), and the
						// other 32-byte encodings of the same residue (alpha + k*L, as far as they fit)
						for bitN := 0; bitN < 256; bitN++ {
							a := alpha
							a[bitN/8] ^= 1 << (bitN % 8)
							r.Evaluations.Add(1)
							if encrypted_leaseset.VerifyBlindedSignature(b, d, a) {
								cl := "low-bits"
								if bitN >= 252 {
									cl = "bits-252..255"
								}
								r.Violate(id+"|verify-true-for-wrong-factor|one-bit-off["+cl+"]", fmt.Sprintf("VerifyBlindedSignature accepts the derived factor with bit %d flipped", bitN), cs)
							}
						}
						for k := 1; k <= 15; k++ {
							if a, ok := c16PlusKL(alpha, k); ok {
								r.Evaluations.Add(1)
								if encrypted_leaseset.VerifyBlindedSignature(b, d, a) {
									r.Violate(id+"|verify-true-for-wrong-factor|alpha+kL", fmt.Sprintf("VerifyBlindedSignature accepts the non-canonical factor alpha + %d*L", k), cs)
								}
							}
						}
					}
					r.Distinct([]byte("blind"), []byte{byte(st), byte(si), byte(ii), byte(zi), byte(len(bd.extra))})
				}
			}
			// same UTC day (instants 0 and 1) => same key; next day => different
			if perDay[0] != nil && perDay[1] != nil && perDay[2] != nil {
				if !bytes.Equal(perDay[0], perDay[1]) {
					r.Violate(fmt.Sprintf("C16|blinding|sigtype=%d|differs-within-a-utc-day", st), "00:00:00.000 and 23:59:59.999 of the same UTC day give different blinded keys", core.Case{Kind: "blind", Args: map[string]string{"sigtype": fmt.Sprint(st), "secret": fmt.Sprint(si)}})
				}
				if bytes.Equal(perDay[1], perDay[2]) {
					r.Violate(fmt.Sprintf("C16|blinding|sigtype=%d|same-across-days", st), "the blinded key does not change at UTC midnight", core.Case{Kind: "blind", Args: map[string]string{"sigtype": fmt.Sprint(st), "secret": fmt.Sprint(si)}})
				}
			}
		}
	}
}

// c16PlusKL returns the little-endian 32-byte encoding of alpha + k*L (L the group order), when it fits.
func c16PlusKL(alpha [32]byte, k int) ([32]byte, bool) {
	L, _ := new(big.Int).SetString("7237005577332262213973186563042994240857116359379907606001950938285454250989", 10)
	le := func(b [32]byte) *big.Int {
		var be [32]byte
		for i := range b {
			be[31-i] = b[i]
		}
		return new(big.Int).SetBytes(be[:])
	}
	v := new(big.Int).Add(le(alpha), new(big.Int).Mul(L, big.NewInt(int64(k))))
	if v.BitLen() > 256 {
		return [32]byte{}, false
	}
	be := v.FillBytes(make([]byte, 32))
	var out [32]byte
	for i := range be {
		out[31-i] = be[i]
	}
	return out, true
}

// c16Sequences: every sequence of up to depth encrypt/decrypt operations over a small alphabet
// (3 plaintexts of two different lengths x 2 recipients), on one goroutine, WITHOUT copying any
// ciphertext the library returned. After every step the invariant is evaluated on the whole
// history: each ciphertext handed out earlier is byte-identical to what it was when it was
// returned, and still decrypts to its own plaintext; each plaintext value handed out by a decrypt
// still serialises to the same bytes.
func c16Sequences(r *core.Run, det *detReader, depth int) {
	type plain struct {
		ls  *lease_set2.LeaseSet2
		raw []byte
	}
	var plains []plain
	choose.Explore(1, 1, nil, func(c *choose.Ctx) {
		if len(plains) >= 3 {
			return
		}
		s := gen.LeaseSet2(c)
		ls, rem, err := lease_set2.ReadLeaseSet2(s.Bytes)
		if err != nil || len(rem) != 0 || len(s.Bytes) > 1200 {
			return
		}
		// keep: the default, one of the same length, one of a different length
		switch len(plains) {
		case 1:
			if len(s.Bytes) != len(plains[0].raw) || bytes.Equal(s.Bytes, plains[0].raw) {
				return
			}
		case 2:
			if len(s.Bytes) == len(plains[0].raw) {
				return
			}
		}
		plains = append(plains, plain{&ls, s.Bytes})
	})
	if len(plains) < 3 {
		r.Note("sequence_alphabet_incomplete", len(plains))
	}
	type held struct {
		ct, ctCopy []byte
		p, kp      int
	}
	nops := len(plains)*2 + 1 // E(p, kp) ..., D(oldest held)
	var cookie [32]byte
	var rec func(seq []int)
	seqs := 0
	runSeq := func(seq []int) {
		det.reset(uint64(1000 + len(seq)))
		var hs []held
		cs := core.Case{Kind: "sequence", Args: map[string]string{"ops": fmt.Sprint(seq)}}
		for step, op := range seq {
			r.Transitions.Add(1)
			if op < nops-1 {
				p, kp := op/2, op%2
				pub, _ := adapt.X25519Pair(uint64(kp + 1))
				ct, err := encrypted_leaseset.EncryptInnerLeaseSet2(plains[p].ls, cookie, pub)
				if err != nil {
					r.Violate("C16|sequence|encrypt-fails", fmt.Sprintf("step %d of %v: %v", step, seq, err), cs)
					return
				}
				hs = append(hs, held{ct, append([]byte(nil), ct...), p, kp})
			} else if len(hs) > 0 {
				_, priv := adapt.X25519Pair(uint64(hs[0].kp + 1))
				c16Decrypt(hs[0].ct, cookie[:], priv)
			}
			// invariant over the whole history
			for hi, h := range hs {
				r.Evaluations.Add(1)
				if !bytes.Equal(h.ct, h.ctCopy) {
					r.Violate("C16|sequence|earlier-ciphertext-changed", fmt.Sprintf("after step %d of %v the ciphertext returned at encryption #%d is no longer the bytes that were returned", step, seq, hi), cs)
					return
				}
				_, priv := adapt.X25519Pair(uint64(h.kp + 1))
				out, ok, why := c16Decrypt(h.ct, cookie[:], priv)
				if !ok || !bytes.Equal(out, plains[h.p].raw) {
					r.Violate("C16|sequence|roundtrip", fmt.Sprintf("after step %d of %v ciphertext #%d does not decrypt to its plaintext (%s)", step, seq, hi, why), cs)
					return
				}
			}
		}
	}
	rec = func(seq []int) {
		if len(seq) > 0 {
			runSeq(seq)
			seqs++
			r.Traces.Add(1)
			r.States.Add(1)
		}
		if len(seq) == depth || len(plains) == 0 {
			return
		}
		for op := 0; op < nops; op++ {
			rec(append(append([]int(nil), seq...), op))
		}
	}
	rec(nil)
	r.Note("operation_sequences", seqs)
	r.Note("operation_sequence_depth", depth)
	r.Distinct([]byte("seq"), []byte{byte(depth), byte(nops)})
}

// c16ELSHistory: every sequence of up to depth operations on ONE EncryptedLeaseSet value over the
// alphabet {decrypt with the right key, decrypt with a wrong key, decrypt with the right key in
// []byte form, Bytes, Verify}. After every step: the right key yields the plaintext, the wrong key
// yields an error and no value, Bytes() equals the bytes the value was parsed from, Verify() gives
// what it gave on the fresh value, and the ciphertext accessor is unchanged.
func c16ELSHistory(r *core.Run, det *detReader, depth int) {
	var plainLS *lease_set2.LeaseSet2
	var plainRaw []byte
	choose.Explore(0, 1, nil, func(c *choose.Ctx) {
		s := gen.LeaseSet2(c)
		if ls, rem, err := lease_set2.ReadLeaseSet2(s.Bytes); err == nil && len(rem) == 0 {
			plainLS, plainRaw = &ls, s.Bytes
		}
	})
	if plainLS == nil {
		r.Note("els_history", "skipped: default LeaseSet2 does not parse")
		return
	}
	pub, priv := adapt.X25519Pair(1)
	_, wrong := adapt.X25519Pair(11)
	var cookie [32]byte
	det.reset(4242)
	ct, err := encrypted_leaseset.EncryptInnerLeaseSet2(plainLS, cookie, pub)
	if err != nil {
		r.Violate("C16|els-history|encrypt-fails", err.Error(), core.Case{Kind: "elshistory"})
		return
	}
	wire := refmodel.EncryptedLeaseSet{SigType: 11, Blinded: gen.Key(11, 77).Pub, Published: gen.Published, Expires: 600, Inner: ct, Sig: make([]byte, 64)}.Bytes()
	names := []string{"decrypt(right key)", "decrypt(wrong key)", "decrypt(right key as []byte)", "Bytes", "Verify"}
	var seqs int64
	var rec func(seq []int)
	rec = func(seq []int) {
		if len(seq) > 0 {
			seqs++
			els, _, err := encrypted_leaseset.ReadEncryptedLeaseSet(append([]byte(nil), wire...))
			if err != nil {
				r.Violate("C16|els-history|does-not-parse", err.Error(), core.Case{Kind: "elshistory"})
				return
			}
			v0 := fmt.Sprint(els.Verify() == nil)
			fail := func(step int, what string) {
				var sn []string
				for _, o := range seq {
					sn = append(sn, names[o])
				}
				r.Violate("C16|els-history|"+what, fmt.Sprintf("sequence %v on one EncryptedLeaseSet: at step %d %s", sn, step, what), core.Case{Kind: "elshistory", Args: map[string]string{"ops": fmt.Sprint(seq)}})
			}
			for step, op := range seq {
				r.Transitions.Add(1)
				switch op {
				case 0, 2:
					var k interface{} = priv
					if op == 2 {
						k = []byte(priv)
					}
					v, err := els.DecryptInnerData(cookie[:], k)
					if err != nil || v == nil {
						fail(step, "the-matching-key-no-longer-decrypts")
						return
					}
					if b, berr := v.Bytes(); berr != nil || !bytes.Equal(b, plainRaw) {
						fail(step, "decrypts-to-a-different-value")
						return
					}
				case 1:
					if v, err := els.DecryptInnerData(cookie[:], wrong); err == nil || v != nil {
						fail(step, "a-wrong-key-decrypts")
						return
					}
				case 3:
					// evaluated below for every step
				case 4:
					if fmt.Sprint(els.Verify() == nil) != v0 {
						fail(step, "verify-verdict-changed")
						return
					}
				}
				if b, berr := els.Bytes(); berr != nil || !bytes.Equal(b, wire) {
					fail(step, "serialisation-changed-after-an-operation")
					return
				}
			}
		}
		if len(seq) < depth {
			for o := range names {
				rec(append(append([]int(nil), seq...), o))
			}
		}
	}
	rec(nil)
	r.Traces.Add(seqs)
	r.States.Add(seqs)
	r.Evaluations.Add(seqs)
	r.Note("els_history_sequences", seqs)
	r.Distinct([]byte("elshistory"), []byte{byte(depth)})
}

func replayC16(r *core.Run, c core.Case) {
	switch c.Kind {
	case "tamper":
		ct := core.UnHex(c.Args["ct"])
		var pos, x int
		fmt.Sscan(c.Args["pos"], &pos)
		fmt.Sscan(c.Args["xor"], &x)
		mod := append([]byte(nil), ct...)
		mod[pos] ^= byte(x)
		if _, ok, _ := c16Decrypt(mod, core.UnHex(c.Args["cookie"]), x25519.PrivateKey(core.UnHex(c.Args["priv"]))); ok {
			id := "C16|tampered-ciphertext-decrypts|replayed"
			if pos == 31 && x == 0x80 {
				id = "C16|tampered-ciphertext-decrypts|ephemeral-key[byte31-bit7]"
			}
			r.Violate(id, fmt.Sprintf("byte %d xor %02x still decrypts", pos, x), c)
		}
	case "blind":
		c16Blinding(r)
		c16SpecialPoints(r)
	case "sizeboundary":
		det := &detReader{}
		crand.Reader = det
		c16SizeBoundary(r, det)
	case "elshistory":
		det := &detReader{}
		crand.Reader = det
		c16ELSHistory(r, det, 4)
	case "sequence":
		det := &detReader{}
		crand.Reader = det
		c16Sequences(r, det, 3)
	default:
		runC16(r)
	}
}
