package checks

import (
	"bytes"
	"errors"
	"fmt"
	"strings"

	"verif/internal/adapt"
	"verif/internal/choose"
	"verif/internal/core"
	"verif/internal/gen"
	"verif/internal/refmodel"

	"github.com/go-i2p/common/data"
	"github.com/go-i2p/common/destination"
	"github.com/go-i2p/common/encrypted_leaseset"
	"github.com/go-i2p/common/keys_and_cert"
	"github.com/go-i2p/common/lease"
	"github.com/go-i2p/common/lease_set"
	"github.com/go-i2p/common/lease_set2"
	"github.com/go-i2p/common/meta_leaseset"
	"github.com/go-i2p/common/offline_signature"
	"github.com/go-i2p/common/router_address"
	"github.com/go-i2p/common/router_identity"
	"github.com/go-i2p/common/router_info"
)

func init() { register("C02", runC02, replayC02) }

// c02Decode: model bytes -> library parser -> accessors == model fields. Returns the obs diff.
func c02Decode(fam string, s gen.Signed, aux int) (entry string, accepted bool, errText string, remLen int, diffs []string) {
	b := s.Bytes
	switch fam {
	case "KeysAndCert":
		k := s.Value.(refmodel.KeysAndCert)
		want := adapt.Obs{}
		adapt.ModelKAC("id", k, want)
		v, rem, err := keys_and_cert.ReadKeysAndCert(b)
		if err != nil {
			return "keys_and_cert.ReadKeysAndCert", false, err.Error(), 0, nil
		}
		got := adapt.Obs{}
		adapt.LibKAC("id", v, got)
		diffs = adapt.Diff(want, got)
		// the wrappers expose the same fields
		if d, rem2, err := destination.ReadDestination(b); err != nil {
			diffs = append(diffs, "destination.ReadDestination rejects: "+err.Error())
		} else {
			g2 := adapt.Obs{}
			adapt.LibKAC("id", d.KeysAndCert, g2)
			for _, x := range adapt.Diff(want, g2) {
				diffs = append(diffs, "via ReadDestination: "+x)
			}
			if len(rem2) != 0 {
				diffs = append(diffs, "ReadDestination leaves a remainder")
			}
		}
		if !refmodel.ProhibitedRISig(k.SigType) {
			if ri, rem3, err := router_identity.ReadRouterIdentity(b); err != nil {
				diffs = append(diffs, "router_identity.ReadRouterIdentity rejects: "+err.Error())
			} else {
				g3 := adapt.Obs{}
				adapt.LibKAC("id", ri.KeysAndCert, g3)
				for _, x := range adapt.Diff(want, g3) {
					diffs = append(diffs, "via ReadRouterIdentity: "+x)
				}
				if len(rem3) != 0 {
					diffs = append(diffs, "ReadRouterIdentity leaves a remainder")
				}
			}
		}
		return "keys_and_cert.ReadKeysAndCert", true, "", len(rem), diffs
	case "RouterInfo":
		v, rem, err := router_info.ReadRouterInfo(b)
		if err != nil {
			return "router_info.ReadRouterInfo", false, err.Error(), 0, nil
		}
		return "router_info.ReadRouterInfo", true, "", len(rem), adapt.Diff(adapt.ModelRouterInfo(s.Value.(refmodel.RouterInfo), true), adapt.LibRouterInfo(&v))
	case "LeaseSet":
		v, err := lease_set.ReadLeaseSet(b)
		if err != nil {
			return "lease_set.ReadLeaseSet", false, err.Error(), 0, nil
		}
		return "lease_set.ReadLeaseSet", true, "", 0, adapt.Diff(adapt.ModelLeaseSet(s.Value.(refmodel.LeaseSet), true), adapt.LibLeaseSet(&v))
	case "LeaseSet2":
		v, rem, err := lease_set2.ReadLeaseSet2(b)
		if err != nil {
			return "lease_set2.ReadLeaseSet2", false, err.Error(), 0, nil
		}
		return "lease_set2.ReadLeaseSet2", true, "", len(rem), adapt.Diff(adapt.ModelLeaseSet2(s.Value.(refmodel.LeaseSet2), true), adapt.LibLeaseSet2(&v))
	case "MetaLeaseSet":
		v, rem, err := meta_leaseset.ReadMetaLeaseSet(b)
		if err != nil {
			return "meta_leaseset.ReadMetaLeaseSet", false, err.Error(), 0, nil
		}
		return "meta_leaseset.ReadMetaLeaseSet", true, "", len(rem), adapt.Diff(adapt.ModelMeta(s.Value.(refmodel.MetaLeaseSet)), adapt.LibMeta(&v))
	case "EncryptedLeaseSet":
		v, rem, err := encrypted_leaseset.ReadEncryptedLeaseSet(b)
		if err != nil {
			return "encrypted_leaseset.ReadEncryptedLeaseSet", false, err.Error(), 0, nil
		}
		return "encrypted_leaseset.ReadEncryptedLeaseSet", true, "", len(rem), adapt.Diff(adapt.ModelELS(s.Value.(refmodel.EncryptedLeaseSet), true), adapt.LibELS(&v))
	case "OfflineSignature":
		o := s.Value.(refmodel.Offline)
		v, rem, err := offline_signature.ReadOfflineSignature(b, uint16(aux))
		if err != nil {
			return "offline_signature.ReadOfflineSignature", false, err.Error(), 0, nil
		}
		want, got := adapt.Obs{}, adapt.Obs{}
		adapt.ModelOffline("o", &o, want)
		adapt.LibOffline("o", &v, got)
		return "offline_signature.ReadOfflineSignature", true, "", len(rem), adapt.Diff(want, got)
	case "RouterAddress":
		a := s.Value.(refmodel.RouterAddress)
		v, rem, err := router_address.ReadRouterAddress(b)
		if err != nil {
			return "router_address.ReadRouterAddress", false, err.Error(), 0, nil
		}
		want, got := adapt.Obs{}, adapt.Obs{}
		adapt.ModelRouterAddress("a", a, want)
		adapt.LibRouterAddress("a", &v, got)
		return "router_address.ReadRouterAddress", true, "", len(rem), adapt.Diff(want, got)
	case "Mapping":
		m := s.Value.(refmodel.Mapping)
		v, rem, errs := data.ReadMapping(b)
		if len(errs) != 0 {
			return "data.ReadMapping", false, errs[0].Error(), 0, nil
		}
		want, got := adapt.Obs{}, adapt.Obs{}
		adapt.ModelMapping("m", m, want)
		adapt.LibMapping("m", v, got)
		return "data.ReadMapping", true, "", len(rem), adapt.Diff(want, got)
	case "Lease":
		l := s.Value.(refmodel.Lease)
		v, rem, err := lease.ReadLease(b)
		if err != nil {
			return "lease.ReadLease", false, err.Error(), 0, nil
		}
		gw := v.TunnelGateway()
		d := v.Date()
		if !bytes.Equal(gw[:], l.Hash[:]) || v.TunnelID() != l.TunnelID || !bytes.Equal(d[:], refmodel.BE(l.EndMs, 8)) {
			diffs = append(diffs, "lease fields differ")
		}
		return "lease.ReadLease", true, "", len(rem), diffs
	case "Lease2":
		l := s.Value.(refmodel.Lease2)
		v, rem, err := lease.ReadLease2(b)
		if err != nil {
			return "lease.ReadLease2", false, err.Error(), 0, nil
		}
		gw := v.TunnelGateway()
		if !bytes.Equal(gw[:], l.Hash[:]) || v.TunnelID() != l.TunnelID || v.EndDate() != l.EndSec {
			diffs = append(diffs, "lease2 fields differ")
		}
		return "lease.ReadLease2", true, "", len(rem), diffs
	}
	return "", true, "", 0, nil
}

// c02Encode: model value -> library constructors -> Bytes() -> reference decoder == model fields.
// ok=false with a nil error means "not constructible through the API" (nothing to compare).
func c02Encode(fam string, s gen.Signed, aux int) (entry string, out []byte, diffs []string, err error) {
	notC := func(e error) bool {
		var nc adapt.ErrNotConstructible
		return errors.As(e, &nc)
	}
	switch fam {
	case "KeysAndCert":
		k := s.Value.(refmodel.KeysAndCert)
		v, e := adapt.KAC(k)
		if e != nil {
			if notC(e) {
				return "", nil, nil, nil
			}
			return "keys_and_cert.NewKeysAndCert", nil, nil, e
		}
		out, e = v.Bytes()
		if e != nil {
			return "keys_and_cert.NewKeysAndCert", nil, nil, e
		}
		dk, n, de := refmodel.DecodeKeysAndCert(out)
		if de != nil || n != len(out) {
			return "keys_and_cert.NewKeysAndCert", out, []string{fmt.Sprintf("reference decoder: %v (extent %d of %d)", de, n, len(out))}, nil
		}
		want, got := adapt.Obs{}, adapt.Obs{}
		adapt.ModelKAC("id", k, want)
		adapt.ModelKAC("id", dk, got)
		diffs = adapt.Diff(want, got)
		// wrappers
		if d, e := adapt.Destination(k); e == nil {
			if b2, _ := d.Bytes(); !bytes.Equal(b2, out) {
				diffs = append(diffs, "NewDestination(...).Bytes() differs from NewKeysAndCert(...).Bytes()")
			}
		} else if !notC(e) && !refmodel.ProhibitedDestSig(k.SigType) {
			diffs = append(diffs, "NewDestination rejects: "+e.Error())
		}
		if ri, e := adapt.RouterIdentity(k); e == nil {
			if b2, _ := ri.KeysAndCert.Bytes(); !bytes.Equal(b2, out) {
				diffs = append(diffs, "NewRouterIdentity(...).Bytes() differs from NewKeysAndCert(...).Bytes()")
			}
		} else if !notC(e) && !refmodel.ProhibitedRISig(k.SigType) {
			diffs = append(diffs, "NewRouterIdentity rejects: "+e.Error())
		}
		return "keys_and_cert.NewKeysAndCert", out, diffs, nil
	case "RouterInfo":
		ri := s.Value.(refmodel.RouterInfo)
		v, e := adapt.RouterInfo(ri, s.IDKey)
		if e != nil {
			if notC(e) {
				return "", nil, nil, nil
			}
			return "router_info.NewRouterInfo", nil, nil, e
		}
		out, e = v.Bytes()
		if e != nil {
			return "router_info.NewRouterInfo", nil, nil, e
		}
		d, n, de := refmodel.DecodeRouterInfo(out)
		if de != nil || n != len(out) {
			return "router_info.NewRouterInfo", out, []string{fmt.Sprintf("reference decoder: %v (extent %d of %d)", de, n, len(out))}, nil
		}
		exp := ri
		exp.Options = ri.Options.Sorted()
		exp.Addrs = nil
		for _, a := range ri.Addrs {
			a.Options = a.Options.Sorted()
			exp.Addrs = append(exp.Addrs, a)
		}
		return "router_info.NewRouterInfo", out, adapt.Diff(adapt.ModelRouterInfo(exp, false), adapt.ModelRouterInfo(d, false)), nil
	case "LeaseSet":
		ls := s.Value.(refmodel.LeaseSet)
		v, e := adapt.LeaseSet(ls, s.IDKey)
		if e != nil {
			if notC(e) {
				return "", nil, nil, nil
			}
			return "lease_set.NewLeaseSet", nil, nil, e
		}
		out, e = v.Bytes()
		if e != nil {
			return "lease_set.NewLeaseSet", nil, nil, e
		}
		d, n, de := refmodel.DecodeLeaseSet(out)
		if de != nil || n != len(out) {
			return "lease_set.NewLeaseSet", out, []string{fmt.Sprintf("reference decoder: %v (extent %d of %d)", de, n, len(out))}, nil
		}
		return "lease_set.NewLeaseSet", out, adapt.Diff(adapt.ModelLeaseSet(ls, false), adapt.ModelLeaseSet(d, false)), nil
	case "LeaseSet2":
		ls := s.Value.(refmodel.LeaseSet2)
		v, e := adapt.LeaseSet2(ls, s.Signer)
		if e != nil {
			if notC(e) {
				return "", nil, nil, nil
			}
			return "lease_set2.NewLeaseSet2", nil, nil, e
		}
		out, e = v.Bytes()
		if e != nil {
			return "lease_set2.NewLeaseSet2", nil, nil, e
		}
		d, n, de := refmodel.DecodeLeaseSet2(out)
		if de != nil || n != len(out) {
			return "lease_set2.NewLeaseSet2", out, []string{fmt.Sprintf("reference decoder: %v (extent %d of %d)", de, n, len(out))}, nil
		}
		// NewLeaseSet2 takes a Mapping VALUE: the field values are its set of pairs; whether the constructor
		// keeps the caller's order or emits them sorted is not a difference in field values (C11 decides the
		// canonical order of what the mapping encoders produce)
		exp := ls
		exp.Options = ls.Options.Sorted()
		d.Options = d.Options.Sorted()
		return "lease_set2.NewLeaseSet2", out, adapt.Diff(adapt.ModelLeaseSet2(exp, false), adapt.ModelLeaseSet2(d, false)), nil
	case "EncryptedLeaseSet":
		el := s.Value.(refmodel.EncryptedLeaseSet)
		v, e := adapt.EncryptedLeaseSet(el, s.Signer, adapt.ELSStdPriv)
		if e != nil {
			if notC(e) {
				return "", nil, nil, nil
			}
			return "encrypted_leaseset.NewEncryptedLeaseSet", nil, nil, e
		}
		out, e = v.Bytes()
		if e != nil {
			return "encrypted_leaseset.NewEncryptedLeaseSet", nil, nil, e
		}
		d, n, de := refmodel.DecodeEncryptedLeaseSet(out)
		if de != nil || n != len(out) {
			return "encrypted_leaseset.NewEncryptedLeaseSet", out, []string{fmt.Sprintf("reference decoder: %v (extent %d of %d)", de, n, len(out))}, nil
		}
		return "encrypted_leaseset.NewEncryptedLeaseSet", out, adapt.Diff(adapt.ModelELS(el, false), adapt.ModelELS(d, false)), nil
	case "OfflineSignature":
		o := s.Value.(refmodel.Offline)
		v, e := adapt.Offline(&o, aux)
		if e != nil {
			return "offline_signature.NewOfflineSignature", nil, nil, e
		}
		out = v.Bytes()
		if !bytes.Equal(out, s.Bytes) {
			diffs = append(diffs, fmt.Sprintf("bytes %s, model %s", core.Hex(out), core.Hex(s.Bytes)))
		}
		return "offline_signature.NewOfflineSignature", out, diffs, nil
	case "RouterAddress":
		a := s.Value.(refmodel.RouterAddress)
		v, e := adapt.RouterAddress(a)
		if e != nil {
			if notC(e) {
				return "", nil, nil, nil
			}
			return "router_address.NewRouterAddress", nil, nil, e
		}
		out = v.Bytes()
		d, n, de := refmodel.DecodeRouterAddress(out)
		if de != nil || n != len(out) {
			return "router_address.NewRouterAddress", out, []string{fmt.Sprintf("reference decoder: %v", de)}, nil
		}
		exp := a
		exp.Options = a.Options.Sorted()
		want, got := adapt.Obs{}, adapt.Obs{}
		adapt.ModelRouterAddress("a", exp, want)
		adapt.ModelRouterAddress("a", d, got)
		return "router_address.NewRouterAddress", out, adapt.Diff(want, got), nil
	case "Lease":
		l := s.Value.(refmodel.Lease)
		if l.EndMs > 1<<62 {
			return "", nil, nil, nil
		}
		v, e := adapt.Lease(l)
		if e != nil {
			return "lease.NewLease", nil, nil, e
		}
		if !bytes.Equal(v.Bytes(), s.Bytes) {
			diffs = append(diffs, fmt.Sprintf("bytes %s, model %s", core.Hex(v.Bytes()), core.Hex(s.Bytes)))
		}
		return "lease.NewLease", v.Bytes(), diffs, nil
	case "Lease2":
		l := s.Value.(refmodel.Lease2)
		v, e := adapt.Lease2(l)
		if e != nil {
			return "lease.NewLease2", nil, nil, e
		}
		if !bytes.Equal(v.Bytes(), s.Bytes) {
			diffs = append(diffs, fmt.Sprintf("bytes %s, model %s", core.Hex(v.Bytes()), core.Hex(s.Bytes)))
		}
		return "lease.NewLease2", v.Bytes(), diffs, nil
	}
	return "", nil, nil, nil
}

// rejectClass names why a parser refused x without relying on the error's wording where it can:
// when x is shorter than the package's exported minimum-size constant AND the same bytes followed by
// zero padding up to that size are accepted with exactly the padding left over, the size threshold is
// the only obstacle and the class is "only-because-shorter-than-<CONSTANT>"; otherwise the
// normalised error text.
func rejectClass(fam string, x []byte, errText string) string {
	pad := func(min int) []byte { return append(append([]byte(nil), x...), make([]byte, min-len(x))...) }
	switch fam {
	case "LeaseSet2":
		if len(x) < lease_set2.LEASESET2_MIN_SIZE {
			if _, rem, err := lease_set2.ReadLeaseSet2(pad(lease_set2.LEASESET2_MIN_SIZE)); err == nil && len(rem) == lease_set2.LEASESET2_MIN_SIZE-len(x) {
				return "only-because-shorter-than-LEASESET2_MIN_SIZE"
			}
		}
	case "MetaLeaseSet":
		if len(x) < meta_leaseset.META_LEASESET_MIN_SIZE {
			if _, rem, err := meta_leaseset.ReadMetaLeaseSet(pad(meta_leaseset.META_LEASESET_MIN_SIZE)); err == nil && len(rem) == meta_leaseset.META_LEASESET_MIN_SIZE-len(x) {
				return "only-because-shorter-than-META_LEASESET_MIN_SIZE"
			}
		}
	}
	return errClass(errText)
}

// errClass normalises an error text into a stable class (digits removed, first clause only).
func errClass(e string) string {
	var sb strings.Builder
	for i := 0; i < len(e) && sb.Len() < 60; i++ {
		c := e[i]
		if c >= '0' && c <= '9' {
			if sb.Len() == 0 || sb.String()[sb.Len()-1] != 'N' {
				sb.WriteByte('N')
			}
			continue
		}
		if c == ':' {
			break
		}
		sb.WriteByte(c)
	}
	return sb.String()
}

// diffClass reduces a diff line to its field name class for the identity.
func diffClass(d string) string {
	if i := strings.IndexByte(d, ':'); i > 0 {
		return gen.ClassOf(d[:i])
	}
	return gen.ClassOf(d)
}

func c02One(r *core.Run, fam string, s gen.Signed, aux int, c *choose.Ctx) {
	devs := c.Deviations()
	var dc []string
	for _, d := range devs {
		dc = append(dc, gen.ClassOf(d))
	}
	_ = dc
	cs := core.Case{Kind: "model", Args: map[string]string{"family": fam, "vector": fmt.Sprint(c.Vector()), "choices": c.Describe(), "bytes": core.HexFull(s.Bytes)}}
	// decode direction
	r.Evaluations.Add(1)
	var entry, errText string
	var accepted bool
	var remLen int
	var diffs []string
	pan, msg := core.Guard(func() { entry, accepted, errText, remLen, diffs = c02Decode(fam, s, aux) })
	if pan {
		r.Violate("C02|decode|"+fam+"|panic", "parser/accessor panics on a well-formed encoding: "+msg+" ("+c.Describe()+")", cs)
	} else if !accepted {
		r.Violate("C02|decode|"+entry+"|rejects-wellformed|"+rejectClass(fam, s.Bytes, errText), fmt.Sprintf("%s rejects a well-formed %s (%s): %s", entry, fam, c.Describe(), errText), cs)
	} else {
		r.Traces.Add(1)
		if remLen != 0 {
			r.Violate("C02|decode|"+entry+"|extent", fmt.Sprintf("%s leaves %d bytes of a well-formed %s unconsumed (%s)", entry, remLen, fam, c.Describe()), cs)
		}
		if len(diffs) > 0 {
			r.Violate("C02|decode|"+entry+"|field:"+diffClass(diffs[0]), fmt.Sprintf("%s exposes different field values than encoded (%s): %s", entry, c.Describe(), strings.Join(diffs[:min(3, len(diffs))], "; ")), cs)
		}
		r.Distinct([]byte("dec"), []byte(fam), s.Bytes[:min(len(s.Bytes), 900)], []byte(c.Describe()))
		// the parsed value's own serialisation is an encoding too: it must be the specification's layout
		// of the same field values, i.e. the bytes the independent implementation produced
		for _, pf := range parserFamiliesFor(fam, aux) {
			if strings.HasSuffix(pf, "Exact") {
				continue
			}
			for _, p := range adapt.ByFamily(pf) {
				var res adapt.Parsed
				if pan, _ := core.Guard(func() { res = p.Fn(s.Bytes) }); pan || !res.OK || res.Ser == nil || (res.HasRem && len(res.Rem) != 0) {
					continue
				}
				var out []byte
				var serr error
				if pan, _ := core.Guard(func() { out, serr = res.Ser() }); pan || serr != nil {
					continue
				}
				r.Evaluations.Add(1)
				if !bytes.Equal(out, s.Bytes) {
					r.Violate("C02|decode|"+p.Name+"|serialises-to-a-different-layout", fmt.Sprintf("%s accepts the well-formed %s and serialises it to %d bytes that differ from the specification encoding of the same field values (first difference at offset %d) (%s)", p.Name, fam, len(out), firstDiff(out, s.Bytes), c.Describe()), cs)
				}
			}
		}
	}
	// encode direction
	var out []byte
	var e error
	pan, msg = core.Guard(func() { entry, out, diffs, e = c02Encode(fam, s, aux) })
	if pan {
		r.Violate("C02|encode|"+fam+"|panic", "constructor path panics on a legal model value: "+msg+" ("+c.Describe()+")", cs)
		return
	}
	if entry == "" {
		return
	}
	r.Evaluations.Add(1)
	var am adapt.ErrArgumentMutated
	if errors.As(e, &am) {
		// the caller's own values (here: an options mapping it received in another structure, key material, lease
		// lists) are not the constructor's to rewrite: the structure they came from no longer encodes as it did
		r.Violate("C02|encode|"+entry+"|constructor-changed-its-argument["+am.What+"]", fmt.Sprintf("%s modified the %s it was given (deep snapshot of the argument before and after the call differs) (%s)", entry, am.What, c.Describe()), cs)
		return
	}
	if e != nil {
		// a constructor may refuse a legal model value (its own policy: C14 compares constructor
		// and validator rules); the encode direction only speaks about values it does build
		r.AddNote("encode_refused_by_"+entry, 1)
		return
	}
	r.AddNote("encode_built_by_"+entry, 1)
	r.Traces.Add(1)
	if len(diffs) > 0 {
		r.Violate("C02|encode|"+entry+"|field:"+diffClass(diffs[0]), fmt.Sprintf("bytes built by %s decode to different field values (%s): %s", entry, c.Describe(), strings.Join(diffs[:min(3, len(diffs))], "; ")), cs)
	}
	r.Distinct([]byte("enc"), []byte(fam), out[:min(len(out), 900)], []byte(c.Describe()))
}

func runC02(r *core.Run) {
	r.Rule = "E1 with legal variations only: every model value of every structure within 2 (thorough 3) variations of the default (key-type pairs, NULL/KEY certificates with/without extra payload, 0..16 leases/keys/entries, 0..255 addresses, flags, offline block with each transient type, each options mapping of the menu incl. empty value / empty key / 255-byte strings, boundary timestamps). Decode: refmodel bytes -> library parser -> every public accessor == model field, consumed == len. Encode: model value -> library constructors -> Bytes() -> refmodel strict decoder == model fields. non-trivial = distinct model values per direction that the library accepted and whose fields were compared"
	r.Assume("reference: refmodel (written from the 0.9.67 layouts); MetaLeaseSet follows the layout documented in meta_leaseset_struct.go (decode direction only: no constructor exists)",
		"signature bytes are not compared in the encode direction (C06 decides verification)")
	bound := 2
	if !r.Quick() {
		bound = 3
	}
	for _, fg := range structFamilies {
		fg := fg
		if fg.Family == "Certificate" || fg.Family == "Signature" || fg.Family == "Fixed" {
			continue
		}
		st, capped := choose.Explore(bound, core.Workers(), r.Expired, func(c *choose.Ctx) {
			s, aux := fg.Gen(c)
			c02One(r, fg.Family, s, aux, c)
		})
		r.States.Add(st.Points)
		r.Transitions.Add(st.Transitions)
		if capped {
			r.Capped.Store(true)
		}
	}
	independencePass(r, "C02")
	c02Mutators(r)
	r.Sample(map[string]any{"family": "LeaseSet2", "variation": "options=a='' + offline transient P-256", "directions": "decode+encode"})
	r.Sample(map[string]any{"family": "KeysAndCert", "variation": "sig P-384 / crypto ElGamal, KEY certificate with 5 extra payload bytes"})
}

func replayC02(r *core.Run, c core.Case) {
	if c.Kind == "mutators" {
		c02Mutators(r)
		return
	}
	if c.Kind == "independence" {
		replayIndependence(r, "C02", c)
		return
	}
	fam := c.Args["family"]
	var vec []int
	for _, f := range strings.Fields(strings.Trim(c.Args["vector"], "[]")) {
		var n int
		fmt.Sscan(f, &n)
		vec = append(vec, n)
	}
	for _, fg := range structFamilies {
		if fg.Family == fam {
			choose.Run(vec, func(cx *choose.Ctx) {
				s, aux := fg.Gen(cx)
				c02One(r, fam, s, aux, cx)
			})
		}
	}
}
