package checks

import (
	"bytes"
	"crypto/sha256"
	"encoding/hex"
	"encoding/json"
	"fmt"
	"os"
	"os/exec"
	"reflect"
	"runtime/debug"
	"sort"
	"strings"
	"sync"
	"time"

	"verif/internal/adapt"
	"verif/internal/choose"
	"verif/internal/core"
	"verif/internal/gen"
	"verif/internal/refmodel"
	"verif/internal/snap"

	"github.com/go-i2p/common/certificate"
	"github.com/go-i2p/common/data"
	"github.com/go-i2p/common/destination"
	"github.com/go-i2p/common/encrypted_leaseset"
	"github.com/go-i2p/common/key_certificate"
	"github.com/go-i2p/common/keys_and_cert"
	"github.com/go-i2p/common/lease"
	"github.com/go-i2p/common/lease_set"
	"github.com/go-i2p/common/lease_set2"
	"github.com/go-i2p/common/meta_leaseset"
	"github.com/go-i2p/common/offline_signature"
	"github.com/go-i2p/common/router_address"
	"github.com/go-i2p/common/router_identity"
	"github.com/go-i2p/common/router_info"
	"github.com/go-i2p/common/signature"
	"github.com/go-i2p/logger"
)

func init() { register("C18", runC18, replayC18) }

// ---------- shared values and read-only operations ----------

type c18Value struct {
	name string
	v    any // pointer to the shared value
}

type c18Op struct {
	name string
	run  func() string // rendered result (deterministic)
}

// sync.Pool / sync.Once / sync.Mutex / atomic.* are skipped: their bits are runtime-managed (a pool is emptied by
// the garbage collector at arbitrary moments, so including it makes every operation that happens to straddle a GC
// look like a writer) and they are internally synchronised; what they guard is still walked, and misuse of them
// shows in the per-call result oracle and in the free-running -race pass.
var c18SnapOpts = snap.Options{WithCap: true, SkipTypes: map[reflect.Type]bool{
	reflect.TypeOf((*logger.Logger)(nil)): true,
	reflect.TypeOf(logger.Logger{}):       true,
}, SkipPkgs: map[string]bool{"sync": true, "sync/atomic": true}}

func c18Values() []c18Value {
	var out []c18Value
	add := func(name string, v any, err error) {
		if err == nil && v != nil {
			out = append(out, c18Value{name, v})
		}
	}
	id := gen.Identity(choose.Run(nil, func(*choose.Ctx) {}), gen.RoleDest)
	{
		c, _, err := certificate.ReadCertificate(id.Bytes[384:])
		add("Certificate(parsed KEY)", c, err)
		c2, err := certificate.NewCertificateWithType(certificate.CERT_KEY, []byte{0, 7, 0, 4, 9, 9})
		add("Certificate(constructed)", c2, err)
		kc, _, err := key_certificate.NewKeyCertificate(id.Bytes[384:])
		add("KeyCertificate(parsed)", kc, err)
		// key certificates declaring type codes the tables do not know (experimental / not yet assigned): every lookup
		// takes its "unknown" branch, which must be as free of shared state as the table hit
		for i, raw := range [][]byte{{5, 0, 4, 0xff, 0x00, 0x00, 0x0c}, {5, 0, 4, 0x00, 0x0d, 0xff, 0x01}, {5, 0, 4, 0x00, 0x07, 0x00, 0x0e}} {
			ku, _, err := key_certificate.NewKeyCertificate(raw)
			add(fmt.Sprintf("KeyCertificate(parsed, unassigned type codes #%d)", i), ku, err)
		}
		k, _, err := keys_and_cert.ReadKeysAndCert(id.Bytes)
		add("KeysAndCert(parsed)", k, err)
		d, _, err := destination.ReadDestination(id.Bytes)
		add("Destination(parsed)", &d, err)
		ri, _, err := router_identity.ReadRouterIdentity(id.Bytes)
		add("RouterIdentity(parsed)", ri, err)
		kc2, err := adapt.KAC(id.Value.(refmodel.KeysAndCert))
		add("KeysAndCert(constructed)", kc2, err)
		d2, err := adapt.Destination(id.Value.(refmodel.KeysAndCert))
		add("Destination(constructed)", d2, err)
		b := certificate.NewCertificateBuilder()
		b.WithKeyTypes(7, 4)
		c3, err := b.Build()
		add("Certificate(builder)", c3, err)
		// identities assembled field by field (the fields are exported) without padding, wrapped by the validating
		// constructors: what a serialiser "fills in" for them it must not fill in on the shared value
		if kcl, err := key_certificate.NewKeyCertificateWithTypes(7, 4); err == nil {
			mk := id.Value.(refmodel.KeysAndCert)
			pk, e1 := adapt.CryptoPub(4, mk.Crypto)
			sk, e2 := adapt.SigningPub(7, mk.Signing)
			if e1 == nil && e2 == nil {
				lit := &keys_and_cert.KeysAndCert{KeyCertificate: kcl, ReceivingPublic: pk, SigningPublic: sk}
				add("KeysAndCert(field-assembled, no padding)", lit, nil)
				if dl, err := destination.NewDestination(&keys_and_cert.KeysAndCert{KeyCertificate: kcl, ReceivingPublic: pk, SigningPublic: sk}); err == nil {
					add("Destination(field-assembled, no padding)", dl, nil)
				}
			}
		}
		legacy := refmodel.NewKAC(0, 0, true, nil, func() []byte { x := refmodel.Fill("lc", 1, 256); x[0] = 0x11; return x }(), nil, gen.Key(0, 21).Pub)
		d3, _, err := destination.ReadDestination(legacy.Bytes())
		add("Destination(parsed, NULL certificate)", &d3, err)
	}
	{
		a := refmodel.RouterAddress{Cost: 5, Style: []byte("NTCP2"), Options: gen.MappingMenu[8]}
		v, _, err := router_address.ReadRouterAddress(a.Bytes())
		add("RouterAddress(parsed)", &v, err)
		// a non-zero expiration: against the letter of the specification, accepted by the parser (with a warning)
		ax := refmodel.RouterAddress{Cost: 9, Expiration: 1900000000000, Style: []byte("SSU2"), Options: gen.MappingMenu[1]}
		vx, _, err := router_address.ReadRouterAddress(ax.Bytes())
		add("RouterAddress(parsed, non-zero expiration)", &vx, err)
		c, err := router_address.NewRouterAddress(5, time.Time{}, "SSU2", map[string]string{"host": "::1", "port": "80", "caps": "6"})
		add("RouterAddress(constructed)", c, err)
		// the same address published twice with its options in two wire orders (neither sorted): equal content, different
		// bytes - the comparison of one with the other is a read-only operation on both
		pairs := refmodel.Mapping{{K: []byte("port"), V: []byte("4567")}, {K: []byte("host"), V: []byte("10.1.2.3")}, {K: []byte("caps"), V: []byte("4")}}
		au := refmodel.RouterAddress{Cost: 5, Style: []byte("NTCP2"), Options: pairs}
		vu, _, err := router_address.ReadRouterAddress(au.Bytes())
		add("RouterAddress(parsed, unsorted options)", &vu, err)
		at := refmodel.RouterAddress{Cost: 5, Style: []byte("NTCP2"), Options: refmodel.Mapping{pairs[1], pairs[2], pairs[0]}}
		vt, _, err := router_address.ReadRouterAddress(at.Bytes())
		add("RouterAddress(parsed, unsorted options) [twin]", &vt, err)
	}
	{
		ri := gen.RouterInfo(choose.Run(nil, func(*choose.Ctx) {}))
		v, _, err := router_info.ReadRouterInfo(ri.Bytes)
		add("RouterInfo(parsed)", &v, err)
		m := ri.Value.(refmodel.RouterInfo)
		m.Options = gen.MappingMenu[4] // unsorted on the wire
		m.Addrs[0].Options = gen.MappingMenu[8]
		var b refmodel.Buf
		m.Sig = nil
		m.Emit(&b)
		m.Sig = refmodel.Sign(ri.Signer, b.B)
		v2, _, err := router_info.ReadRouterInfo(m.Bytes())
		add("RouterInfo(parsed, unsorted options)", &v2, err)
		c, err := adapt.RouterInfo(ri.Value.(refmodel.RouterInfo), ri.IDKey)
		add("RouterInfo(constructed)", c, err)
	}
	{
		ls := gen.LeaseSet(choose.Run(nil, func(*choose.Ctx) {}))
		v, err := lease_set.ReadLeaseSet(ls.Bytes)
		add("LeaseSet(parsed)", &v, err)
	}
	{
		ls := gen.LeaseSet2(choose.Run(nil, func(*choose.Ctx) {}))
		v, _, err := lease_set2.ReadLeaseSet2(ls.Bytes)
		add("LeaseSet2(parsed)", &v, err)
		m := ls.Value.(refmodel.LeaseSet2)
		tk := gen.Key(7, 1032)
		off := refmodel.Offline{Expires: gen.OfflineExp, TransType: 7, TransKey: tk.Pub}
		off.Sig = refmodel.Sign(ls.IDKey, off.SignedData())
		m.Offline, m.Flags, m.Options = &off, 1, gen.MappingMenu[4]
		m.Sig = nil
		m.Sig = refmodel.Sign(tk, append([]byte{3}, m.Bytes()...))
		v2, _, err := lease_set2.ReadLeaseSet2(m.Bytes())
		add("LeaseSet2(parsed, offline, unsorted options)", &v2, err)
		// an encryption key of a type the library has no size for (carried opaquely)
		m2 := ls.Value.(refmodel.LeaseSet2)
		m2.Keys = append(append([]refmodel.EncKey(nil), m2.Keys...), refmodel.EncKey{Type: 0xFE00, Data: refmodel.Fill("opaque", 1, 40)})
		m2.Sig = nil
		m2.Sig = refmodel.Sign(ls.Signer, append([]byte{3}, m2.Bytes()...))
		v3, _, err := lease_set2.ReadLeaseSet2(m2.Bytes())
		add("LeaseSet2(parsed, opaque key type)", &v3, err)
		c, err := adapt.LeaseSet2(ls.Value.(refmodel.LeaseSet2), ls.Signer)
		add("LeaseSet2(constructed)", c, err)
	}
	{
		ms := gen.MetaLeaseSet(choose.Run(nil, func(*choose.Ctx) {}))
		m := ms.Value.(refmodel.MetaLeaseSet)
		m.Options = gen.MappingMenu[4]
		m.Entries = append(m.Entries, refmodel.MetaEntry{Hash: [32]byte{7}, Type: 1, Cost: 3, Props: gen.MappingMenu[4]})
		m.Sig = nil
		m.Sig = refmodel.Sign(ms.Signer, append([]byte{7}, m.Bytes()...))
		v, _, err := meta_leaseset.ReadMetaLeaseSet(m.Bytes())
		add("MetaLeaseSet(parsed)", &v, err)
		if mo, ok := c18GenWhere(gen.MetaLeaseSet, func(s gen.Signed) bool { return s.Value.(refmodel.MetaLeaseSet).Offline != nil }); ok {
			v2, _, err := meta_leaseset.ReadMetaLeaseSet(mo.Bytes)
			add("MetaLeaseSet(parsed, offline)", &v2, err)
		}
	}
	{
		es := gen.EncryptedLeaseSet(choose.Run(nil, func(*choose.Ctx) {}))
		v, _, err := encrypted_leaseset.ReadEncryptedLeaseSet(es.Bytes)
		add("EncryptedLeaseSet(parsed)", &v, err)
		c, err := adapt.EncryptedLeaseSet(es.Value.(refmodel.EncryptedLeaseSet), es.Signer, adapt.ELSStdPriv)
		add("EncryptedLeaseSet(constructed)", c, err)
		if eo, ok := c18GenWhere(gen.EncryptedLeaseSet, func(s gen.Signed) bool { return s.Value.(refmodel.EncryptedLeaseSet).Offline != nil }); ok {
			v2, _, err := encrypted_leaseset.ReadEncryptedLeaseSet(eo.Bytes)
			add("EncryptedLeaseSet(parsed, offline)", &v2, err)
			c2, err := adapt.EncryptedLeaseSet(eo.Value.(refmodel.EncryptedLeaseSet), eo.Signer, adapt.ELSStdPriv)
			add("EncryptedLeaseSet(constructed, offline)", c2, err)
		}
	}
	{
		// an EncryptedLeaseSet whose inner data really is a ciphertext for the key pair X25519Pair(1):
		// DecryptInnerData is a query too (right key: succeeds; wrong key: fails) and must leave the value alone
		ls := gen.LeaseSet2(choose.Run(nil, func(*choose.Ctx) {}))
		if plain, rem, err := lease_set2.ReadLeaseSet2(ls.Bytes); err == nil && len(rem) == 0 {
			pub, _ := adapt.X25519Pair(1)
			var cookie [32]byte
			if ct, err := encrypted_leaseset.EncryptInnerLeaseSet2(&plain, cookie, pub); err == nil {
				wire := refmodel.EncryptedLeaseSet{SigType: 11, Blinded: gen.Key(11, 77).Pub, Published: gen.Published, Expires: 600, Inner: ct, Sig: make([]byte, 64)}.Bytes()
				v, _, err := encrypted_leaseset.ReadEncryptedLeaseSet(wire)
				add("EncryptedLeaseSet(parsed, decryptable)", &v, err)
			}
		}
	}
	{
		os_, dt := gen.OfflineAlone(choose.Run(nil, func(*choose.Ctx) {}))
		v, _, err := offline_signature.ReadOfflineSignature(os_.Bytes, uint16(dt))
		add("OfflineSignature(parsed)", &v, err)
	}
	{
		sg, _, err := signature.ReadSignature(refmodel.Fill("sg", 1, 64), 7)
		add("Signature(parsed)", &sg, err)
	}
	{
		m, _, errs := data.ReadMapping(refmodel.MappingBytes(gen.MappingMenu[4]))
		var err error
		if len(errs) > 0 {
			err = errs[0]
		}
		add("Mapping(parsed, unsorted)", &m, err)
		m2, err := data.GoMapToMapping(gen.MappingMenu[8].ToMap())
		add("Mapping(constructed)", m2, err)
		mv := (&m).Values()
		add("MappingValues(parsed, unsorted)", &mv, nil)
	}
	{
		l, _, err := lease.ReadLease(refmodel.Lease{Hash: [32]byte{1}, TunnelID: 2, EndMs: gen.LeaseEndMs}.Bytes())
		add("Lease(parsed)", &l, err)
		l2, _, err := lease.ReadLease2(refmodel.Lease2{Hash: [32]byte{1}, TunnelID: 2, EndSec: gen.LeaseEndSec}.Bytes())
		add("Lease2(parsed)", &l2, err)
	}
	return out
}

// c18GenWhere returns the first value of the generator (within one variation, in exploration
// order) that satisfies pred.
func c18GenWhere(g func(*choose.Ctx) gen.Signed, pred func(gen.Signed) bool) (found gen.Signed, ok bool) {
	choose.Explore(1, 1, func() bool { return ok }, func(c *choose.Ctx) {
		s := g(c)
		if !ok && pred(s) {
			found, ok = s, true
		}
	})
	return
}

func renderOuts(out []reflect.Value) string {
	var sb strings.Builder
	for _, o := range out {
		if !o.IsValid() {
			sb.WriteString("<invalid>;")
			continue
		}
		if o.Type().Implements(reflect.TypeOf((*error)(nil)).Elem()) {
			if o.IsNil() {
				sb.WriteString("err:nil;")
			} else {
				sb.WriteString("err:" + o.Interface().(error).Error() + ";")
			}
			continue
		}
		if o.CanInterface() {
			h := sha256.Sum256(snap.Bytes(o.Interface(), snap.Options{SkipTypes: c18SnapOpts.SkipTypes}))
			sb.WriteString(hex.EncodeToString(h[:8]) + ";")
		}
	}
	return sb.String()
}

var c18SkipMethods = map[string]bool{"AddAddress": true, "SetBytes": true, "Zero": true, "IsExpired": true, "String": true}

func c18Ops(val c18Value) []c18Op {
	var ops []c18Op
	rv := reflect.ValueOf(val.v)
	t := rv.Type()
	for i := 0; i < t.NumMethod(); i++ {
		m := t.Method(i)
		if c18SkipMethods[m.Name] {
			continue
		}
		if m.Type.NumIn() == 1 {
			fn := rv.Method(i)
			ops = append(ops, c18Op{m.Name, func() string { return renderOuts(fn.Call(nil)) }})
			// an accessor whose documentation promises a copy: the goroutine that called it goes on to overwrite what
			// it was handed (bytes, and whole elements of element slices) - its own copy, by the documentation
			if copyDocumented()[adapt.TypeName(t)+"."+m.Name] && m.Type.NumOut() > 0 {
				ops = append(ops, c18Op{m.Name + "+caller-overwrites-the-returned-copy", func() string {
					out := fn.Call(nil)
					s := renderOuts(out)
					snap.ScribbleValues(out)
					return s
				}})
			}
			continue
		}
		if m.Name == "DecryptInnerData" && m.Type.NumIn() == 3 {
			fn := rv.Method(i)
			cookie := make([]byte, 32)
			for _, kk := range []struct {
				kn   string
				seed uint64
			}{{"right key", 1}, {"wrong key", 11}} {
				kn := kk.kn
				_, priv := adapt.X25519Pair(kk.seed)
				ops = append(ops, c18Op{m.Name + "(" + kn + ")", func() string {
					return renderOuts(fn.Call([]reflect.Value{reflect.ValueOf(cookie), reflect.ValueOf(priv)}))
				}})
			}
			continue
		}
		// one-argument methods taking the same type (Equals/Equal) or an I2PString key
		if m.Type.NumIn() == 2 {
			at := m.Type.In(1)
			fn := rv.Method(i)
			switch {
			case at == t:
				ops = append(ops, c18Op{m.Name + "(self)", func() string { return renderOuts(fn.Call([]reflect.Value{rv})) }})
				if tw := c18Twin(val.name); tw != nil && reflect.TypeOf(tw) == t {
					ops = append(ops, c18Op{m.Name + "(twin)", func() string { return renderOuts(fn.Call([]reflect.Value{reflect.ValueOf(tw)})) }})
				}
			case at == t.Elem():
				ops = append(ops, c18Op{m.Name + "(self)", func() string { return renderOuts(fn.Call([]reflect.Value{rv.Elem()})) }})
				if tw := c18Twin(val.name); tw != nil && reflect.TypeOf(tw) == t {
					ops = append(ops, c18Op{m.Name + "(twin)", func() string { return renderOuts(fn.Call([]reflect.Value{reflect.ValueOf(tw).Elem()})) }})
				}
			case at == reflect.TypeOf(data.I2PString{}):
				k, _ := data.ToI2PString("host")
				ops = append(ops, c18Op{m.Name + "(host)", func() string { return renderOuts(fn.Call([]reflect.Value{reflect.ValueOf(k)})) }})
			case at.Kind() == reflect.String:
				ops = append(ops, c18Op{m.Name + "(\"host\")", func() string { return renderOuts(fn.Call([]reflect.Value{reflect.ValueOf("host").Convert(at)})) }})
			case at.Kind() == reflect.Int:
				ops = append(ops, c18Op{m.Name + "(1)", func() string { return renderOuts(fn.Call([]reflect.Value{reflect.ValueOf(1)})) }})
			case at.Kind() == reflect.Slice && at.Elem().Kind() == reflect.Uint8:
				key := gen.Key(7, 61).Pub // the identity key of the OfflineAlone default
				ops = append(ops, c18Op{m.Name + "(key)", func() string { return renderOuts(fn.Call([]reflect.Value{reflect.ValueOf(key).Convert(at)})) }})
			case at.Kind() == reflect.Uint8:
				ops = append(ops, c18Op{m.Name + "(3)", func() string { return renderOuts(fn.Call([]reflect.Value{reflect.ValueOf(uint8(3))})) }})
			}
		}
	}
	// package-level size lookups (they read the shared tables)
	ops = append(ops,
		c18Op{"key_certificate.GetKeySizes(7,4)", func() string {
			k, err := key_certificate.GetKeySizes(7, 4)
			return fmt.Sprint(k, err)
		}},
		c18Op{"signature.SignatureSize(2)+offline sizes", func() string {
			n, err := signature.SignatureSize(2)
			return fmt.Sprint(n, err, offline_signature.SigningPublicKeySize(0), offline_signature.SignatureSize(1))
		}},
	)
	return ops
}

// c18Twin returns the value registered as "<name> [twin]" (or, for a twin, the value it is the twin of): a second
// value of the same type with equal content and a different encoding, used as the argument of Equals. Twins are built
// once per process; a comparison that writes to its ARGUMENT reaches its fixed point there, the write to its receiver
// is what steps 0-3 judge.
var (
	c18TwinOnce sync.Once
	c18TwinMap  map[string]any
)

func c18Twin(name string) any {
	c18TwinOnce.Do(func() {
		c18TwinMap = map[string]any{}
		for _, v := range c18Values() {
			c18TwinMap[v.name] = v.v
		}
	})
	if strings.HasSuffix(name, " [twin]") {
		return c18TwinMap[strings.TrimSuffix(name, " [twin]")]
	}
	return c18TwinMap[name+" [twin]"]
}

// ---------- worker protocol ----------

type c18Result struct {
	Violations  []core.Violation `json:"violations"`
	Evaluations int64            `json:"evaluations"`
	States      int64            `json:"states"`
	Transitions int64            `json:"transitions"`
	Traces      int64            `json:"traces"`
	Distinct    []string         `json:"distinct"`
	Capped      bool             `json:"capped"`
	Notes       map[string]int64 `json:"notes"`
	Samples     []any            `json:"samples"`
}

// C18Worker runs shard i of n of the interleaving exploration and prints a c18Result as JSON.
func C18Worker(i, n int, tier string) {
	res := c18Explore(i, n, tier)
	b, _ := json.Marshal(res)
	os.Stdout.Write(b)
}

func runC18(r *core.Run) {
	r.Rule = "for every structure type 1-3 shared values (parsed and constructed; offline / unsorted-options variants) x the read-only operation set found by reflection (every argument-free exported method, Equals(self), GetOption, size lookups): step 0, first-operation histories on freshly built copies (for every value and every operation i: i first, then the whole set; every answer must equal the answer given when that operation is itself the first call); step 1, each operation alone with a hook at EVERY statement of the instrumented library hashing a deep snapshot of receiver graph + ALL package-level variables (any transient change is a mutation); step 2, exhaustive preemption-bounded interleaving of every unordered pair of operations on the same value under a cooperative scheduler (bound 1; bound 2 for pairs containing an operation that step 1 saw writing; thorough: bound 2 for all pairs and triples of a core set), each schedule judged by result == solo result and final snapshot == initial snapshot; step 3 (secondary guard) the same operations free-running in 8 goroutines under the race detector. states = yield points reached, transitions = scheduling choices, traces = complete schedules. non-trivial = distinct (value, pair) scenarios explored"
	r.Assume("statement-granularity atomicity and sequential consistency in step 2; same-value writes and sub-statement races are visible to step 3 only (sampling)", "go-i2p/crypto and logrus internals are atomic steps (not instrumented); *logger.Logger values are skipped in snapshots")
	if !instrumented {
		r.Violate("C18|harness|not-instrumented", "C18 must be run through ./vrun, which builds the instrumented binary (bin/vcheck18)", core.Case{Kind: "harness"})
		return
	}
	r.WatchProgress(false) // this process only waits for its workers (each has its own deadline)
	c18FirstOpHistories(r)
	c18EditHistories(r)
	n := core.Workers()
	results := make([]c18Result, n)
	var wg sync.WaitGroup
	exe, _ := os.Executable()
	for i := 0; i < n; i++ {
		wg.Add(1)
		go func(i int) {
			defer wg.Done()
			cmd := exec.Command(exe, "c18worker", fmt.Sprint(i), fmt.Sprint(n), r.Tier)
			cmd.Env = append(os.Environ(), "GOMAXPROCS=2")
			var out, errb bytes.Buffer
			cmd.Stdout, cmd.Stderr = &out, &errb
			err := cmd.Run()
			if err != nil || json.Unmarshal(out.Bytes(), &results[i]) != nil {
				tail := errb.String()
				if len(tail) > 1500 {
					tail = tail[len(tail)-1500:]
				}
				results[i].Violations = append(results[i].Violations, core.Violation{Property: "C18", Identity: "C18|worker-died", Detail: fmt.Sprintf("exploration worker %d/%d died: %v\n%s", i, n, err, tail), Case: core.Case{Kind: "worker", Args: map[string]string{"shard": fmt.Sprint(i)}}})
			}
		}(i)
	}
	wg.Wait()
	for _, res := range results {
		r.Evaluations.Add(res.Evaluations)
		r.States.Add(res.States)
		r.Transitions.Add(res.Transitions)
		r.Traces.Add(res.Traces)
		if res.Capped {
			r.Capped.Store(true)
		}
		for _, d := range res.Distinct {
			r.Distinct([]byte(d))
		}
		for k, v := range res.Notes {
			r.AddNote(k, v)
		}
		for _, s := range res.Samples {
			r.Sample(s)
		}
		for _, v := range res.Violations {
			r.Violate(v.Identity, v.Detail, v.Case)
		}
	}
	c18RacePass(r)
}

// c18RacePass runs the free-running -race binary and converts race reports into violations.
func c18RacePass(r *core.Run) {
	exe := core.Root + "/bin/vcheck_race"
	if _, err := os.Stat(exe); err != nil {
		r.Note("race_pass", "skipped: bin/vcheck_race missing")
		return
	}
	rounds := "40"
	if !r.Quick() {
		rounds = "400"
	}
	cmd := exec.Command(exe, "c18race", rounds)
	cmd.Env = append(os.Environ(), "GORACE=halt_on_error=0 exitcode=66")
	var out bytes.Buffer
	cmd.Stdout, cmd.Stderr = &out, &out
	start := time.Now()
	err := cmd.Run()
	r.Note("race_pass_seconds", time.Since(start).Seconds())
	txt := out.String()
	reports := strings.Split(txt, "WARNING: DATA RACE")
	r.Note("race_pass_reports", len(reports)-1)
	for _, rep := range reports[1:] {
		site := "unknown"
		for _, l := range strings.Split(rep, "\n") {
			l = strings.TrimSpace(l)
			if strings.HasPrefix(l, "github.com/go-i2p/common/") {
				site = strings.TrimPrefix(l, "github.com/go-i2p/common/")
				if j := strings.LastIndexByte(site, '('); j > 0 {
					site = site[:j]
				}
				break
			}
		}
		if len(rep) > 1800 {
			rep = rep[:1800]
		}
		r.Violate("C18|data-race|"+site, "the race detector reports a data race between concurrent read-only calls on a shared value:"+rep, core.Case{Kind: "race", Args: map[string]string{"site": site}})
	}
	if err != nil && len(reports) == 1 {
		tail := txt
		if len(tail) > 1500 {
			tail = tail[len(tail)-1500:]
		}
		r.Violate("C18|race-pass-failed", fmt.Sprintf("the free-running pass failed: %v\n%s", err, tail), core.Case{Kind: "race"})
	}
	var n int64
	fmt.Sscanf(lastLineWith(txt, "c18race calls="), "c18race calls=%d", &n)
	r.Note("race_pass_calls", n)
}

func lastLineWith(txt, prefix string) string {
	out := ""
	for _, l := range strings.Split(txt, "\n") {
		if strings.HasPrefix(l, prefix) {
			out = l
		}
	}
	return out
}

// C18Race: the free-running pass (this function runs inside the -race binary).
func C18Race(rounds int) {
	var calls int64
	var mu sync.Mutex
	// cold phase: freshly built values, no warm-up call before the goroutines start, so that a
	// lazily filled cache (in the value or at package level) is first written under contention
	for cold := 0; cold < 3; cold++ {
		for _, v := range c18Values() {
			ops := c18Ops(v)
			var wg sync.WaitGroup
			for g := 0; g < 8; g++ {
				wg.Add(1)
				go func(g int) {
					defer wg.Done()
					for k := range ops {
						ops[(k+g*5)%len(ops)].run()
					}
					mu.Lock()
					calls += int64(len(ops))
					mu.Unlock()
				}(g)
			}
			wg.Wait()
		}
	}
	vals := c18Values()
	for _, v := range vals {
		ops := c18Ops(v)
		solo := make([]string, len(ops))
		for i, op := range ops {
			solo[i] = op.run()
		}
		// history prefix: the error paths (every operation once on the zero value of the type) run before the
		// goroutines start; the collector is held off so that what they left in pools is still there
		zeroOps := c18Ops(c18Value{name: v.name, v: reflect.New(reflect.TypeOf(v.v).Elem()).Interface()})
		gcWas := debug.SetGCPercent(-1)
		for _, op := range zeroOps {
			core.Guard(func() { op.run() })
		}
		var wg sync.WaitGroup
		for g := 0; g < 8; g++ {
			wg.Add(1)
			go func(g int) {
				defer wg.Done()
				n := int64(0)
				for round := 0; round < rounds; round++ {
					for k := range ops {
						i := (k*7 + g*3 + round) % len(ops)
						if got := ops[i].run(); got != solo[i] {
							fmt.Printf("C18RACE-RESULT-DIFFERS value=%q op=%q\n", v.name, ops[i].name)
						}
						n++
					}
				}
				mu.Lock()
				calls += n
				mu.Unlock()
			}(g)
		}
		wg.Wait()
		debug.SetGCPercent(gcWas)
	}
	fmt.Printf("c18race calls=%d\n", calls)
}

func replayC18(r *core.Run, c core.Case) {
	if !instrumented {
		fmt.Println("C18 replays need the instrumented binary: ./vrun replay does this for C18 files")
		return
	}
	c18Replay(r, c)
}

func sortedKeys(m map[string]any) []string {
	var ks []string
	for k := range m {
		ks = append(ks, k)
	}
	sort.Strings(ks)
	return ks
}
