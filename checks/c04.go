package checks

import (
	"fmt"
	"os"
	"reflect"
	"strings"
	"sync"
	"sync/atomic"
	"time"

	"verif/internal/adapt"
	"verif/internal/core"
	"verif/internal/refmodel"
	"verif/internal/registry"

	"github.com/go-i2p/common/base32"
	"github.com/go-i2p/common/base64"
	"github.com/go-i2p/common/certificate"
	"github.com/go-i2p/common/data"
	"github.com/go-i2p/common/key_certificate"
	"github.com/go-i2p/common/keys_and_cert"
	"github.com/go-i2p/common/offline_signature"
	"github.com/go-i2p/common/signature"
)

func init() { register("C04", runC04, replayC04) }

// c04Parse runs one parser on one input; a panic is a violation. Returns the result.
func c04Parse(r *core.Run, worker int, p adapt.Parser, in *Input) (adapt.Parsed, bool) {
	var res adapt.Parsed
	r.Begin(worker, func() string { return p.Name + " input=" + core.HexFull(in.Bytes) })
	panicked, msg, site := core.GuardSite(func() { res = p.Fn(in.Bytes) })
	r.End(worker)
	r.Evaluations.Add(1)
	if panicked {
		r.Violate("C04|panic|"+p.Name+"|"+site, fmt.Sprintf("%s panics on a %d-byte input (%s %s; %s): %s", p.Name, len(in.Bytes), in.Class, in.Detail, in.Base, msg), in.Case(p.Name))
		return res, false
	}
	return res, true
}

// c04Methods calls every exported method of an accepted value (with argument menus), and the
// argument-free methods of library-typed results one level down.
func c04Methods(r *core.Run, worker int, p adapt.Parser, in *Input, v any) {
	report := func(o adapt.CallOutcome, via string) {
		if o.Panicked {
			r.Violate("C04|method-panic|"+o.Type+"."+o.Method+"|"+o.Site, fmt.Sprintf("(%s).%s(%s)%s panics on a value %s returned without error (%s %s; %s): %s", o.Type, o.Method, o.Args, via, p.Name, in.Class, in.Detail, in.Base, o.Msg), in.Case(p.Name))
		}
	}
	r.Begin(worker, func() string { return "methods of value from " + p.Name + " input=" + core.HexFull(in.Bytes) })
	// mutating methods run last (second pass), so that e.g. AddAddress(nil) cannot poison the
	// value the read-only methods are judged on
	defer func() {
		adapt.CallMethods(v, true, nonMutators(v), func(o adapt.CallOutcome) { report(o, " [mutator, called last]") })
	}()
	called, unsup := adapt.CallMethods(v, true, mutatorNames, func(o adapt.CallOutcome) {
		report(o, "")
		if o.Panicked {
			return
		}
		for _, out := range o.Out {
			if !out.IsValid() || !out.CanInterface() || !adapt.IsLibraryType(out.Type()) {
				continue
			}
			if out.Kind() == reflect.Ptr && out.IsNil() {
				continue
			}
			if out.Kind() == reflect.Slice || out.Kind() == reflect.Array || out.Kind() == reflect.Map {
				continue
			}
			c2, _ := adapt.CallMethods(out.Interface(), false, nil, func(o2 adapt.CallOutcome) { report(o2, " [on result of "+o.Method+"]") })
			r.Evaluations.Add(int64(c2))
		}
	})
	// exported package-level functions that take a value of this type (decoders and accessors that are
	// not methods): called with the accepted value and menu values for their other parameters
	if fs := c04FuncsFor(v); len(fs) > 0 {
		n := adapt.CallFuncsWith(v, fs, func(o adapt.CallOutcome) {
			if o.Panicked {
				r.Violate("C04|function-panic|"+o.Method+"|"+o.Site, fmt.Sprintf("%s(%s) panics on a value %s returned without error (%s %s; %s): %s", o.Method, o.Args, p.Name, in.Class, in.Detail, in.Base, o.Msg), in.Case(p.Name))
			}
		})
		r.Evaluations.Add(int64(n))
	}
	r.End(worker)
	r.Evaluations.Add(int64(called))
	r.Traces.Add(1)
	if unsup > 0 {
		r.Note("methods_without_argument_menu_"+adapt.TypeName(reflect.TypeOf(v)), unsup)
	}
}

func runC04(r *core.Run) {
	r.Rule = "every parser on every input of its own family (E1 bases at bound 2/3 + the full operator menu + byte-walk), every parser on every base of every other family and on all operators applied to each family's default base; all 65,536 type codes through every function taking a type x data lengths around the table size; integer sizes -2..10; base32/64 decoders on short texts. After every accepted base (and accepted mutants of default bases) every exported method is invoked by reflection with small argument menus, and argument-free methods of library-typed results. Oracle: recover() => violation; watchdog for calls that do not return. non-trivial = distinct (parser,input) accepted parses whose methods were exercised"
	r.Assume("time bound: in the instrumented build (the one ./vrun uses for C04) a single-threaded pass counts executed library statements per call and requires steps <= 30000 + 600*len(input) (more than twenty times the largest ratio measured on the unchanged tree, see step_bound_* in coverage); a 120 s per-call watchdog is only a backstop",
		"methods whose parameter types have no menu are counted in methods_without_argument_menu_*")
	o := enumOpts{BaseBound: 2, MutateBound: 1}
	if !r.Quick() {
		o = enumOpts{BaseBound: 3, MutateBound: 2, AllCuts: true}
	}
	all := adapt.Parsers
	enumerateInputs(r, o, func(worker int, in *Input) {
		own := map[string]bool{}
		for _, fam := range parserFamiliesFor(in.Family, in.Aux) {
			own[fam] = true
		}
		cross := in.Class == "base" || len(in.Devs) == 0
		for _, p := range all {
			if !own[p.Family] && !cross {
				continue
			}
			res, ok := c04Parse(r, worker, p, in)
			if !ok || !res.OK || res.Val == nil || !own[p.Family] {
				continue
			}
			if in.Class == "base" || len(in.Devs) == 0 {
				c04Methods(r, worker, p, in, res.Val)
				r.Distinct([]byte(p.Name), in.Bytes[:min(len(in.Bytes), 800)], []byte(in.Class), []byte(in.Detail))
			} else if res.Ser != nil {
				// cheap path for the bulk: serialise only
				pan, msg, site := core.GuardSite(func() { res.Ser() })
				if pan {
					r.Violate("C04|method-panic|serialise|"+site, fmt.Sprintf("serialising the value %s returned without error panics (%s %s; %s): %s", p.Name, in.Class, in.Detail, in.Base, msg), in.Case(p.Name))
				}
			}
		}
	})
	byteWalk(r, -1, func(worker int, fam string, b []byte) {
		in := &Input{Family: fam, Bytes: b, Class: "bytewalk"}
		for _, p := range adapt.ByFamily(fam) {
			res, ok := c04Parse(r, worker, p, in)
			if ok && res.OK && res.Ser != nil {
				pan, msg, site := core.GuardSite(func() { res.Ser() })
				if pan {
					r.Violate("C04|method-panic|serialise|"+site, fmt.Sprintf("serialising the value %s returned panics: %s", p.Name, msg), in.Case(p.Name))
				}
			}
			// the byte-walk reaches degenerate but accepted encodings (declared lengths 0..3, empty
			// payloads) that no generator produces: every method and accessor function on them too
			if ok && res.OK && res.Val != nil {
				c04Methods(r, worker, p, in, res.Val)
			}
		}
	})
	c04TypeSweeps(r)
	c04ByteTypes(r)
	c04StepBound(r)
	c04DebugLogging(r)
	r.Sample(map[string]any{"parser": "keys_and_cert.ReadKeysAndCert", "sweep": "signing code 0..65535 x crypto {0,4}; crypto code 0..65535 x signing {7,0}"})
	r.Sample(map[string]any{"method": "(*router_address.RouterAddress).IntroducerHashString", "args": "int menu -1,0,1,2,16,2^31"})
}

// c04TypeSweeps: all 65,536 codes where a type is a parameter.
func c04TypeSweeps(r *core.Run) {
	guard := func(fn string, code int, extra string, f func()) {
		r.Evaluations.Add(1)
		pan, msg, site := core.GuardSite(f)
		if pan {
			r.Violate("C04|panic|"+fn+"|"+site, fmt.Sprintf("%s panics for type code %d %s: %s", fn, code, extra, msg),
				core.Case{Kind: "typecode", Args: map[string]string{"fn": fn, "code": fmt.Sprint(code), "extra": extra}})
		}
	}
	block := refmodel.Fill("blk", 9, 384)
	block[0] = 0x11
	data600 := refmodel.Fill("d", 9, 600)
	core.ParallelFor(65536, func(worker, code int) {
		si := refmodel.SigTable[code]
		for _, L := range []int{0, si.SigLen - 1, si.SigLen, si.SigLen + 1, 64} {
			if L < 0 {
				continue
			}
			guard("signature.ReadSignature", code, fmt.Sprintf("len=%d", L), func() { signature.ReadSignature(data600[:L:L], code) })
			guard("signature.NewSignature", code, fmt.Sprintf("len=%d", L), func() { signature.NewSignature(data600[:L:L], code) })
			guard("signature.NewSignatureFromBytes", code, fmt.Sprintf("len=%d", L), func() { signature.NewSignatureFromBytes(data600[:L:L], code) })
		}
		guard("signature.SignatureSize", code, "", func() { signature.SignatureSize(code) })
		guard("signature.SignatureSize", -code-1, "", func() { signature.SignatureSize(-code - 1) })
		guard("offline_signature.sizes", code, "", func() {
			offline_signature.SigningPublicKeySize(uint16(code))
			offline_signature.SignatureSize(uint16(code))
		})
		for _, L := range []int{0, 5, 6, 38, 102, 600} {
			guard("offline_signature.ReadOfflineSignature(transient)", code, fmt.Sprintf("len=%d", L), func() {
				in := append(refmodel.BE(1, 4), refmodel.BE(uint64(code), 2)...)
				in = append(in, data600...)
				if L < len(in) {
					in = in[:L]
				}
				offline_signature.ReadOfflineSignature(in, 7)
				offline_signature.ReadOfflineSignature(in, uint16(code))
			})
		}
		kls := []int{0, si.PubLen - 1, si.PubLen, si.PubLen + 1, 32}
		if _, known := refmodel.SigTable[code]; known || code < 32 {
			// every length up to past the padded 128-byte field and the widest key for the assigned codes
			kls = kls[:0]
			for n := 0; n <= 600; n++ {
				if n <= 140 || n%8 == 0 || (n >= si.PubLen-2 && n <= si.PubLen+2) {
					kls = append(kls, n)
				}
			}
		}
		for _, kl := range kls {
			if kl < 0 {
				continue
			}
			guard("offline_signature.NewOfflineSignature", code, fmt.Sprintf("keylen=%d", kl), func() {
				o, err := offline_signature.NewOfflineSignature(1, uint16(code), data600[:kl:kl], data600[:64:64], 7)
				if err == nil {
					o.Bytes()
					o.ValidateStructure()
					o.VerifySignature(data600[:32:32])
					_ = o.String()
				}
				o2, err := offline_signature.NewOfflineSignature(1, 7, data600[:32:32], data600[:kl:kl], uint16(code))
				if err == nil {
					o2.Bytes()
					o2.VerifySignature(data600[:32:32])
				}
			})
			guard("key_certificate.ConstructSigningPublicKeyByType", code, fmt.Sprintf("len=%d", kl), func() {
				k, err := key_certificate.ConstructSigningPublicKeyByType(data600[:kl:kl], code)
				if err == nil && k != nil {
					k.Len()
					k.Bytes()
					if v, err := k.NewVerifier(); err == nil && v != nil {
						v.Verify(data600[:10:10], data600[:si.SigLen:si.SigLen])
					}
				}
			})
		}
		guard("key_certificate.NewKeyCertificateWithTypes", code, "", func() {
			key_certificate.NewKeyCertificateWithTypes(code, 4)
			key_certificate.NewKeyCertificateWithTypes(7, code)
			key_certificate.GetKeySizes(code, code)
		})
		guard("certificate.CertificateBuilder", code, "", func() {
			b := certificate.NewCertificateBuilder()
			b.WithKeyTypes(code, 65535-code)
			if c, err := b.Build(); err == nil {
				c.Bytes()
				certificate.GetSignatureTypeFromCertificate(*c)
				certificate.GetCryptoTypeFromCertificate(*c)
			}
			certificate.BuildKeyTypePayload(code, -code)
			certificate.NewCertificateWithType(uint8(code), data600[:code%80:code%80])
		})
		// identities declaring every signing code (crypto 0 and 4) and every crypto code (signing 7 and 0)
		for _, pair := range [][2]int{{code, 0}, {code, 4}, {7, code}, {0, code}} {
			in := append(append([]byte(nil), block...), adapt.KeyCertBytes(pair[0], pair[1], nil)...)
			guard("keys_and_cert.ReadKeysAndCert", code, fmt.Sprintf("pair=%d/%d", pair[0], pair[1]), func() {
				k, _, err := keys_and_cert.ReadKeysAndCert(in)
				if err == nil && k != nil {
					k.Bytes()
					k.Validate()
				}
			})
			if code < 16 || code%4096 == 0 {
				ex := append(append([]byte(nil), in...), data600[:8:8]...)
				ex[386] = 12 // declared payload 12: types + 8 excess bytes
				guard("keys_and_cert.ReadKeysAndCert", code, fmt.Sprintf("pair=%d/%d excess=8", pair[0], pair[1]), func() { keys_and_cert.ReadKeysAndCert(ex) })
			}
		}
	})
	for size := -2; size <= 10; size++ {
		for _, L := range []int{0, 1, 7, 8, 9} {
			guard("data.ReadInteger", size, fmt.Sprintf("len=%d", L), func() {
				i, _ := data.ReadInteger(data600[:L:L], size)
				i.Int()
				i.IntSafe()
				i.UintSafe()
				data.NewInteger(data600[:L:L], size)
			})
		}
		for _, v := range []int{-1, 0, 1, 255, 256, 1 << 40, int(^uint(0) >> 1)} {
			guard("data.NewIntegerFromInt", size, fmt.Sprintf("value=%d", v), func() { data.NewIntegerFromInt(v, size); data.EncodeIntN(v, size) })
		}
	}
	for L := 0; L <= 10; L++ {
		guard("data.DecodeIntN", L, "", func() { data.DecodeIntN(data600[:L:L]) })
	}
	// base32 / base64 decoders
	texts := []string{""}
	for a := 0; a < 256; a++ {
		texts = append(texts, string([]byte{byte(a)}))
		for _, b := range []byte{'a', 'A', '=', '\n', 0xff, '~', '2'} {
			texts = append(texts, string([]byte{byte(a), b}), string([]byte{b, byte(a)}))
		}
	}
	var walk func(prefix string, alpha string, L int)
	walk = func(prefix string, alpha string, L int) {
		texts = append(texts, prefix)
		if len(prefix) == L {
			return
		}
		for i := 0; i < len(alpha); i++ {
			walk(prefix+alpha[i:i+1], alpha, L)
		}
	}
	walk("", "aA20=\n~", 6)
	for _, s := range texts {
		guard("base32/base64 decoders", len(s), fmt.Sprintf("%q", s), func() {
			base32.DecodeString(s)
			base32.DecodeStringNoPadding(s)
			base32.DecodeStringSafe(s)
			base32.DecodeStringSafeNoPadding(s)
			base64.DecodeString(s)
			base64.DecodeStringSafe(s)
		})
	}
	_ = time.Now
}

func replayC04(r *core.Run, c core.Case) {
	switch c.Kind {
	case "parse":
		p, ok := adapt.ByName(c.Args["parser"])
		if !ok {
			return
		}
		in := replayInput(c)
		res, ok := c04Parse(r, 0, p, in)
		if ok && res.OK && res.Val != nil {
			c04Methods(r, 0, p, in, res.Val)
		}
	case "bytetype":
		c04ByteTypes(r)
	default:
		c04TypeSweeps(r)
	}
}

var mutatorNames = map[string]bool{"AddAddress": true, "SetBytes": true, "Zero": true}

// nonMutators returns the skip set that leaves only the mutating methods.
func nonMutators(v any) map[string]bool {
	t := reflect.TypeOf(v)
	if t.Kind() != reflect.Ptr {
		t = reflect.PointerTo(t)
	}
	out := map[string]bool{}
	for i := 0; i < t.NumMethod(); i++ {
		if !mutatorNames[t.Method(i).Name] {
			out[t.Method(i).Name] = true
		}
	}
	return out
}

// c04StepBound: "time bounded by the input length", decided without a wall clock. In the
// instrumented build every library statement increments a step counter; each (parser, input)
// call of this single-threaded pass must stay below stepA + stepB*len(input). The constants are
// more than twenty times the largest ratio measured on the unchanged tree (24.5 steps per byte for a
// 255-address RouterInfo; recorded in the evidence on every run).
const (
	stepA = 30000
	stepB = 600
)

func c04StepBound(r *core.Run) {
	if !instrumented {
		r.Note("step_bound", "not evaluated: non-instrumented binary (run through ./vrun)")
		return
	}
	var maxSteps, calls int64
	var maxRatio float64
	worst := ""
	old := core.Workers
	_ = old
	os.Setenv("VERIF_WORKERS", "1")
	defer os.Unsetenv("VERIF_WORKERS")
	o := enumOpts{BaseBound: 1, MutateBound: 0}
	if !r.Quick() {
		o = enumOpts{BaseBound: 2, MutateBound: 1}
	}
	enumerateInputs(r, o, func(worker int, in *Input) {
		own := map[string]bool{}
		for _, fam := range parserFamiliesFor(in.Family, in.Aux) {
			own[fam] = true
		}
		for _, p := range adapt.Parsers {
			if !own[p.Family] && in.Class != "base" {
				continue
			}
			before := stepCount()
			var res adapt.Parsed
			core.Guard(func() {
				res = p.Fn(in.Bytes)
				if res.OK && res.Ser != nil {
					res.Ser()
				}
			})
			d := stepCount() - before
			calls++
			if d > maxSteps {
				maxSteps = d
			}
			if ratio := float64(d) / float64(len(in.Bytes)+1); ratio > maxRatio && d > 2000 {
				maxRatio = ratio
				worst = fmt.Sprintf("%s on %d bytes (%s %s): %d steps", p.Name, len(in.Bytes), in.Class, in.Detail, d)
			}
			if d > stepA+stepB*int64(len(in.Bytes)) {
				r.Violate("C04|steps-exceed-linear-bound|"+p.Name, fmt.Sprintf("%s executes %d library statements on a %d-byte input (bound %d + %d*len) (%s %s; %s)", p.Name, d, len(in.Bytes), stepA, stepB, in.Class, in.Detail, in.Base), in.Case(p.Name))
			}
		}
	})
	r.Note("step_bound_calls", calls)
	r.Note("step_bound_max_steps_in_one_call", maxSteps)
	r.Note("step_bound_worst_ratio_steps_per_byte", maxRatio)
	r.Note("step_bound_worst_case", worst)
	r.Note("step_bound", fmt.Sprintf("steps <= %d + %d*len(input)", stepA, stepB))
}

var (
	c04FuncIndexOnce sync.Once
	c04FuncIndex     map[reflect.Type][]adapt.FuncInfo
	c04FuncUnsup     int
)

// c04FuncsFor returns the exported package-level functions (from the registry generated at this
// run) that have a parameter of v's type. Constructors that sign or generate keys are left to the
// properties that drive them with meaningful arguments (C06, C14): they are not decoders/accessors.
func c04FuncsFor(v any) []adapt.FuncInfo {
	c04FuncIndexOnce.Do(func() {
		var all []adapt.FuncInfo
		for _, f := range registry.Funcs {
			fv := reflect.ValueOf(f.Fn)
			if fv.Kind() != reflect.Func {
				continue
			}
			// the property speaks of parsers, decoders and accessors; constructors and signing /
			// encrypting / generating functions (driven with meaningful arguments by C06, C14, C16) are not
			short := f.Name[strings.IndexByte(f.Name, '.')+1:]
			constructor := false
			for _, pre := range []string{"New", "Create", "Generate", "Sign", "Build", "Encrypt", "Must"} {
				if strings.HasPrefix(short, pre) {
					constructor = true
				}
			}
			if constructor {
				continue
			}
			all = append(all, adapt.FuncInfo{Name: f.Name, V: fv, T: fv.Type()})
		}
		c04FuncIndex, c04FuncUnsup = adapt.FuncsTaking(all)
	})
	t := reflect.TypeOf(v)
	for t != nil && t.Kind() == reflect.Ptr {
		t = t.Elem()
	}
	return c04FuncIndex[t]
}

// c04DebugLogging: the second point of the two-element environment menu {silent (default), DEBUG_I2P=debug}.
// "Returns normally" is a statement about the library, not about one logger configuration: code inside
// `if log level >= debug` blocks, and the formatting of logged values (logrus formats fields while holding
// its mutex, so a logged value whose String() method logs re-enters it and blocks forever), only run at
// debug level. Every parser of the family on every base within one deviation (thorough: two) and every cut
// of the default bases, every method of every accepted value - with the level raised and output discarded.
// A call that does not return is caught by the watchdog and reported as C04|hang.
func c04DebugLogging(r *core.Run) {
	c20SetLogging(true)
	defer c20SetLogging(false)
	was, had := os.LookupEnv("VERIF_WORKERS")
	os.Setenv("VERIF_WORKERS", "2") // logrus serialises messages behind one mutex
	defer func() {
		if had {
			os.Setenv("VERIF_WORKERS", was)
		} else {
			os.Unsetenv("VERIF_WORKERS")
		}
	}()
	o := enumOpts{BaseBound: 1, MutateBound: 0}
	if !r.Quick() {
		o = enumOpts{BaseBound: 2, MutateBound: 1}
	}
	var n int64
	visit := func(worker int, in *Input) {
		if in.Class != "base" && in.Class != "cut" {
			return
		}
		d := *in
		d.Detail += " [debug logging enabled]"
		for _, fam := range parserFamiliesFor(in.Family, in.Aux) {
			for _, p := range adapt.ByFamily(fam) {
				res, ok := c04Parse(r, worker, p, &d)
				atomic.AddInt64(&n, 1)
				if ok && res.OK && res.Val != nil && in.Class == "base" {
					c04Methods(r, worker, p, &d, res.Val)
				}
			}
		}
	}
	enumerateInputs(r, o, visit)
	// identities: every pair of variations (key-type pair x certificate form x fills) - the dimension code gated
	// on the log level most often branches on
	enumerateInputs(r, enumOpts{BaseBound: o.BaseBound + 1, MutateBound: -1, Families: []string{"KeysAndCert"}}, visit)
	r.Note("debug_logging_pass_parses", n)
}

// c04ByteTypes: exported named types that ARE byte strings (data.Integer, data.I2PString, key and tag types
// declared as []byte ...) are decoders of their own contents: a plain conversion T(b) yields a value whose
// methods must return normally for every b. Every such type found by the registry scan x every length 0..20 and
// 31, 32, 33, 255, 256, 257, 300 x three fills x every exported method (argument menus).
func c04ByteTypes(r *core.Run) {
	var lens []int
	for n := 0; n <= 20; n++ {
		lens = append(lens, n)
	}
	lens = append(lens, 31, 32, 33, 63, 64, 65, 255, 256, 257, 300)
	var n int64
	for _, t := range registry.Types {
		rt := reflect.TypeOf(t.Ptr)
		if rt == nil || rt.Kind() != reflect.Ptr {
			continue
		}
		et := rt.Elem()
		if et.Kind() != reflect.Slice || et.Elem().Kind() != reflect.Uint8 {
			continue
		}
		for _, l := range lens {
			for fill := 0; fill < 3; fill++ {
				b := make([]byte, l)
				for i := range b {
					switch fill {
					case 1:
						b[i] = 0xff
					case 2:
						b[i] = byte(i*37 + l)
					}
				}
				v := reflect.ValueOf(b).Convert(et)
				pv := reflect.New(et)
				pv.Elem().Set(v)
				called, _ := adapt.CallMethods(pv.Interface(), true, mutatorNames, func(o adapt.CallOutcome) {
					if o.Panicked {
						r.Violate("C04|method-panic|"+o.Type+"."+o.Method+"|"+o.Site, fmt.Sprintf("(%s).%s(%s) panics on the %d-byte value %s(%x...): %s", o.Type, o.Method, o.Args, l, t.Name, b[:min(len(b), 12)], o.Msg),
							core.Case{Kind: "bytetype", Args: map[string]string{"type": t.Name, "len": fmt.Sprint(l), "fill": fmt.Sprint(fill)}})
					}
				})
				n += int64(called)
				r.Evaluations.Add(int64(called))
			}
		}
		r.Distinct([]byte("bytetype"), []byte(t.Name))
	}
	r.Note("byte_string_type_method_calls", n)
}
