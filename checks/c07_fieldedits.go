package checks

import (
	"bytes"
	"crypto/sha256"
	"fmt"

	"verif/internal/adapt"
	"verif/internal/core"
	"verif/internal/refmodel"

	"github.com/go-i2p/common/destination"
	"github.com/go-i2p/common/keys_and_cert"
	"github.com/go-i2p/common/router_identity"
)

// E4 over histories that EDIT an identity. Every field of KeysAndCert is exported, and the library itself derives
// identities from identities by copying the struct (AsDestination, NewPrivateKeysAndCert, blinding). "Changing any key,
// padding or certificate byte changes hash and address" therefore also quantifies over values obtained by copy-and-edit,
// whatever was computed on the original before. State: a parsed identity (original) and an edited copy; transitions:
// serialise / hash either one, in both orders; invariant after every step: each value's serialisation is the reference
// encoding of ITS fields, its hash the SHA-256 of that, and the two are Equal only if those encodings are equal.
// Also: constructor-accepted padding of selected lengths, every padding byte flipped in turn.
func c07FieldEdits(r *core.Run) {
	bad := func(clause, entry, detail string, args map[string]string) {
		r.Violate("C07|"+clause+"|"+entry, detail, core.Case{Kind: "fieldedit", Args: args})
	}
	for _, pair := range [][2]int{{7, 4}, {7, 0}, {1, 0}, {0, 0}, {11, 4}, {2, 4}} {
		sig, cr := pair[0], pair[1]
		si, cl := refmodel.SigTable[sig], refmodel.CryptoTable[cr]
		gap := 384 - cl - si.PubLen
		if gap <= 0 {
			continue
		}
		k := refmodel.NewKAC(sig, cr, false, nil, refmodel.Fill("fe-c", uint64(sig*16+cr), cl), refmodel.Fill("fe-p", uint64(sig*16+cr), gap), refmodel.Fill("fe-s", uint64(sig*16+cr), si.PubLen))
		if sig == 0 {
			k = refmodel.NewKAC(sig, cr, false, nil, refmodel.Fill("fe-c", 1, cl), nil, nil)
		}
		wire := k.Bytes()
		id := fmt.Sprintf("pair=%d/%d", sig, cr)
		for _, pos := range []int{0, gap / 2, gap - 1} {
			for _, order := range []string{"original-first", "copy-first"} {
				for _, how := range []string{"fresh-padding-slice", "in-place"} {
					r.Evaluations.Add(1)
					r.Traces.Add(1)
					orig, _, err := keys_and_cert.ReadKeysAndCert(append([]byte(nil), wire...))
					if err != nil || orig == nil || len(orig.Padding) != gap {
						continue
					}
					args := map[string]string{"pair": id, "pos": fmt.Sprint(pos), "order": order, "how": how}
					want0 := wire
					want1 := append([]byte(nil), wire...)
					want1[cl+pos] ^= 0x40
					observe := func(v *keys_and_cert.KeysAndCert, want []byte, who string) bool {
						r.States.Add(1)
						var out []byte
						var e error
						var h, hd [32]byte
						if pan, msg := core.Guard(func() {
							out, e = v.Bytes()
							if d, e2 := destination.NewDestination(v); e2 == nil && d != nil {
								if hh, e3 := d.Hash(); e3 == nil {
									hd = hh
								}
							}
							if ri, e2 := router_identity.NewRouterIdentityFromKeysAndCert(v); e2 == nil && ri != nil {
								if rb, e3 := ri.Bytes(); e3 == nil && !bytes.Equal(rb, want) {
									h = [32]byte{1} // forces the report below: the wrapper serialises differently from the fields
								}
							}
						}); pan {
							bad("edited-identity-panics", "keys_and_cert.ReadKeysAndCert", fmt.Sprintf("%s, %s: %s", id, who, msg), args)
							return false
						}
						if e != nil || !bytes.Equal(out, want) {
							bad("serialisation-does-not-follow-the-fields", "KeysAndCert.Bytes", fmt.Sprintf("%s, padding byte %d edited (%s, %s): the %s serialises to bytes that are not the encoding of its own fields (first difference at %d, err %v)", id, pos, how, order, who, firstDiff(out, want), e), args)
							return false
						}
						sum := sha256.Sum256(want)
						for name, got := range map[string][32]byte{"Destination.Hash": hd, "RouterIdentity.Bytes": h} {
							if got != ([32]byte{}) && got != sum {
								bad("hash-is-not-sha256-of-the-identity's-bytes", name, fmt.Sprintf("%s, padding byte %d edited (%s, %s): the hash of the %s is not SHA-256 of the encoding of its fields", id, pos, how, order, who), args)
								return false
							}
						}
						return true
					}
					var edited *keys_and_cert.KeysAndCert
					mk := func() {
						if how == "in-place" {
							orig.Padding[pos] ^= 0x40
							edited = orig
							return
						}
						c := *orig // the struct copy the library's own wrappers make
						c.Padding = append([]byte(nil), orig.Padding...)
						c.Padding[pos] ^= 0x40
						edited = &c
					}
					if order == "original-first" || how == "in-place" {
						if !observe(orig, want0, "original") {
							continue
						}
						mk()
						if !observe(edited, want1, "edited copy") {
							continue
						}
					} else {
						mk()
						if !observe(edited, want1, "edited copy") {
							continue
						}
					}
					if how != "in-place" {
						if !observe(orig, want0, "original (after the edited copy was used)") {
							continue
						}
						d0, e0 := destination.NewDestination(orig)
						d1, e1 := destination.NewDestination(edited)
						if e0 == nil && e1 == nil && d0 != nil && d1 != nil {
							var eq bool
							if pan, _ := core.Guard(func() { eq = d0.Equals(d1) }); !pan && eq {
								bad("equal-although-serialisations-differ", "Destination.Equals", fmt.Sprintf("%s: an identity and its copy with padding byte %d changed compare equal", id, pos), args)
							}
						}
					}
					r.Distinct([]byte("fieldedit"), []byte(id), []byte{byte(pos)}, []byte(order+how))
				}
			}
		}
		// constructor-accepted padding: whatever length NewKeysAndCert takes, every byte of it must reach the hash
		kc, _ := adapt.ParsedKeyCert(sig, cr, nil)
		lpk, e3 := adapt.CryptoPub(cr, k.Crypto)
		lsk, e4 := adapt.SigningPub(sig, k.Signing)
		if kc == nil || e3 != nil || e4 != nil {
			continue
		}
		for _, pl := range []int{1, 31, 32, 33, 223, 224, 225, 300, gap - 1, gap} {
			if pl < 1 || pl > gap {
				continue
			}
			base := refmodel.Fill("fe-q", uint64(pl), pl)
			v0, err := keys_and_cert.NewKeysAndCert(kc, lpk, append([]byte(nil), base...), lsk)
			if err != nil || v0 == nil {
				continue
			}
			b0, err := v0.Bytes()
			if err != nil {
				continue
			}
			for i := 0; i < pl; i++ {
				r.Evaluations.Add(1)
				p := append([]byte(nil), base...)
				p[i] ^= 0x01
				v1, err := keys_and_cert.NewKeysAndCert(kc, lpk, p, lsk)
				if err != nil || v1 == nil {
					continue
				}
				b1, err := v1.Bytes()
				if err == nil && bytes.Equal(b0, b1) {
					bad("padding-byte-does-not-reach-the-identity's-bytes", "keys_and_cert.NewKeysAndCert", fmt.Sprintf("%s: NewKeysAndCert accepts %d bytes of padding (the gap is %d); changing padding byte %d changes neither the serialisation nor, therefore, hash and address", id, pl, gap, i), map[string]string{"pair": id, "padlen": fmt.Sprint(pl), "pos": fmt.Sprint(i)})
					break
				}
			}
		}
	}
}
