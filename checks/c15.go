package checks

import (
	"bytes"
	"fmt"
	"math"
	"math/big"
	"time"

	"verif/internal/adapt"
	"verif/internal/core"
	"verif/internal/gen"
	"verif/internal/refmodel"

	"github.com/go-i2p/common/data"
	"github.com/go-i2p/common/encrypted_leaseset"
	"github.com/go-i2p/common/lease"
	"github.com/go-i2p/common/lease_set"
	"github.com/go-i2p/common/lease_set2"
	"github.com/go-i2p/common/meta_leaseset"
	"github.com/go-i2p/common/offline_signature"
)

func init() { register("C15", runC15, replayBySweep(runC15)) }

// exactSec: the mathematically exact sum as Unix seconds.
func exactSec(pub uint32, off uint16) int64 {
	s := new(big.Int).Add(new(big.Int).SetUint64(uint64(pub)), new(big.Int).SetUint64(uint64(off)))
	return s.Int64()
}

func runC15(r *core.Run) {
	r.Level = "exploration"
	r.Rule = "published in {0,1,2^31-1,2^31,2^31+1,2^32-2,2^32-1,now} x ALL 65,536 expires offsets for LeaseSet2, EncryptedLeaseSet and MetaLeaseSet (values obtained by parsing reference encodings); Lease2 end dates and offline expiry over {0, 2^k-1, 2^k, 2^k+1 (k<32), 2^32-1, now+-1d} through constructor AND parser; NewLease2 on out-of-range times: 2^k and neighbours (k=32..62), a grid of 40,000 instants between 2^32 and 2^62 s, negatives, sub-second parts at both edges; 8-byte lease dates below 2^63; offline-signature and meta-entry expiry; lease sets: all tuples of 1..6 dates over three 3-value menus (minutes apart; within one second and across a second boundary; 1 ms apart), all permutations of 4 distinct dates, 16 leases with the extremum at every position with ties; IsExpired at +-1 day. Oracle: math/big arithmetic on the raw fields. non-trivial = distinct (structure, published, offset) triples and lease-date tuples evaluated"
	bad := func(clause, fn, detail string) {
		r.Violate("C15|"+clause+"|"+fn, detail, core.Case{Kind: "sweep", Args: map[string]string{"fn": fn, "detail": detail}})
	}
	now := uint32(time.Now().Unix())
	pubs := []uint32{0, 1, 1<<31 - 1, 1 << 31, 1<<31 + 1, 1<<32 - 2, 1<<32 - 1, now}
	// base encodings (default structures), patched in place
	kp := gen.Key(7, 31)
	dest := refmodel.NewKAC(7, 4, false, nil, refmodel.Fill("c", 1, 32), refmodel.Fill("p", 1, 320), kp.Pub)
	ls2 := refmodel.LeaseSet2{Dest: dest, Keys: []refmodel.EncKey{{Type: 4, Data: refmodel.Fill("k", 1, 32)}}, Leases: []refmodel.Lease2{{Hash: [32]byte{1}, TunnelID: 1, EndSec: 5}}, Sig: make([]byte, 64)}
	meta := refmodel.MetaLeaseSet{Dest: dest, Entries: []refmodel.MetaEntry{{Hash: [32]byte{1}, Type: 3, Expires: 7}, {Hash: [32]byte{2}, Type: 3, Expires: 7}}, Sig: make([]byte, 64)}
	els := refmodel.EncryptedLeaseSet{SigType: 11, Blinded: kp.Pub, Inner: refmodel.Fill("i", 1, 80), Sig: make([]byte, 64)}
	type tgt struct {
		name   string
		b      []byte
		pubOff int
		eval   func(b []byte) (pub, exp time.Time, expired bool, ok bool)
	}
	find := func(b *refmodel.Buf, name string) int {
		rg, _ := refmodel.FindRegion(b.R, name)
		return rg.Off
	}
	var b1, b2, b3 refmodel.Buf
	ls2.Emit(&b1)
	meta.Emit(&b2)
	els.Emit(&b3)
	tgts := []tgt{
		{"LeaseSet2", b1.B, find(&b1, "published"), func(b []byte) (time.Time, time.Time, bool, bool) {
			v, _, err := lease_set2.ReadLeaseSet2(b)
			if err != nil {
				return time.Time{}, time.Time{}, false, false
			}
			return v.PublishedTime(), v.ExpirationTime(), v.IsExpired(), true
		}},
		{"MetaLeaseSet", b2.B, find(&b2, "published"), func(b []byte) (time.Time, time.Time, bool, bool) {
			v, _, err := meta_leaseset.ReadMetaLeaseSet(b)
			if err != nil {
				return time.Time{}, time.Time{}, false, false
			}
			return v.PublishedTime(), v.ExpirationTime(), v.IsExpired(), true
		}},
		{"EncryptedLeaseSet", b3.B, find(&b3, "published"), func(b []byte) (time.Time, time.Time, bool, bool) {
			v, _, err := encrypted_leaseset.ReadEncryptedLeaseSet(b)
			if err != nil {
				return time.Time{}, time.Time{}, false, false
			}
			return v.PublishedTime(), v.ExpirationTime(), v.IsExpired(), true
		}},
	}
	for _, t := range tgts {
		t := t
		core.ParallelFor(len(pubs), func(_, pi int) {
			pub := pubs[pi]
			b := append([]byte(nil), t.b...)
			copy(b[t.pubOff:], refmodel.BE(uint64(pub), 4))
			for off := 0; off < 65536; off++ {
				if t.name == "EncryptedLeaseSet" && off == 0 {
					continue // expires 0 is structurally invalid for an EncryptedLeaseSet
				}
				copy(b[t.pubOff+4:], refmodel.BE(uint64(off), 2))
				r.Evaluations.Add(1)
				p, e, expired, ok := t.eval(b)
				if !ok {
					bad("parse", t.name, fmt.Sprintf("%s with published=%d expires=%d does not parse", t.name, pub, off))
					return
				}
				// IsExpired against the exact expiry, with a day's margin around the wall clock
				if x := exactSec(pub, uint16(off)); (x <= int64(now)-86400 && !expired) || (x >= int64(now)+86400 && expired) {
					bad("is-expired", t.name+".IsExpired", fmt.Sprintf("published=%d + expires=%d = %d (now %d): IsExpired=%v", pub, off, x, now, expired))
				}
				if p.Unix() != int64(pub) || p.Nanosecond() != 0 {
					bad("published-time", t.name+".PublishedTime", fmt.Sprintf("published=%d -> %d", pub, p.Unix()))
				}
				want := exactSec(pub, uint16(off))
				if e.Unix() != want || e.Nanosecond() != 0 {
					bad("expiration-time", t.name+".ExpirationTime", fmt.Sprintf("published=%d + expires=%d -> %d, exact %d", pub, off, e.Unix(), want))
				}
				if off%4096 == 0 || off == 65535 {
					r.Distinct([]byte(t.name), refmodel.BE(uint64(pub), 4), refmodel.BE(uint64(off), 2))
				}
			}
		})
		// expired a day ago / expires in a day
		for _, d := range []int64{-86400, 86400} {
			b := append([]byte(nil), t.b...)
			copy(b[t.pubOff:], refmodel.BE(uint64(int64(now)+d-600), 4))
			copy(b[t.pubOff+4:], refmodel.BE(600, 2))
			_, _, expired, ok := t.eval(b)
			r.Evaluations.Add(1)
			if !ok || expired != (d < 0) {
				bad("is-expired", t.name+".IsExpired", fmt.Sprintf("expiry %+d s from now: IsExpired=%v (parsed=%v)", d, expired, ok))
			}
		}
	}
	// the same with OFFLINE_KEYS set: the structure's own published+expires still decides "a day in the past";
	// "a day in the future" is judged when the transient key is valid beyond that as well
	{
		offl := func(exp uint32) *refmodel.Offline {
			tk := gen.Key(7, 1032)
			return &refmodel.Offline{Expires: exp, TransType: 7, TransKey: tk.Pub, Sig: make([]byte, 64)}
		}
		type otgt struct {
			name string
			mk   func(pub uint32, off uint16, o *refmodel.Offline) (bool, bool)
		}
		otgts := []otgt{
			{"LeaseSet2", func(pub uint32, off uint16, o *refmodel.Offline) (bool, bool) {
				x := ls2
				x.Published, x.Expires, x.Flags, x.Offline = pub, off, 1, o
				v, _, err := lease_set2.ReadLeaseSet2(x.Bytes())
				if err != nil {
					return false, false
				}
				return v.IsExpired(), true
			}},
			{"MetaLeaseSet", func(pub uint32, off uint16, o *refmodel.Offline) (bool, bool) {
				x := meta
				x.Published, x.Expires, x.Flags, x.Offline = pub, off, 1, o
				v, _, err := meta_leaseset.ReadMetaLeaseSet(x.Bytes())
				if err != nil {
					return false, false
				}
				return v.IsExpired(), true
			}},
			{"EncryptedLeaseSet", func(pub uint32, off uint16, o *refmodel.Offline) (bool, bool) {
				x := els
				x.Published, x.Expires, x.Flags, x.Offline = pub, off, 1, o
				v, _, err := encrypted_leaseset.ReadEncryptedLeaseSet(x.Bytes())
				if err != nil {
					return false, false
				}
				return v.IsExpired(), true
			}},
		}
		for _, t := range otgts {
			for _, d := range []int64{-86400, -10 * 86400, 86400, 10 * 86400} {
				for _, oexp := range []uint32{now + 30*86400, 1<<32 - 1, gen.OfflineExp} {
					r.Evaluations.Add(1)
					expired, ok := t.mk(uint32(int64(now)+d-600), 600, offl(oexp))
					if !ok {
						r.AddNote("offline_variants_not_parsed_"+t.name, 1)
						continue
					}
					if expired != (d < 0) {
						bad("is-expired", t.name+".IsExpired[offline-keys]", fmt.Sprintf("OFFLINE_KEYS set, transient key valid until %d: own expiry %+d s from now: IsExpired=%v", oexp, d, expired))
					}
					r.Distinct([]byte("offl-exp"), []byte(t.name), refmodel.BE(uint64(d+1<<40), 8), refmodel.BE(uint64(oexp), 4))
				}
			}
		}
	}
	// the same fields through the signing constructor: every representable (published, offset) pair is a value the
	// library must be able to build, and what it builds must report the exact expiry
	{
		good := ls2
		good.Leases = []refmodel.Lease2{{Hash: [32]byte{1}, TunnelID: 1, EndSec: 1<<32 - 1}}
		for _, pub := range []uint32{1, 1<<31 - 1, 1 << 31, 1<<32 - 65536, 1<<32 - 65535, 1<<32 - 600, 1<<32 - 2, 1<<32 - 1, now} {
			for _, off := range []uint16{0, 1, 599, 600, 601, 32767, 32768, 65534, 65535} {
				r.Evaluations.Add(1)
				m := good
				m.Published, m.Expires = pub, off
				var v *lease_set2.LeaseSet2
				var err error
				if pan, msg := core.Guard(func() { v, err = adapt.LeaseSet2(m, kp) }); pan {
					bad("constructor-panics", "lease_set2.NewLeaseSet2", fmt.Sprintf("published=%d expires=%d: %s", pub, off, msg))
					continue
				}
				if err != nil || v == nil {
					bad("constructor-refuses-representable-fields", "lease_set2.NewLeaseSet2", fmt.Sprintf("published=%d s, expires=+%d s (both within their fields; exact expiry %d s): refused: %v", pub, off, uint64(pub)+uint64(off), err))
					continue
				}
				if got := v.ExpirationTime().Unix(); got != int64(pub)+int64(off) || v.PublishedTime().Unix() != int64(pub) {
					bad("expiry", "LeaseSet2.ExpirationTime[constructed]", fmt.Sprintf("constructed with published=%d expires=%d: ExpirationTime %d, exact %d", pub, off, got, int64(pub)+int64(off)))
				}
			}
		}
	}
	// Lease2
	secs := []uint32{0, 1, 1<<31 - 1, 1 << 31, 1<<31 + 1, 1<<32 - 2, 1<<32 - 1, now}
	for k := 1; k < 32; k++ {
		secs = append(secs, 1<<k-1, 1<<k, 1<<k+1)
	}
	// the last and the first 600 seconds of the field's range, second by second (any tolerance or rounding
	// added to the end date in the field's own width wraps there), and the same around 2^31
	for d := uint32(0); d < 600; d++ {
		secs = append(secs, 1<<32-1-d, d, 1<<31-300+d)
	}
	for _, sec := range secs {
		r.Evaluations.Add(1)
		l2 := refmodel.Lease2{Hash: [32]byte{9}, TunnelID: 3, EndSec: sec}
		v, _, err := lease.ReadLease2(l2.Bytes())
		if err != nil {
			bad("parse", "lease.ReadLease2", err.Error())
			continue
		}
		// expiry with a day's margin around the wall clock, for every end date of the sweep
		if int64(sec) >= int64(now)+86400 && v.IsExpired() {
			bad("is-expired", "Lease2.IsExpired", fmt.Sprintf("a Lease2 ending at %d s (a day or more after now=%d) is reported expired", sec, now))
		}
		if int64(sec) <= int64(now)-86400 && !v.IsExpired() {
			bad("is-expired", "Lease2.IsExpired", fmt.Sprintf("a Lease2 that ended at %d s (a day or more before now=%d) is not reported expired", sec, now))
		}
		d := v.Date()
		if v.EndDate() != sec || v.Time().Unix() != int64(sec) || !bytes.Equal(d[:], refmodel.BE(uint64(sec)*1000, 8)) {
			bad("lease2-end", "Lease2.Time/Date", fmt.Sprintf("end=%d -> Time %d, Date %x", sec, v.Time().Unix(), d[:]))
		}
		c, err := lease.NewLease2(data.Hash{9}, 3, time.Unix(int64(sec), 0))
		if err != nil || c.EndDate() != sec {
			bad("lease2-ctor", "lease.NewLease2", fmt.Sprintf("time %d: err=%v stored=%v", sec, err, c))
		}
		r.Distinct([]byte("lease2"), refmodel.BE(uint64(sec), 4))
	}
	// out-of-range times: the powers of two and their neighbours up to 2^62, a geometric-arithmetic grid
	// of 40,000 instants between 2^32 s and 2^62 s (every derived count - ms, us, ns - wraps somewhere
	// in there), their negatives, and sub-second parts at the two edges of the range
	outOfRange := []int64{-1, -86400, 1 << 32, 1<<32 + 1, 1 << 33, 253402300799, 1 << 40}
	for k := 32; k <= 62; k++ {
		outOfRange = append(outOfRange, 1<<k-1, 1<<k, 1<<k+1, -(1 << k), -(1<<k - 1))
	}
	for k := 32; k < 62; k++ {
		step := (int64(1) << k) / 1334
		for i := int64(1); i < 1334; i++ {
			outOfRange = append(outOfRange, 1<<k+i*step+i%7)
		}
	}
	for _, sec := range outOfRange {
		if sec >= 0 && sec <= 1<<32-1 {
			continue
		}
		r.Evaluations.Add(1)
		if c, err := lease.NewLease2(data.Hash{9}, 3, time.Unix(sec, 0)); err == nil {
			bad("lease2-ctor-range", "lease.NewLease2", fmt.Sprintf("time %d s is outside the 32-bit range but was accepted and stored as %d", sec, c.EndDate()))
			break
		}
	}
	r.Note("lease2_out_of_range_instants", len(outOfRange))
	for _, ns := range []int64{1, 999999999} {
		r.Evaluations.Add(2)
		if c, err := lease.NewLease2(data.Hash{9}, 3, time.Unix(1<<32-1, ns)); err != nil || c.EndDate() != 1<<32-1 {
			bad("lease2-ctor", "lease.NewLease2", fmt.Sprintf("time 2^32-1 s + %d ns: err=%v", ns, err))
		}
		if c, err := lease.NewLease2(data.Hash{9}, 3, time.Unix(-1, ns)); err == nil {
			bad("lease2-ctor-range", "lease.NewLease2", fmt.Sprintf("time -1 s + %d ns is before the epoch but was accepted and stored as %d", ns, c.EndDate()))
		}
	}
	if v, _, err := lease.ReadLease2((refmodel.Lease2{Hash: [32]byte{9}, EndSec: now - 86400}).Bytes()); err != nil || !v.IsExpired() {
		bad("is-expired", "Lease2.IsExpired", "a lease that ended a day ago is not reported expired")
	}
	if v, _, err := lease.ReadLease2((refmodel.Lease2{Hash: [32]byte{9}, EndSec: now + 86400}).Bytes()); err != nil || v.IsExpired() {
		bad("is-expired", "Lease2.IsExpired", "a lease ending in a day is reported expired")
	}
	// Lease (ms)
	leaseMs := []uint64{0, 1, 999, 1000, 1<<31*1000 - 1, 1 << 31 * 1000, 1<<32*1000 - 1, 1 << 32 * 1000, 1 << 53, 253402300799999, 1<<63 - 1,
		uint64(now-86400) * 1000, uint64(now+86400) * 1000, (1<<32 + uint64(now) - 86400) * 1000, (1<<33 + uint64(now) - 100) * 1000, (1<<32 + 5) * 1000}
	for _, ms := range leaseMs {
		r.Evaluations.Add(1)
		l := refmodel.Lease{Hash: [32]byte{9}, TunnelID: 3, EndMs: ms}
		v, _, err := lease.ReadLease(l.Bytes())
		if err != nil {
			bad("parse", "lease.ReadLease", err.Error())
			continue
		}
		d := v.Date()
		if v.Time().UnixMilli() != int64(ms) || !bytes.Equal(d[:], refmodel.BE(ms, 8)) || d.Time().UnixMilli() != int64(ms) {
			bad("lease-end", "Lease.Time/Date", fmt.Sprintf("end=%d ms -> Time %d, Date %x", ms, v.Time().UnixMilli(), d[:]))
		}
		// expiry of the 8-byte lease is decided on its full 64-bit millisecond date
		if far := ms > uint64(now+86400)*1000; far && v.IsExpired() {
			bad("is-expired", "Lease.IsExpired", fmt.Sprintf("a lease ending at %d ms (after now + 1 day) is reported expired", ms))
		} else if ms < uint64(now-86400)*1000 && !v.IsExpired() {
			bad("is-expired", "Lease.IsExpired", fmt.Sprintf("a lease that ended at %d ms (before now - 1 day) is not reported expired", ms))
		}
		c, err := lease.NewLease(data.Hash{9}, 3, time.UnixMilli(int64(ms)))
		if err != nil || !bytes.Equal(c.Bytes(), l.Bytes()) {
			bad("lease-ctor", "lease.NewLease", fmt.Sprintf("time %d ms: err=%v bytes differ", ms, err))
		}
		r.Distinct([]byte("lease"), refmodel.BE(ms, 8))
	}
	// offline signature and meta entry
	exps := []uint32{1, 1<<31 - 1, 1 << 31, 1<<32 - 1, now - 86400, now + 86400, 0, now + 1<<31 - 10, now + 1<<31, now + 1<<31 + 10, 4000000000, 1<<32 - 2, now - 1<<30, now + 1<<30}
	for k := 1; k < 32; k++ {
		exps = append(exps, 1<<k-1, 1<<k, 1<<k+1)
	}
	for _, exp := range exps {
		r.Evaluations.Add(1)
		o, err := offline_signature.NewOfflineSignature(exp, 7, kp.Pub, make([]byte, 64), 7)
		if err != nil {
			bad("offline", "NewOfflineSignature", err.Error())
			continue
		}
		d, derr := o.ExpiresDate()
		if !o.ExpiresTime().Equal(time.Unix(int64(exp), 0)) || derr != nil || !bytes.Equal(d.Bytes(), refmodel.BE(uint64(exp)*1000, 8)) {
			bad("offline-expiry", "OfflineSignature.ExpiresTime/ExpiresDate", fmt.Sprintf("expires=%d -> %d / %v", exp, o.ExpiresTime().Unix(), d))
		}
		// the same field value reached through the parser
		ob := refmodel.Offline{Expires: exp, TransType: 7, TransKey: kp.Pub, Sig: make([]byte, 64)}
		var parsedOffline *offline_signature.OfflineSignature
		if po, _, perr := offline_signature.ReadOfflineSignature(ob.Bytes(), 7); perr != nil {
			bad("parse", "ReadOfflineSignature", perr.Error())
		} else {
			parsedOffline = &po
			pd, pderr := po.ExpiresDate()
			if po.Expires() != exp || !po.ExpiresTime().Equal(time.Unix(int64(exp), 0)) || pderr != nil || !bytes.Equal(pd.Bytes(), refmodel.BE(uint64(exp)*1000, 8)) {
				bad("offline-expiry", "OfflineSignature(parsed).ExpiresTime/ExpiresDate", fmt.Sprintf("expires=%d -> %d / %v", exp, po.ExpiresTime().Unix(), pd))
			}
		}
		for _, ov := range []*offline_signature.OfflineSignature{&o, parsedOffline} {
			if ov == nil {
				continue
			}
			if int64(exp) <= int64(now)-86400 && !ov.IsExpired() {
				bad("is-expired", "OfflineSignature.IsExpired", fmt.Sprintf("expires=%d (a day or more before now=%d) but not reported expired", exp, now))
			}
			if int64(exp) >= int64(now)+86400 && ov.IsExpired() {
				bad("is-expired", "OfflineSignature.IsExpired", fmt.Sprintf("expires=%d (a day or more after now=%d) but reported expired", exp, now))
			}
		}
		m := meta
		m.Entries = []refmodel.MetaEntry{{Hash: [32]byte{1}, Type: 3, Expires: exp}}
		m.Sig = make([]byte, 64)
		m.Options = refmodel.Mapping{{K: []byte("pad"), V: []byte("xxxxxxxxxxxxxxxxxxxxxxxxxxxxxxxxxxxxxxxxxxxx")}}
		if mv, _, err := meta_leaseset.ReadMetaLeaseSet(m.Bytes()); err == nil {
			e := mv.Entries()[0]
			if e.ExpiresTime().Unix() != int64(exp) {
				bad("meta-entry-expiry", "MetaLeaseSetEntry.ExpiresTime", fmt.Sprintf("expires=%d -> %d", exp, e.ExpiresTime().Unix()))
			}
		} else {
			bad("parse", "ReadMetaLeaseSet", err.Error())
		}
		r.Distinct([]byte("offline"), refmodel.BE(uint64(exp), 4))
	}
	// NewestExpiration / OldestExpiration
	lsKey := gen.Key(0, 21)
	lsDest := refmodel.NewKAC(0, 0, true, nil, func() []byte { b := refmodel.Fill("lc", 1, 256); b[0] = 0x11; return b }(), nil, lsKey.Pub)
	evalSet := func(dates []uint64) {
		r.Evaluations.Add(1)
		ls := refmodel.LeaseSet{Dest: lsDest, EncKey: func() []byte { b := refmodel.Fill("le", 1, 256); b[0] = 0x11; return b }(), SignKey: gen.Key(0, 22).Pub, Sig: make([]byte, 40)}
		for i, d := range dates {
			ls.Leases = append(ls.Leases, refmodel.Lease{Hash: [32]byte{byte(i + 1)}, TunnelID: uint32(i), EndMs: d})
		}
		v, err := lease_set.ReadLeaseSet(ls.Bytes())
		if err != nil {
			bad("parse", "lease_set.ReadLeaseSet", err.Error())
			return
		}
		mx, mn := dates[0], dates[0]
		for _, d := range dates {
			if d > mx {
				mx = d
			}
			if d < mn {
				mn = d
			}
		}
		nw, e1 := v.NewestExpiration()
		od, e2 := v.OldestExpiration()
		if e1 != nil || !bytes.Equal(nw[:], refmodel.BE(mx, 8)) {
			bad("newest", "LeaseSet.NewestExpiration", fmt.Sprintf("dates %v: newest = %x, exact %d (err %v)", dates, nw[:], mx, e1))
		}
		if e2 != nil || !bytes.Equal(od[:], refmodel.BE(mn, 8)) {
			bad("oldest", "LeaseSet.OldestExpiration", fmt.Sprintf("dates %v: oldest = %x, exact %d (err %v)", dates, od[:], mn, e2))
		}
		key := make([]byte, 0, 8*len(dates))
		for _, d := range dates {
			key = append(key, refmodel.BE(d, 8)...)
		}
		r.Distinct([]byte("set"), key)
	}
	// three menus: minutes apart, inside one second / straddling a second boundary, and 1 ms apart
	for _, menu := range [][]uint64{{1900000000000, 1900000600000, 1900001200000}, {1900000000100, 1900000000900, 1900000001500}, {1900000000999, 1900000001000, 1900000001001}} {
		for n := 1; n <= 6; n++ {
			idx := make([]int, n)
			for {
				ds := make([]uint64, n)
				for i, k := range idx {
					ds[i] = menu[k]
				}
				evalSet(ds)
				k := 0
				for ; k < n; k++ {
					idx[k]++
					if idx[k] < len(menu) {
						break
					}
					idx[k] = 0
				}
				if k == n {
					break
				}
			}
		}
	}
	four := []string{"0", "1", "2", "3"}
	permutations(four, func(o []string) {
		ds := make([]uint64, 4)
		for i, s := range o {
			ds[i] = 1900000000000 + uint64(s[0]-'0')*1000
		}
		evalSet(ds)
	})
	for pos := 0; pos < 16; pos++ {
		for _, kind := range []int{0, 1} { // extremum is the maximum / the minimum
			ds := make([]uint64, 16)
			for i := range ds {
				ds[i] = 1900000500000 + uint64((i*7)%5)*1000 // ties
			}
			if kind == 0 {
				ds[pos] = 1900009999999
			} else {
				ds[pos] = 1
			}
			evalSet(ds)
		}
	}
	evalSet([]uint64{0, 1<<63 - 1, 1 << 62})
	// seconds -> milliseconds over the whole int64 range of the argument: 2^k and neighbours, the largest second count
	// whose millisecond count fits (MaxInt64/1000) and its neighbours, every multiple of 2^64/1000 (where the product
	// wraps to a small non-negative number) and neighbours, negatives. Either an error, or exactly seconds*1000.
	{
		var secsIn []int64
		for k := 0; k <= 62; k++ {
			secsIn = append(secsIn, 1<<k-1, 1<<k, 1<<k+1, -(1 << k))
		}
		lim := int64(math.MaxInt64 / 1000)
		for d := int64(-3); d <= 3; d++ {
			secsIn = append(secsIn, lim+d, math.MaxInt64+d-3)
		}
		wrap := new(big.Int).Div(new(big.Int).Lsh(big.NewInt(1), 64), big.NewInt(1000)) // 2^64/1000
		for m := int64(1); m <= 499; m++ {
			x := new(big.Int).Mul(wrap, big.NewInt(m))
			if !x.IsInt64() {
				break
			}
			for d := int64(-2); d <= 2; d++ {
				if y := x.Int64() + d; y > 0 {
					secsIn = append(secsIn, y)
				}
			}
		}
		for _, sec := range secsIn {
			r.Evaluations.Add(1)
			var d *data.Date
			var err error
			if pan, msg := core.Guard(func() { d, err = data.NewDateFromUnix(sec) }); pan {
				bad("date-conversion-panics", "data.NewDateFromUnix", fmt.Sprintf("%d s: %s", sec, msg))
				continue
			}
			if err != nil || d == nil {
				if sec >= 0 && sec <= lim {
					bad("seconds-to-milliseconds", "data.NewDateFromUnix", fmt.Sprintf("%d s is representable (%d000 ms < 2^63) but refused: %v", sec, sec, err))
				}
				continue
			}
			exact := new(big.Int).Mul(big.NewInt(sec), big.NewInt(1000))
			got := new(big.Int).SetBytes(d[:])
			if exact.Sign() < 0 || exact.BitLen() > 63 || got.Cmp(exact) != 0 {
				bad("seconds-to-milliseconds", "data.NewDateFromUnix", fmt.Sprintf("%d s accepted and stored as %s ms; exact value %s ms (not representable below 2^63: must be refused)", sec, got, exact))
			}
		}
		r.Note("seconds_to_milliseconds_instants", len(secsIn))
	}
	// result-independence of the date conversions themselves: convert, let the caller overwrite the Date it was
	// handed, convert the same instant again (through every entry point that funnels into the same code)
	for _, ms := range []int64{0, 1, 999, 1000, int64(now) * 1000, 1<<62 + 7} {
		want := refmodel.BE(uint64(ms), 8)
		convs := map[string]func() *data.Date{
			"NewDateFromMillis": func() *data.Date { d, _ := data.NewDateFromMillis(ms); return d },
			"DateFromTime":      func() *data.Date { d, _ := data.DateFromTime(time.UnixMilli(ms)); return d },
		}
		if ms%1000 == 0 && ms/1000 < 1<<32 {
			sec := ms / 1000
			convs["NewDateFromUnix"] = func() *data.Date { d, _ := data.NewDateFromUnix(sec); return d }
			convs["OfflineSignature.ExpiresDate"] = func() *data.Date {
				o, err := offline_signature.NewOfflineSignature(uint32(sec), 7, kp.Pub, make([]byte, 64), 7)
				if err != nil {
					return nil
				}
				d, _ := o.ExpiresDate()
				return d
			}
		}
		for _, first := range []string{"NewDateFromMillis", "DateFromTime", "NewDateFromUnix", "OfflineSignature.ExpiresDate"} {
			f1, ok := convs[first]
			if !ok {
				continue
			}
			d1 := f1()
			if d1 == nil {
				continue
			}
			for i := range d1 {
				d1[i] = 0xA5 // the caller reuses the Date it was handed
			}
			for name, f := range convs {
				r.Evaluations.Add(1)
				if d2 := f(); d2 != nil && !bytes.Equal(d2[:], want) {
					bad("date-depends-on-earlier-callers", name, fmt.Sprintf("%d ms converts to %x after an earlier caller overwrote the Date that %s had returned for the same instant (exact %x)", ms, d2[:], first, want))
				}
			}
		}
	}
	// result-independence histories (H1/H2) of the time accessors of parsed values
	independencePass(r, "C15", func(family, call string) bool {
		if !containsAny(family, "Lease", "OfflineSignature", "RouterInfo", "RouterAddress", "Date") {
			return false
		}
		return call == "" || containsAny(call, "Expir", "Time", "Date", "Published", "Newest", "Oldest")
	})
	r.Sample(map[string]any{"structure": "LeaseSet2", "published": 4294967295, "expires": 65535, "exact_expiration": 4295032830})
	r.Sample(map[string]any{"lease_dates": []int{3, 1, 2}, "oldest": 1, "newest": 3})
}
