package checks

import (
	"bytes"
	"fmt"
	"strings"

	"verif/internal/choose"
	"verif/internal/core"
	"verif/internal/gen"
	"verif/internal/refmodel"

	"github.com/go-i2p/common/encrypted_leaseset"
	"github.com/go-i2p/common/lease_set"
	"github.com/go-i2p/common/lease_set2"
	"github.com/go-i2p/common/meta_leaseset"
	"github.com/go-i2p/common/offline_signature"
	"github.com/go-i2p/common/router_info"
)

func init() { register("C05", runC05, replayC05) }

// c05LibVerify parses x as kind and asks the library to verify. Returns parsed, verified,
// and the bytes the parser consumed. aux: for OfflineSignature the destination type; idKey the
// identity key handed to OfflineSignature.VerifySignature.
func c05LibVerify(kind string, x []byte, aux int, idKey []byte) (parsed, verified bool, consumed []byte) {
	parsed, consumed, verify := c05Parse(kind, x, aux, idKey)
	if !parsed {
		return false, false, nil
	}
	return true, verify(), consumed
}

// c05Parse parses x and returns the bytes consumed and a closure that asks the library to verify
// the parsed value (callable more than once: the history clauses call it again after the caller's
// buffer has been reused).
func c05Parse(kind string, x []byte, aux int, idKey []byte) (parsed bool, consumed []byte, verify func() bool) {
	switch kind {
	case "RouterInfo":
		v, rem, err := router_info.ReadRouterInfo(x)
		if err != nil || len(rem) > len(x) {
			return false, nil, nil
		}
		return true, x[:len(x)-len(rem)], func() bool { ok, err := v.VerifySignature(); return ok && err == nil }
	case "LeaseSet":
		v, err := lease_set.ReadLeaseSet(x)
		if err != nil {
			return false, nil, nil
		}
		c := x
		if _, n, e := refmodel.DecodeLeaseSet(x); e == nil {
			c = x[:n]
		}
		return true, c, func() bool { return v.Verify() == nil }
	case "LeaseSet2":
		v, rem, err := lease_set2.ReadLeaseSet2(x)
		if err != nil || len(rem) > len(x) {
			return false, nil, nil
		}
		return true, x[:len(x)-len(rem)], func() bool { return v.Verify() == nil }
	case "MetaLeaseSet":
		v, rem, err := meta_leaseset.ReadMetaLeaseSet(x)
		if err != nil || len(rem) > len(x) {
			return false, nil, nil
		}
		return true, x[:len(x)-len(rem)], func() bool { return v.Verify() == nil }
	case "EncryptedLeaseSet":
		v, rem, err := encrypted_leaseset.ReadEncryptedLeaseSet(x)
		if err != nil || len(rem) > len(x) {
			return false, nil, nil
		}
		return true, x[:len(x)-len(rem)], func() bool { return v.Verify() == nil }
	case "OfflineSignature":
		v, rem, err := offline_signature.ReadOfflineSignature(x, uint16(aux))
		if err != nil || len(rem) > len(x) {
			return false, nil, nil
		}
		return true, x[:len(x)-len(rem)], func() bool { ok, err := v.VerifySignature(idKey); return ok && err == nil }
	}
	return false, nil, nil
}

// c05RefVerify is the independent oracle on the consumed bytes.
func c05RefVerify(kind string, consumed []byte, aux int, idKey []byte) (bool, string) {
	switch kind {
	case "RouterInfo":
		return refmodel.VerifyRaw(refmodel.AuthRouterInfo, consumed)
	case "LeaseSet":
		return refmodel.VerifyRaw(refmodel.AuthLeaseSet, consumed)
	case "LeaseSet2":
		return refmodel.VerifyRaw(refmodel.AuthLeaseSet2, consumed)
	case "MetaLeaseSet":
		return refmodel.VerifyRaw(refmodel.AuthMeta, consumed)
	case "EncryptedLeaseSet":
		return refmodel.VerifyRaw(refmodel.AuthELS, consumed)
	case "OfflineSignature":
		o, n, err := refmodel.DecodeOffline(consumed, aux)
		if err != nil || n != len(consumed) {
			return false, "offline block does not decode"
		}
		if refmodel.Verify(aux, idKey, consumed[:len(consumed)-len(o.Sig)], o.Sig) {
			return true, ""
		}
		return false, "signature does not verify over the received expires|sigtype|key bytes"
	}
	return false, "?"
}

type c05Stats struct{ libTrue, positive, positiveLibFalse int64 }

// c05Try: one adversarial (or base) input.
func c05Try(r *core.Run, worker int, kind string, x []byte, aux int, idKey []byte, class, detail, base string, isBase bool) (libOK bool) {
	r.Evaluations.Add(1)
	var parsed, verified bool
	var consumed []byte
	r.Begin(worker, func() string { return kind + ".Verify " + core.HexFull(x) })
	pan, _ := core.Guard(func() { parsed, verified, consumed = c05LibVerify(kind, x, aux, idKey) })
	r.End(worker)
	if pan || !parsed {
		return false
	}
	r.Traces.Add(1)
	if !verified {
		return false
	}
	ok, why := c05RefVerify(kind, consumed, aux, idKey)
	cs := core.Case{Kind: "verify", Args: map[string]string{"kind": kind, "input": core.HexFull(x), "aux": fmt.Sprint(aux), "idkey": core.HexFull(idKey), "class": class, "detail": detail, "base": base}}
	if !ok {
		r.Violate("C05|"+kind+"|verifies-unauthentic|"+class, fmt.Sprintf("%s verification reports success but the received bytes are not authentic: %s (derivation %s %s; base %s)", kind, why, class, detail, base), cs)
	}
	if isBase || len(x) < 700 {
		r.Distinct([]byte(kind), x)
	} else {
		r.Distinct([]byte(kind), []byte(class), []byte(detail), []byte(base))
	}
	return true
}

// c05TryReuse: history clause "over exactly the bytes the structure was parsed from". The forged input x
// (same length as the genuine encoding g it was derived from) is parsed from the caller's buffer; the
// library rejects it; the caller then REUSES the buffer for the genuine message; verification of the value
// parsed from the forged bytes must still fail (a value that keeps a window into the caller's buffer would
// now be judged on the genuine bytes).
func c05TryReuse(r *core.Run, worker int, kind string, x, g []byte, aux int, idKey []byte, class, detail, base string) {
	if len(x) != len(g) || bytes.Equal(x, g) {
		return
	}
	// Scope: C05 itself quantifies over inputs; buffer-reuse histories are property C08's, whose list of
	// structures that must not share memory with the caller's buffer deliberately leaves out RouterInfo,
	// RouterAddress and every options / properties mapping (they do alias today). The clause is therefore
	// evaluated only where C08 promises independence: LeaseSet, EncryptedLeaseSet, OfflineSignature, and the
	// non-mapping parts of LeaseSet2 / MetaLeaseSet.
	switch kind {
	case "RouterInfo":
		return
	case "LeaseSet2", "MetaLeaseSet":
		if strings.Contains(class, "options") || strings.Contains(class, "props") || strings.Contains(class, "pair") {
			return
		}
	}
	buf := append([]byte(nil), x...)
	var parsed, v1, v2 bool
	var consumedLen int
	pan, _ := core.Guard(func() {
		var consumed []byte
		var verify func() bool
		parsed, consumed, verify = c05Parse(kind, buf, aux, idKey)
		if !parsed {
			return
		}
		consumedLen = len(consumed)
		v1 = verify()
		copy(buf, g)
		v2 = verify()
	})
	r.Evaluations.Add(1)
	if pan || !parsed || v1 || !v2 {
		return // v1 true is judged by c05Try; here only the verdict AFTER the buffer was reused
	}
	if ok, why := c05RefVerify(kind, x[:consumedLen], aux, idKey); !ok {
		r.Violate("C05|"+kind+"|verifies-unauthentic-after-the-caller-reused-its-buffer|"+class,
			fmt.Sprintf("%s: a value parsed from forged bytes (rejected at first) verifies once the caller's buffer holds the genuine message: %s (derivation %s %s; base %s)", kind, why, class, detail, base),
			core.Case{Kind: "verify-reuse", Args: map[string]string{"kind": kind, "input": core.HexFull(x), "genuine": core.HexFull(g), "aux": fmt.Sprint(aux), "idkey": core.HexFull(idKey), "class": class, "detail": detail, "base": base}})
	}
}

// c05SchemeMixups: a properly AUTHORISED transient key of one Ed25519-family scheme whose outer
// signature was made with the same key material under the other scheme (type 8 = Ed25519ph signs the
// SHA-512 prehash, type 7 = pure Ed25519). mk builds the forged structure from the offline block and
// the signing function.
func c05SchemeMixups(idKey refmodel.KeyPair, destSig int, emit func(class string, off refmodel.Offline, signer refmodel.KeyPair)) {
	if destSig != 7 && destSig != 11 {
		return
	}
	for _, d := range []struct{ declared, used int }{{8, 7}, {7, 8}} {
		tk := gen.Key(d.declared, 670)
		o := refmodel.Offline{Expires: gen.OfflineExp, TransType: d.declared, TransKey: tk.Pub}
		o.Sig = refmodel.Sign(idKey, o.SignedData())
		other := tk
		other.Type = d.used
		emit(fmt.Sprintf("transient-declared-type-%d-signed-under-scheme-%d", d.declared, d.used), o, other)
	}
}

// c05Forgeries builds the key/offline-block forgeries for one signed base.
func c05Forgeries(s gen.Signed, emit func(class, detail string, b []byte)) {
	attacker := gen.Key(7, 666)
	attackerT := gen.Key(7, 667)
	otherID := gen.Key(7, 668)
	sign := func(kp refmodel.KeyPair, prefix byte, body []byte) []byte {
		if prefix == 0 {
			return refmodel.Sign(kp, body)
		}
		return refmodel.Sign(kp, append([]byte{prefix}, body...))
	}
	switch v := s.Value.(type) {
	case refmodel.LeaseSet2:
		if refmodel.SigTable[v.Dest.SigType].SigLen == 0 {
			return
		}
		// (i) attacker's transient key, meaningless offline signature, outer signature by the attacker
		for _, junk := range []string{"zero", "garbage"} {
			f := v
			f.Flags |= 1
			osig := make([]byte, refmodel.SigTable[v.Dest.SigType].SigLen)
			if junk == "garbage" {
				osig = refmodel.Fill("junk", 1, len(osig))
			}
			f.Offline = &refmodel.Offline{Expires: gen.OfflineExp, TransType: 7, TransKey: attackerT.Pub, Sig: osig}
			f.Sig = nil
			f.Sig = sign(attackerT, refmodel.StoreLS2, f.Bytes())
			emit("offline-forged(attacker-transient,"+junk+"-authorisation)", "", f.Bytes())
		}
		// (ii) offline block transplanted from another identity
		{
			f := v
			f.Flags |= 1
			o := refmodel.Offline{Expires: gen.OfflineExp, TransType: 7, TransKey: attackerT.Pub}
			o.Sig = refmodel.Sign(otherID, o.SignedData())
			if len(o.Sig) == refmodel.SigTable[v.Dest.SigType].SigLen {
				f.Offline = &o
				f.Sig = nil
				f.Sig = sign(attackerT, refmodel.StoreLS2, f.Bytes())
				emit("offline-transplanted(from-another-identity)", "", f.Bytes())
			}
		}
		// (ii-b) history: the base (whose library verification has just run in this process) lends its
		// GENUINE offline block to a set of another identity, signed with the transient key
		if v.Offline != nil {
			f := v
			f.Dest.Signing = gen.Key(v.Dest.SigType, 671).Pub
			f.Sig = nil
			f.Sig = sign(s.Signer, refmodel.StoreLS2, f.Bytes())
			emit("genuine-offline-block-under-another-identity(after-verifying-the-genuine-set)", "", f.Bytes())
		}
		// (iii) valid offline block, transient type field rewritten to a same-length type
		if v.Offline != nil && (v.Offline.TransType == 7 || v.Offline.TransType == 11) {
			f := v
			o := *v.Offline
			o.TransType = 18 - o.TransType // 7 <-> 11
			f.Offline = &o
			emit("offline-type-rewritten", fmt.Sprintf("%d->%d", v.Offline.TransType, o.TransType), f.Bytes())
		}
		// (iv) transient type 8 (Ed25519ph) but the outer signature is plain Ed25519
		if v.Dest.SigType == 7 || v.Dest.SigType == 11 {
			f := v
			f.Flags |= 1
			tk := gen.Key(8, 670)
			o := refmodel.Offline{Expires: gen.OfflineExp, TransType: 8, TransKey: tk.Pub}
			o.Sig = refmodel.Sign(s.IDKey, o.SignedData())
			f.Offline = &o
			f.Sig = nil
			pure := tk
			pure.Type = 7
			f.Sig = sign(pure, refmodel.StoreLS2, f.Bytes())
			emit("ed25519ph-transient-signed-with-pure-ed25519", "", f.Bytes())
		}
		c05SchemeMixups(s.IDKey, v.Dest.SigType, func(class string, o refmodel.Offline, signer refmodel.KeyPair) {
			f := v
			f.Flags |= 1
			f.Offline = &o
			f.Sig = nil
			f.Sig = sign(signer, refmodel.StoreLS2, f.Bytes())
			emit(class, "", f.Bytes())
		})
		// signature by a different key / identity key swapped / wrong store-type prefix
		{
			f := v
			f.Sig = nil
			f.Sig = sign(gen.Key(s.Signer.Type, 669), refmodel.StoreLS2, f.Bytes())
			emit("signed-by-other-key", "", f.Bytes())
			f = v
			f.Sig = nil
			for _, p := range []byte{0, 1, 5, 7} {
				f.Sig = nil
				f.Sig = sign(s.Signer, p, f.Bytes())
				emit(fmt.Sprintf("wrong-store-prefix(%d)", p), "", f.Bytes())
			}
			if v.Dest.SigType == 7 && v.Offline == nil {
				f = v
				f.Dest.Signing = attacker.Pub
				emit("identity-key-swapped", "", f.Bytes())
			}
		}
	case refmodel.MetaLeaseSet:
		f := v
		f.Flags |= 1
		f.Offline = &refmodel.Offline{Expires: gen.OfflineExp, TransType: 7, TransKey: attackerT.Pub, Sig: make([]byte, refmodel.SigTable[v.Dest.SigType].SigLen)}
		f.Sig = nil
		f.Sig = sign(attackerT, refmodel.StoreMeta, f.Bytes())
		emit("offline-forged(attacker-transient,zero-authorisation)", "", f.Bytes())
		f = v
		for _, p := range []byte{0, 3, 5} {
			f.Sig = nil
			f.Sig = sign(s.Signer, p, f.Bytes())
			emit(fmt.Sprintf("wrong-store-prefix(%d)", p), "", f.Bytes())
		}
		f.Sig = nil
		f.Sig = sign(gen.Key(s.Signer.Type, 669), refmodel.StoreMeta, f.Bytes())
		emit("signed-by-other-key", "", f.Bytes())
		if v.Offline != nil && (v.Offline.TransType == 7 || v.Offline.TransType == 11) {
			f = v
			o := *v.Offline
			o.TransType = 18 - o.TransType
			f.Offline = &o
			emit("offline-type-rewritten", "", f.Bytes())
		}
		if v.Dest.SigType == 7 && v.Offline == nil {
			f = v
			f.Dest.Signing = attacker.Pub
			emit("identity-key-swapped", "", f.Bytes())
		}
		if v.Offline != nil {
			f = v
			f.Dest.Signing = gen.Key(v.Dest.SigType, 671).Pub
			f.Sig = nil
			f.Sig = sign(s.Signer, refmodel.StoreMeta, f.Bytes())
			emit("genuine-offline-block-under-another-identity(after-verifying-the-genuine-set)", "", f.Bytes())
		}
		c05SchemeMixups(s.IDKey, v.Dest.SigType, func(class string, o refmodel.Offline, signer refmodel.KeyPair) {
			f := v
			f.Flags |= 1
			f.Offline = &o
			f.Sig = nil
			f.Sig = sign(signer, refmodel.StoreMeta, f.Bytes())
			emit(class, "", f.Bytes())
		})
		{
			o := refmodel.Offline{Expires: gen.OfflineExp, TransType: 7, TransKey: attackerT.Pub}
			o.Sig = refmodel.Sign(otherID, o.SignedData())
			if len(o.Sig) == refmodel.SigTable[v.Dest.SigType].SigLen {
				f = v
				f.Flags |= 1
				f.Offline = &o
				f.Sig = nil
				f.Sig = sign(attackerT, refmodel.StoreMeta, f.Bytes())
				emit("offline-transplanted(from-another-identity)", "", f.Bytes())
			}
		}
	case refmodel.EncryptedLeaseSet:
		f := v
		f.Flags |= 1
		f.Offline = &refmodel.Offline{Expires: gen.OfflineExp, TransType: 7, TransKey: attackerT.Pub, Sig: make([]byte, refmodel.SigTable[v.SigType].SigLen)}
		f.Sig = nil
		f.Sig = sign(attackerT, refmodel.StoreELS, f.Bytes())
		emit("offline-forged(attacker-transient,zero-authorisation)", "", f.Bytes())
		{
			o := refmodel.Offline{Expires: gen.OfflineExp, TransType: 7, TransKey: attackerT.Pub}
			o.Sig = refmodel.Sign(otherID, o.SignedData())
			if len(o.Sig) == refmodel.SigTable[v.SigType].SigLen {
				f.Offline = &o
				f.Sig = nil
				f.Sig = sign(attackerT, refmodel.StoreELS, f.Bytes())
				emit("offline-transplanted(from-another-identity)", "", f.Bytes())
			}
		}
		f = v
		for _, p := range []byte{0, 3, 7} {
			f.Sig = nil
			f.Sig = sign(s.Signer, p, f.Bytes())
			emit(fmt.Sprintf("wrong-store-prefix(%d)", p), "", f.Bytes())
		}
		f.Sig = nil
		f.Sig = sign(gen.Key(s.Signer.Type, 669), refmodel.StoreELS, f.Bytes())
		emit("signed-by-other-key", "", f.Bytes())
		if v.Offline != nil && (v.Offline.TransType == 7 || v.Offline.TransType == 11) {
			f = v
			o := *v.Offline
			o.TransType = 18 - o.TransType
			f.Offline = &o
			emit("offline-type-rewritten", "", f.Bytes())
		}
		if (v.SigType == 7 || v.SigType == 11) && v.Offline == nil {
			f = v
			f.Blinded = attacker.Pub
			emit("identity-key-swapped", "", f.Bytes())
		}
		if v.Offline != nil {
			f = v
			f.Blinded = gen.Key(v.SigType, 671).Pub
			f.Sig = nil
			f.Sig = sign(s.Signer, refmodel.StoreELS, f.Bytes())
			emit("genuine-offline-block-under-another-identity(after-verifying-the-genuine-set)", "", f.Bytes())
		}
		c05SchemeMixups(s.IDKey, v.SigType, func(class string, o refmodel.Offline, signer refmodel.KeyPair) {
			f := v
			f.Flags |= 1
			f.Offline = &o
			f.Sig = nil
			f.Sig = sign(signer, refmodel.StoreELS, f.Bytes())
			emit(class, "", f.Bytes())
		})
	case refmodel.RouterInfo:
		f := v
		f.Sig = nil
		f.Sig = sign(gen.Key(s.Signer.Type, 669), 0, f.Bytes())
		emit("signed-by-other-key", "", f.Bytes())
		for _, p := range []byte{1, 3} {
			f.Sig = nil
			f.Sig = sign(s.Signer, p, f.Bytes())
			emit(fmt.Sprintf("wrong-store-prefix(%d)", p), "", f.Bytes())
		}
		if v.Ident.SigType == 7 {
			f = v
			f.Ident.Signing = attacker.Pub
			emit("identity-key-swapped", "", f.Bytes())
		}
	case refmodel.LeaseSet:
		f := v
		f.Sig = nil
		f.Sig = sign(gen.Key(s.Signer.Type, 669), 0, f.Bytes())
		emit("signed-by-other-key", "", f.Bytes())
		// signed by the LeaseSet's own (revocation) signing key instead of the destination's key
		f.Sig = nil
		f.Sig = sign(gen.Key(v.Dest.SigType, 22), 0, f.Bytes())
		emit("signed-by-leaseset-signing-key", "", f.Bytes())
		f.Sig = nil
		f.Sig = sign(s.Signer, 1, f.Bytes())
		emit("wrong-store-prefix(1)", "", f.Bytes())
	case refmodel.Offline:
		f := v
		f.Sig = refmodel.Sign(gen.Key(s.Signer.Type, 669), f.SignedData())
		emit("signed-by-other-key", "", f.Bytes())
		if f.TransType == 7 || f.TransType == 11 {
			f = v
			f.TransType = 18 - f.TransType
			emit("offline-type-rewritten", "", f.Bytes())
		}
	}
}

func c05One(r *core.Run, worker int, s gen.Signed, aux int, desc string, devs int, allBits bool, st *c05Stats) {
	kind := s.Kind
	idKey := s.IDKey.Pub
	libOK := c05Try(r, worker, kind, s.Bytes, aux, idKey, "base", "", desc, true)
	refOK, _ := c05RefVerify(kind, s.Bytes, aux, idKey)
	if !refOK {
		r.Violate("C05|harness|reference-rejects-own-base|"+kind, "the reference oracle does not verify a structure the reference itself signed ("+desc+")", core.Case{Kind: "verify", Args: map[string]string{"kind": kind, "input": core.HexFull(s.Bytes), "aux": fmt.Sprint(aux), "idkey": core.HexFull(idKey)}})
		return
	}
	if libOK {
		r.AddNote("positive_controls_verified_by_library_"+kind, 1)
	} else {
		r.AddNote("positive_controls_not_verified_by_library_"+kind, 1)
	}
	try := func(class, detail string, b []byte) {
		if !c05Try(r, worker, kind, b, aux, idKey, class, detail, desc, false) && libOK {
			c05TryReuse(r, worker, kind, b, s.Bytes, aux, idKey, class, detail, desc)
		}
	}
	c05Forgeries(s, try)
	if devs > 1 {
		return
	}
	gen.Mutations(s.Bytes, s.Regions, false, func(class, detail string, b []byte) {
		if class == "cut" || (kind == "LeaseSet" && strings.HasPrefix(class, "append")) {
			return
		}
		try(class, detail, b)
	})
	// bit flips: every byte, one bit (quick) or all eight (thorough)
	if len(s.Bytes) <= 2200 {
		for i := 0; i < len(s.Bytes); i++ {
			nb := 1
			if allBits {
				nb = 8
			}
			for k := 0; k < nb; k++ {
				b := append([]byte(nil), s.Bytes...)
				b[i] ^= 1 << uint((i+k)%8)
				try("bitflip("+gen.ClassOf(gen.RegionAt(s.Regions, i))+")", fmt.Sprintf("byte %d", i), b)
			}
		}
	}
}

func runC05(r *core.Run) {
	r.Rule = "signed bases from the generators (RouterInfo, LeaseSet, LeaseSet2, MetaLeaseSet, EncryptedLeaseSet, OfflineSignature) within 2 variations (thorough 3), signed by the reference model with standard-library keys of every verifiable type (Ed25519, RedDSA, DSA, P-256, P-384, Ed25519ph transient); for every base the forgery constructions (attacker transient key with zero/garbage authorisation, transplanted offline block - also the GENUINE block of a set verified just before in the same process, under another identity (verdicts must not depend on history) -, rewritten transient type, signed by another key, swapped identity key, wrong store-type prefix) and, for bases within 1 variation, the complete structure-aware operator menu and a bit flip in every byte (thorough: all 8 bits). Oracle: library verification success => VerifyRaw(received bytes) (identity key, exact bytes, prescribed prefix, authorised transient key). non-trivial = distinct inputs on which the library reported success and the oracle was evaluated"
	r.Assume("unforgeability of Ed25519/ECDSA/DSA (the check decides the verification logic: which key, which bytes, which prefix, which preconditions)",
		"VerifyRaw never parses the middle of a structure: identity at the front, offline block at its fixed place, signature = last siglen bytes")
	bound := 2
	if !r.Quick() {
		bound = 3
	}
	fams := map[string]bool{"RouterInfo": true, "LeaseSet": true, "LeaseSet2": true, "MetaLeaseSet": true, "EncryptedLeaseSet": true, "OfflineSignature": true}
	var st c05Stats
	for _, fg := range structFamilies {
		if !fams[fg.Family] {
			continue
		}
		fg := fg
		s, capped := choose.Explore(bound, core.Workers(), r.Expired, func(c *choose.Ctx) {
			sg, aux := fg.Gen(c)
			c05One(r, c.Worker, sg, aux, c.Describe(), len(c.Deviations()), !r.Quick(), &st)
		})
		r.States.Add(s.Points)
		r.Transitions.Add(s.Transitions)
		if capped {
			r.Capped.Store(true)
		}
	}
	// legacy LeaseSets whose (unused, but signed) revocation key is a degenerate value - all zero as some routers publish
	// it, one, all ones: whether such a set is accepted is the parser's business; if it is, every covered bit still counts
	for _, fill := range []struct {
		name string
		f    func(n int) []byte
	}{
		{"zero", func(n int) []byte { return make([]byte, n) }},
		{"one", func(n int) []byte { b := make([]byte, n); b[n-1] = 1; return b }},
		{"all-ones", func(n int) []byte { return bytes.Repeat([]byte{0xff}, n) }},
	} {
		fill := fill
		sx, capped := choose.Explore(1, core.Workers(), r.Expired, func(c *choose.Ctx) {
			sg := gen.LeaseSet(c)
			ls, ok := sg.Value.(refmodel.LeaseSet)
			if !ok || len(ls.SignKey) == 0 {
				return
			}
			ls.SignKey = fill.f(len(ls.SignKey))
			ls.Sig = nil
			var b refmodel.Buf
			ls.Emit(&b)
			ls.Sig = refmodel.Sign(sg.Signer, b.B)
			b = refmodel.Buf{}
			ls.Emit(&b)
			c05One(r, c.Worker, gen.Signed{Kind: "LeaseSet", Bytes: b.B, Regions: b.R, Value: ls, Signer: sg.Signer, IDKey: sg.IDKey}, 0, c.Describe()+"|revocation-key="+fill.name, len(c.Deviations()), !r.Quick(), &st)
		})
		r.States.Add(sx.Points)
		r.Transitions.Add(sx.Transitions)
		if capped {
			r.Capped.Store(true)
		}
	}
	r.Sample(map[string]any{"kind": "LeaseSet2", "derivation": "offline-forged(attacker-transient,zero-authorisation)"})
	r.Sample(map[string]any{"kind": "RouterInfo", "derivation": "grow(options.size,3): three junk bytes inside the options mapping, size bumped"})
}

func replayC05(r *core.Run, c core.Case) {
	var aux int
	fmt.Sscan(c.Args["aux"], &aux)
	if c.Kind == "verify-reuse" {
		c05TryReuse(r, 0, c.Args["kind"], core.UnHex(c.Args["input"]), core.UnHex(c.Args["genuine"]), aux, core.UnHex(c.Args["idkey"]), c.Args["class"], c.Args["detail"], c.Args["base"])
		return
	}
	c05Try(r, 0, c.Args["kind"], core.UnHex(c.Args["input"]), aux, core.UnHex(c.Args["idkey"]), c.Args["class"], c.Args["detail"], c.Args["base"], false)
}
