package checks

import (
	"bytes"
	"errors"
	"fmt"

	"verif/internal/adapt"
	"verif/internal/core"
	"verif/internal/refmodel"

	"github.com/go-i2p/common/key_certificate"
	"github.com/go-i2p/common/keys_and_cert"
	"github.com/go-i2p/crypto/types"
)

// rawSigningKey is a signing public key that is nothing but its bytes (the constructors only ask a key for its
// length and bytes).
type rawSigningKey []byte

func (k rawSigningKey) Len() int      { return len(k) }
func (k rawSigningKey) Bytes() []byte { return []byte(k) }
func (k rawSigningKey) NewVerifier() (types.Verifier, error) {
	return nil, errors.New("verification is not part of this check")
}

// c14WideKeys: the key types whose public key is wider than its inline field - ECDSA-P521 (132 bytes) and RSA
// (256 / 384 / 512 bytes) as signing types - with every crypto type the constructors build, and every padding the
// arithmetic suggests (nil, empty, max(0, 384-c-s) bytes). The reference model's wire grammar has no such identity
// (the excess lives in the certificate), so the oracle is C14's own chain on the library's values: constructor ok
// => Validate ok; Validate ok => Bytes ok, bytes parse back with empty remainder to the same bytes.
func c14WideKeys(r *core.Run) {
	cryptoKeys := map[int][]byte{4: refmodel.Fill("c14w.x", 1, 32), 0: func() []byte { b := refmodel.Fill("c14w.e", 1, 256); b[0] = 0x11; return b }()}
	for _, st := range []int{3, 4, 5, 6} {
		sl := refmodel.SigTable[st].PubLen
		for _, ct := range []int{4, 0} {
			kc, err := key_certificate.NewKeyCertificateWithTypes(st, ct)
			pk, err2 := adapt.CryptoPub(ct, cryptoKeys[ct])
			if err != nil || err2 != nil || kc == nil {
				continue
			}
			gap := 384 - len(cryptoKeys[ct]) - sl
			pads := map[string][]byte{"nil": nil, "empty": {}}
			if gap > 0 {
				pads["exact"] = refmodel.Fill("c14w.p", uint64(st), gap)
			}
			for pn, pad := range pads {
				r.Evaluations.Add(1)
				cs := core.Case{Kind: "widekeys", Args: map[string]string{"sig": fmt.Sprint(st), "crypto": fmt.Sprint(ct), "padding": pn}}
				cls := fmt.Sprintf("signing-key-wider-than-its-field[%d-byte key,crypto-type-%d]", sl, ct)
				var v *keys_and_cert.KeysAndCert
				var cerr error
				if pan, msg := core.Guard(func() {
					v, cerr = keys_and_cert.NewKeysAndCert(kc, pk, pad, rawSigningKey(refmodel.Fill("c14w.s", uint64(st), sl)))
				}); pan {
					r.Violate("C14|keys_and_cert.NewKeysAndCert|"+cls+"|constructor-panics", msg, cs)
					continue
				}
				if cerr != nil || v == nil {
					r.AddNote("wide_key_pairs_refused_by_the_constructor", 1)
					continue
				}
				r.Traces.Add(1)
				if verr := v.Validate(); verr != nil {
					r.Violate("C14|keys_and_cert.NewKeysAndCert|"+cls+"|constructor-accepts-what-validate-rejects", fmt.Sprintf("signing type %d / crypto type %d, padding %s: constructor ok, Validate: %v", st, ct, pn, verr), cs)
					continue
				}
				out, berr := v.Bytes()
				if berr != nil {
					r.Violate("C14|keys_and_cert.NewKeysAndCert|"+cls+"|valid-value-no-clean-roundtrip", fmt.Sprintf("signing type %d / crypto type %d, padding %s: validates, Bytes() fails: %v", st, ct, pn, berr), cs)
					continue
				}
				back, rem, perr := keys_and_cert.ReadKeysAndCert(append([]byte(nil), out...))
				var out2 []byte
				if perr == nil && back != nil {
					out2, _ = back.Bytes()
				}
				if perr != nil || len(rem) != 0 || !bytes.Equal(out2, out) {
					r.Violate("C14|keys_and_cert.NewKeysAndCert|"+cls+"|valid-value-no-clean-roundtrip", fmt.Sprintf("signing type %d / crypto type %d, padding %s: the constructor's value validates and serialises to %d bytes, which do not parse back (err %v, remainder %d, same bytes %v)", st, ct, pn, len(out), perr, len(rem), bytes.Equal(out2, out)), cs)
				}
				r.Distinct([]byte("widekeys"), []byte{byte(st), byte(ct)}, []byte(pn))
			}
		}
	}
}
