package checks

import (
	"fmt"
	"sort"
	"strings"
	"sync"

	"verif/internal/choose"
	"verif/internal/core"
	"verif/internal/gen"
	"verif/internal/refmodel"
)

// Input is one generated encoding handed to the oracles.
type Input struct {
	Family   string // structure family of the generator
	Bytes    []byte
	Class    string // "base" or the mutation class
	Detail   string
	Base     string // description of the base's non-default choices
	Devs     []string
	Vector   []int
	Regions  []refmodel.Region // regions of the *base* encoding
	BaseLen  int
	Aux      int // extra parser argument: destination sig type for OfflineSignature, sig type for Signature
	devClass string
}

func (in *Input) Case(parser string) core.Case {
	return core.Case{Kind: "parse", Args: map[string]string{
		"parser": parser, "family": in.Family, "class": in.Class, "detail": in.Detail, "base": in.Base,
		"vector": fmt.Sprint(in.Vector), "input": core.HexFull(in.Bytes), "devclass": in.DevClass(), "aux": fmt.Sprint(in.Aux), "baselen": fmt.Sprint(in.BaseLen),
	}}
}

// DevClass summarises the base's deviations as a stable class string (names only, sorted by position).
func (in *Input) DevClass() string {
	if in.devClass != "" {
		return in.devClass
	}
	if len(in.Devs) == 0 {
		return "defaults"
	}
	var out []string
	for _, d := range in.Devs {
		out = append(out, gen.ClassOf(d))
	}
	return strings.Join(out, "+")
}

type familyGen struct {
	Family string
	Gen    func(c *choose.Ctx) (gen.Signed, int)
}

func sg(f func(c *choose.Ctx) gen.Signed) func(c *choose.Ctx) (gen.Signed, int) {
	return func(c *choose.Ctx) (gen.Signed, int) { return f(c), 0 }
}

var structFamilies = []familyGen{
	{"KeysAndCert", sg(func(c *choose.Ctx) gen.Signed { return gen.Identity(c, gen.RoleDest) })},
	{"RouterInfo", sg(gen.RouterInfo)},
	{"LeaseSet", sg(gen.LeaseSet)},
	{"LeaseSet2", sg(gen.LeaseSet2)},
	{"MetaLeaseSet", sg(gen.MetaLeaseSet)},
	{"EncryptedLeaseSet", sg(gen.EncryptedLeaseSet)},
	{"OfflineSignature", gen.OfflineAlone},
	{"RouterAddress", sg(func(c *choose.Ctx) gen.Signed {
		a := gen.RouterAddress(c, "addr")
		var b refmodel.Buf
		a.Emit(&b, "addr")
		return gen.Signed{Kind: "RouterAddress", Bytes: b.B, Regions: b.R, Value: a}
	})},
	{"Certificate", sg(func(c *choose.Ctx) gen.Signed {
		t := []int{5, 0, 1, 2, 3, 4, 6, 255}[c.Pick("type", 8)]
		pl := [][]byte{{0, 7, 0, 4}, {}, {1}, {0, 7, 0, 4, 9}, refmodel.Fill("cp", 1, 40), refmodel.Fill("cp", 2, 72), refmodel.Fill("cp", 3, 41)}[c.Pick("payload", 7)]
		ct := refmodel.Cert{Type: t, Payload: pl}
		var b refmodel.Buf
		ct.Emit(&b, "cert")
		return gen.Signed{Kind: "Certificate", Bytes: b.B, Regions: b.R, Value: ct}
	})},
	{"Mapping", sg(func(c *choose.Ctx) gen.Signed {
		m := gen.Mapping(c, "mapping")
		var b refmodel.Buf
		b.EmitMapping("mapping", m)
		return gen.Signed{Kind: "Mapping", Bytes: b.B, Regions: b.R, Value: m}
	})},
	{"Lease", sg(func(c *choose.Ctx) gen.Signed {
		l := refmodel.Lease{TunnelID: []uint32{7, 0, 1<<32 - 1}[c.Pick("tunnel", 3)], EndMs: []uint64{gen.LeaseEndMs, 0, 1<<63 - 1, 1<<64 - 1}[c.Pick("end", 4)]}
		copy(l.Hash[:], refmodel.Fill("lh", 1, 32))
		var b refmodel.Buf
		b.Put("lease", l.Bytes())
		return gen.Signed{Kind: "Lease", Bytes: b.B, Regions: b.R, Value: l}
	})},
	{"Lease2", sg(func(c *choose.Ctx) gen.Signed {
		l := refmodel.Lease2{TunnelID: []uint32{7, 0, 1<<32 - 1}[c.Pick("tunnel", 3)], EndSec: []uint32{gen.LeaseEndSec, 0, 1<<31 - 1, 1 << 31, 1<<32 - 1}[c.Pick("end", 5)]}
		copy(l.Hash[:], refmodel.Fill("lh", 2, 32))
		var b refmodel.Buf
		b.Put("lease2", l.Bytes())
		return gen.Signed{Kind: "Lease2", Bytes: b.B, Regions: b.R, Value: l}
	})},
	{"Signature", func(c *choose.Ctx) (gen.Signed, int) {
		t := []int{7, 0, 1, 2, 3, 4, 8, 11}[c.Pick("type", 8)]
		var b refmodel.Buf
		b.Put("signature", refmodel.Fill("sg", uint64(t), refmodel.SigTable[t].SigLen))
		return gen.Signed{Kind: "Signature", Bytes: b.B, Regions: b.R}, t
	}},
	{"String", sg(func(c *choose.Ctx) gen.Signed { // length-prefixed strings at both ends of the one-byte length
		n := []int{3, 0, 1, 127, 128, 254, 255}[c.Pick("strlen", 7)]
		var b refmodel.Buf
		b.Span("str", func() {
			b.Put("len", []byte{byte(n)})
			b.Put("content", refmodel.Fill("str", uint64(n), n))
		})
		return gen.Signed{Kind: "String", Bytes: b.B, Regions: b.R}
	})},
	{"Fixed", sg(func(c *choose.Ctx) gen.Signed { // session key / tags / hash / date / integers: plain fixed-width fields
		n := []int{32, 8, 4, 2, 1}[c.Pick("width", 5)]
		var b refmodel.Buf
		b.Put("fixed", refmodel.Fill("fx", uint64(n), n))
		return gen.Signed{Kind: "Fixed", Bytes: b.B, Regions: b.R}
	})},
}

// parserFamiliesFor: which parser families are fed with inputs of a generator family (C01/C03;
// C04 feeds everything to everyone).
func parserFamiliesFor(fam string, aux int) []string {
	switch fam {
	case "KeysAndCert":
		return []string{"KeysAndCert", "Destination", "RouterIdentity"}
	case "RouterInfo":
		return []string{"RouterInfo", "RouterIdentity", "KeysAndCert"}
	case "LeaseSet":
		return []string{"LeaseSet", "Destination", "KeysAndCert"}
	case "LeaseSet2":
		return []string{"LeaseSet2", "Destination"}
	case "MetaLeaseSet":
		return []string{"MetaLeaseSet", "Destination"}
	case "EncryptedLeaseSet":
		return []string{"EncryptedLeaseSet"}
	case "OfflineSignature":
		return []string{fmt.Sprintf("OfflineSignature[%d]", aux)}
	case "RouterAddress":
		return []string{"RouterAddress"}
	case "Certificate":
		return []string{"Certificate", "KeyCertificate"}
	case "Mapping":
		return []string{"Mapping"}
	case "Lease":
		return []string{"Lease"}
	case "Lease2":
		return []string{"Lease2"}
	case "Signature":
		return []string{fmt.Sprintf("Signature[%d]", aux), fmt.Sprintf("Signature[%d]Exact", aux)}
	case "String":
		return []string{"I2PString", "I2PStringExact"}
	case "Fixed":
		return []string{"SessionKey", "SessionTag", "SessionTagExact", "ECIESSessionTag", "ECIESSessionTagExact", "Hash", "HashExact", "Date", "Integer[1]", "Integer[2]", "Integer[4]", "Integer[8]", "IntegerExact", "I2PString", "I2PStringExact"}
	}
	return nil
}

type enumOpts struct {
	BaseBound   int  // deviation bound for base structures
	MutateBound int  // bases with at most this many deviations are also mutated
	AllCuts     bool // truncate at every offset (else region boundaries +-1)
	Families    []string
}

// enumerateInputs drives E1 over every structure family and applies the mutation operators.
// Bases are first collected by the explorer (cheap), then expanded and visited in parallel,
// largest first, so that a few big structures do not serialise the run. visit is called
// concurrently from several workers.
func enumerateInputs(r *core.Run, o enumOpts, visit func(worker int, in *Input)) {
	want := map[string]bool{}
	for _, f := range o.Families {
		want[f] = true
	}
	var mu sync.Mutex
	var bases []*Input
	for _, fg := range structFamilies {
		if len(want) > 0 && !want[fg.Family] {
			continue
		}
		fg := fg
		st, capped := choose.Explore(o.BaseBound, core.Workers(), r.Expired, func(c *choose.Ctx) {
			s, aux := fg.Gen(c)
			in := &Input{Family: fg.Family, Bytes: s.Bytes, Class: "base", Base: c.Describe(), Devs: c.Deviations(), Vector: c.Vector(), Regions: s.Regions, BaseLen: len(s.Bytes), Aux: aux}
			mu.Lock()
			bases = append(bases, in)
			mu.Unlock()
		})
		r.States.Add(st.Points)
		r.Transitions.Add(st.Transitions)
		r.AddNote("base_structures", st.Executions)
		if capped {
			r.Capped.Store(true)
		}
	}
	cost := func(in *Input) int {
		if len(in.Devs) <= o.MutateBound {
			return len(in.Bytes) * (len(in.Regions) + 8)
		}
		return len(in.Bytes)
	}
	sort.SliceStable(bases, func(i, j int) bool { return cost(bases[i]) > cost(bases[j]) })
	core.ParallelFor(len(bases), func(worker, i int) {
		if r.Expired() {
			return
		}
		in := bases[i]
		visit(worker, in)
		if len(in.Devs) <= o.MutateBound {
			gen.Mutations(in.Bytes, in.Regions, o.AllCuts, func(class, detail string, b []byte) {
				m := *in
				m.Bytes, m.Class, m.Detail = b, class, detail
				visit(worker, &m)
			})
		}
	})
}

// replayInput rebuilds an Input from a recorded case.
func replayInput(c core.Case) *Input {
	in := &Input{Family: c.Args["family"], Bytes: core.UnHex(c.Args["input"]), Class: c.Args["class"], Detail: c.Args["detail"], Base: c.Args["base"], devClass: c.Args["devclass"]}
	fmt.Sscan(c.Args["aux"], &in.Aux)
	return in
}
