package checks

import (
	"bytes"
	"fmt"
	"os"
	"strings"
	"sync/atomic"

	"verif/internal/adapt"
	"verif/internal/core"
)

func init() { register("C01", runC01, replayC01) }

// c01Check applies the round-trip oracle to one (parser, input). Returns true when the parser accepted.
func c01Check(r *core.Run, worker int, p adapt.Parser, in *Input) bool {
	var res adapt.Parsed
	r.Begin(worker, func() string { return p.Name + " " + core.HexFull(in.Bytes) })
	panicked, _ := core.Guard(func() { res = p.Fn(in.Bytes) })
	r.End(worker)
	r.Evaluations.Add(1)
	if panicked {
		r.AddNote("parser_panics_ignored_here_reported_by_C04", 1)
		return false
	}
	if !res.OK || res.Ser == nil {
		return false
	}
	id := fmt.Sprintf("C01|%s|%s|%s|%s", p.Name, in.Family, in.Class, in.DevClass())
	if res.HasRem && len(res.Rem) > len(in.Bytes) {
		r.Violate(id+"|remainder-longer-than-input", fmt.Sprintf("%s: remainder %d bytes from %d-byte input (%s; %s)", p.Name, len(res.Rem), len(in.Bytes), in.Detail, in.Base), in.Case(p.Name))
		return true
	}
	var ser []byte
	var err error
	pan, msg := core.Guard(func() { ser, err = res.Ser() })
	r.Traces.Add(1)
	if pan {
		r.Violate(id+"|serialise-panics", fmt.Sprintf("%s accepted the input but serialising the value panics: %s (%s; %s)", p.Name, msg, in.Detail, in.Base), in.Case(p.Name))
		return true
	}
	if err != nil {
		r.Violate(id+"|serialise-fails", fmt.Sprintf("%s accepted the input but serialising the value fails: %v (%s; %s)", p.Name, err, in.Detail, in.Base), in.Case(p.Name))
		return true
	}
	if res.HasRem {
		consumed := in.Bytes[:len(in.Bytes)-len(res.Rem)]
		if !bytes.Equal(ser, consumed) {
			r.Violate(id+"|reserialise-differs", fmt.Sprintf("%s consumed %d bytes but re-serialises to %d bytes, first difference at %d (%s; %s)", p.Name, len(consumed), len(ser), firstDiff(ser, consumed), in.Detail, in.Base), in.Case(p.Name))
		}
	} else {
		// no remainder reported: the serialisation must be a prefix of the input, and all of it
		// for a base encoding (nothing appended, nothing resized)
		if !bytes.HasPrefix(in.Bytes, ser) || (in.Class == "base" && len(ser) != len(in.Bytes)) {
			r.Violate(id+"|reserialise-differs", fmt.Sprintf("%s re-serialises %d input bytes to %d bytes, first difference at %d (%s; %s)", p.Name, len(in.Bytes), len(ser), firstDiff(ser, in.Bytes), in.Detail, in.Base), in.Case(p.Name))
		}
	}
	// history: any exported call on the parsed value (every method x the argument menu; the three
	// documented mutators excluded) between parsing and serialising leaves the serialisation alone.
	// Done for base encodings (the mutated ones differ from a base in one field only).
	if strings.HasPrefix(in.Class, "base") && res.Val != nil {
		core.Guard(func() { adapt.CallMethods(res.Val, true, mutatorNames, func(adapt.CallOutcome) {}) })
		var ser2 []byte
		var err2 error
		if pan, _ := core.Guard(func() { ser2, err2 = res.Ser() }); pan || err2 != nil || !bytes.Equal(ser2, ser) {
			r.Violate(fmt.Sprintf("C01|%s|%s|reserialise-differs-after-read-only-calls", p.Name, in.Family), fmt.Sprintf("%s: after calling the value's exported methods (mutators excluded) its serialisation changed: panic=%v err=%v, first difference at %d (%s; %s)", p.Name, pan, err2, firstDiff(ser2, ser), in.Detail, in.Base), in.Case(p.Name))
		}
		r.Evaluations.Add(1)
	}
	if in.Class == "base" || len(in.Bytes) < 600 {
		r.Distinct([]byte(p.Name), in.Bytes)
	} else {
		r.Distinct([]byte(p.Name), []byte(in.Class), []byte(in.Base), []byte(in.Detail))
	}
	return true
}

func firstDiff(a, b []byte) int {
	n := len(a)
	if len(b) < n {
		n = len(b)
	}
	for i := 0; i < n; i++ {
		if a[i] != b[i] {
			return i
		}
	}
	return n
}

func runC01(r *core.Run) {
	r.Rule = "E1: every structure family's generator explored at deviation bound B (quick 2, thorough 3) — legal variations of key types, certificate forms, counts, flags, offline blocks, options — and every base with <= M deviations (quick 1, thorough 2) expanded by the complete menu of structure-aware byte operators (set/flip/zero/ones/ins/del/grow/addpair/breakdelim/cut/append); E3: all byte strings over reduced alphabets up to length L for the mapping, certificate and string parsers. Each input goes to every parser of its family. non-trivial = distinct (parser, input) pairs the parser ACCEPTED and whose serialisation was compared with the consumed bytes"
	r.Assume("acceptance for the error-list mapping parsers = no error other than the 'data exists beyond length of mapping' warning (the library's own embedding callers' rule)",
		"serialiser per type: Bytes(), Data() for Mapping, the raw slice for Integer/I2PString")
	o := enumOpts{BaseBound: 2, MutateBound: 1}
	if !r.Quick() {
		o = enumOpts{BaseBound: 3, MutateBound: 2, AllCuts: true}
	}
	var sampled [64]bool
	enumerateInputs(r, o, func(worker int, in *Input) {
		for _, fam := range parserFamiliesFor(in.Family, in.Aux) {
			for _, p := range adapt.ByFamily(fam) {
				if c01Check(r, worker, p, in) && worker < 64 && !sampled[worker] && in.Class != "base" && len(in.Bytes) < 200 {
					sampled[worker] = true
					r.Sample(map[string]any{"parser": p.Name, "class": in.Class, "detail": in.Detail, "input": core.Hex(in.Bytes)})
				}
			}
		}
	})
	byteWalk(r, 0, func(worker int, fam string, b []byte) {
		in := &Input{Family: fam, Bytes: b, Class: "bytewalk"}
		for _, p := range adapt.ByFamily(fam) {
			c01Check(r, worker, p, in)
		}
	})
	lifetimesC01(r)
	c01DebugLogging(r)
}

// c01DebugLogging: the round-trip oracle under the other setting of the logging environment {silent, debug}: code
// gated on the log level (diagnostics that format - and may append to, re-slice or sort - what they log) runs only
// then. Every base within one deviation (thorough: two) through every parser of its family; output discarded.
func c01DebugLogging(r *core.Run) {
	c20SetLogging(true)
	defer c20SetLogging(false)
	was, had := os.LookupEnv("VERIF_WORKERS")
	os.Setenv("VERIF_WORKERS", "2") // logrus serialises messages behind one mutex
	defer func() {
		if had {
			os.Setenv("VERIF_WORKERS", was)
		} else {
			os.Unsetenv("VERIF_WORKERS")
		}
	}()
	o := enumOpts{BaseBound: 1, MutateBound: -1}
	if !r.Quick() {
		o.BaseBound = 2
	}
	var n int64
	enumerateInputs(r, o, func(worker int, in *Input) {
		d := *in
		d.Class = in.Class + "[debug-logging]"
		for _, fam := range parserFamiliesFor(in.Family, in.Aux) {
			for _, p := range adapt.ByFamily(fam) {
				c01Check(r, worker, p, &d)
				atomic.AddInt64(&n, 1)
			}
		}
	})
	r.Note("debug_logging_pass_parses", n)
}

func replayC01(r *core.Run, c core.Case) {
	if c.Kind == "lifetimes" {
		replayLifetimes(r, c)
		return
	}
	p, ok := adapt.ByName(c.Args["parser"])
	if !ok {
		return
	}
	c01Check(r, 0, p, replayInput(c))
}
