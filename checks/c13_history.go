package checks

import (
	"bytes"
	"fmt"

	"verif/internal/core"
	"verif/internal/refmodel"

	"github.com/go-i2p/common/base32"
	"github.com/go-i2p/common/base64"
)

// c13History: E4 over the codec entry points. Every sequence of up to depth calls over the alphabet
// {6 encoders x 4 inputs, 6 decoders x 3 texts}, on one goroutine, keeping every result WITHOUT
// copying it. After every step the invariant is evaluated on the whole history: every string / byte
// slice returned earlier still equals the reference value it had when it was returned (a result
// that shares a pooled or cached buffer with a later call changes under the caller's feet).
func c13History(r *core.Run, depth int) {
	type op struct {
		name  string
		run   func() (string, []byte) // result as string (encoders) or bytes (decoders)
		wantS string
		wantB []byte
	}
	// the 32-byte input is the I2P case that matters most: a hash, whose unpadded base32 is the 52-character address label
	inputs := [][]byte{{1, 2, 3, 4, 5}, {9, 8, 7, 6, 5}, {0xff, 0, 0xff, 0, 0xff, 0, 0x7f}, refmodel.Fill("c13h32", 1, 32), refmodel.Fill("c13h", 1, 640)}
	var ops []op
	for _, x := range inputs {
		x := x
		e32, e32n, e64 := refmodel.B32Encode(x, true), refmodel.B32Encode(x, false), refmodel.B64Encode(x)
		ops = append(ops,
			op{"base32.EncodeToString", func() (string, []byte) { return base32.EncodeToString(x), nil }, e32, nil},
			op{"base32.EncodeToStringNoPadding", func() (string, []byte) { return base32.EncodeToStringNoPadding(x), nil }, e32n, nil},
			op{"base64.EncodeToString", func() (string, []byte) { return base64.EncodeToString(x), nil }, e64, nil},
			op{"base32.EncodeToStringSafe", func() (string, []byte) { s, _ := base32.EncodeToStringSafe(x); return s, nil }, e32, nil},
			op{"base64.EncodeToStringSafe", func() (string, []byte) { s, _ := base64.EncodeToStringSafe(x); return s, nil }, e64, nil},
		)
	}
	for _, x := range inputs[:4] {
		x := x
		e32, e32n, e64 := refmodel.B32Encode(x, true), refmodel.B32Encode(x, false), refmodel.B64Encode(x)
		ops = append(ops,
			op{"base32.DecodeString", func() (string, []byte) { b, _ := base32.DecodeString(e32); return "", b }, "", x},
			op{"base32.DecodeStringNoPadding", func() (string, []byte) { b, _ := base32.DecodeStringNoPadding(e32n); return "", b }, "", x},
			op{"base64.DecodeString", func() (string, []byte) { b, _ := base64.DecodeString(e64); return "", b }, "", x},
			op{"base32.DecodeStringSafe", func() (string, []byte) { b, _ := base32.DecodeStringSafe(e32); return "", b }, "", x},
			op{"base64.DecodeStringSafe", func() (string, []byte) { b, _ := base64.DecodeStringSafe(e64); return "", b }, "", x},
		)
	}
	// one more operation: the caller overwrites every byte slice it was handed so far (they are its own);
	// a later decode of the same text must still return the reference bytes
	scribble := len(ops)
	ops = append(ops, op{name: "caller-overwrites-its-results"})
	type held struct {
		op   int
		s    string
		b    []byte
		gone bool
	}
	var seqs int64
	first := make([]int, len(ops))
	for i := range first {
		first[i] = i
	}
	counts := make([]int64, len(ops))
	core.ParallelFor(len(ops), func(_, f int) {
		var rec func(seq []int)
		rec = func(seq []int) {
			counts[f]++
			var hs []held
			for step, oi := range seq {
				if oi == scribble {
					for k := range hs {
						for i := range hs[k].b {
							hs[k].b[i] = 0xA5
						}
						hs[k].gone = hs[k].gone || hs[k].b != nil
					}
					continue
				}
				s, b := ops[oi].run()
				hs = append(hs, held{oi, s, b, false})
				for hi, h := range hs {
					if h.gone {
						continue
					}
					o := ops[h.op]
					if h.s != o.wantS || !bytes.Equal(h.b, o.wantB) {
						names := make([]string, len(seq))
						for i, x := range seq {
							names[i] = ops[x].name
						}
						cl := "result-differs-from-reference"
						if hi < len(hs)-1 {
							cl = "earlier-result-changed-by-a-later-call"
						}
						r.Violate("C13|history|"+cl+"|"+o.name, fmt.Sprintf("sequence %v: after step %d the result of step %d (%s) is %q / %x, reference %q / %x", names, step, hi, o.name, h.s, h.b, o.wantS, o.wantB),
							core.Case{Kind: "sweep", Args: map[string]string{"fn": o.name, "input": fmt.Sprint(seq)}})
						return
					}
				}
			}
			if len(seq) < depth {
				for o := range ops {
					rec(append(append([]int(nil), seq...), o))
				}
			}
		}
		rec([]int{f})
	})
	for _, c := range counts {
		seqs += c
	}
	r.Evaluations.Add(seqs)
	r.Note("history_sequences", seqs)
	r.Note("history_depth", depth)
	r.Distinct([]byte("history"), []byte{byte(depth), byte(len(ops))})
}
