//go:build vinstr

package checks

import (
	"fmt"

	"verif/internal/snap"
)

// C18Debug prints which globals / receiver snapshot change across one operation.
func C18Debug() {
	vals := c18Values()
	v := vals[0]
	ops := c18Ops(v)
	g := allGlobals()
	before := map[string][32]byte{}
	for k, p := range g {
		before[k] = snap.Hash(p, c18SnapOpts)
	}
	rb := snap.Hash(v.v, c18SnapOpts)
	ops[0].run()
	for k, p := range g {
		if snap.Hash(p, c18SnapOpts) != before[k] {
			fmt.Printf("global %s changed (%T)\n", k, p)
		}
	}
	if snap.Hash(v.v, c18SnapOpts) != rb {
		fmt.Println("receiver changed")
	}
	h1 := snap.Hash(g, c18SnapOpts)
	h2 := snap.Hash(g, c18SnapOpts)
	fmt.Println("stable across two snapshots without op:", h1 == h2)
}
