package checks

import (
	"bytes"
	"fmt"

	"verif/internal/core"
	"verif/internal/refmodel"

	"github.com/go-i2p/common/certificate"
)

// E4 on the only stateful entry point of the property: every sequence of CertificateBuilder
// operations up to a depth, each on a fresh builder, against a last-writer-wins reference model
// of what the builder's documentation states (WithType sets the type; WithKeyTypes sets type KEY
// and a payload generated from the types; WithPayload overrides any generated payload; Build
// creates the certificate; Validate and Build do not change the configuration). The oracle of
// every sequence is the direct constructor on the model's (type, payload), in acceptance and in
// bytes, plus: certificates handed out by an earlier Build are unchanged by later operations.

type c19BOp struct {
	name string
	kind int // 0 WithType, 1 WithPayload, 2 WithKeyTypes, 3 Build, 4 Validate
	t    uint8
	p    []byte
	s, c int
}

type c19BModel struct {
	typ     int
	src     int // 0 none, 1 explicit, 2 from types
	payload []byte
	s, c    int
}

func (m c19BModel) effective() []byte {
	switch m.src {
	case 1:
		return m.payload
	case 2:
		return refmodel.KeyCertPayload(m.s, m.c, nil)
	}
	return nil
}

func c19BuilderOps() []c19BOp {
	junk40 := refmodel.Fill("bj", 1, 40)
	return []c19BOp{
		{name: "Build", kind: 3},
		{name: "WithKeyTypes(7,4)", kind: 2, s: 7, c: 4},
		{name: "WithKeyTypes(7,0)", kind: 2, s: 7, c: 0},
		{name: "WithPayload(0007 0004)", kind: 1, p: []byte{0, 7, 0, 4}},
		{name: "WithPayload(nil)", kind: 1, p: nil},
		{name: "WithPayload(9 9)", kind: 1, p: []byte{9, 9}},
		{name: "WithPayload(40 bytes)", kind: 1, p: junk40},
		{name: "WithType(KEY)", kind: 0, t: certificate.CERT_KEY},
		{name: "WithType(NULL)", kind: 0, t: certificate.CERT_NULL},
		{name: "WithType(SIGNED)", kind: 0, t: certificate.CERT_SIGNED},
		{name: "WithType(HIDDEN)", kind: 0, t: certificate.CERT_HIDDEN},
		{name: "WithType(9)", kind: 0, t: 9},
		{name: "WithKeyTypes(-1,4)", kind: 2, s: -1, c: 4},
		{name: "WithKeyTypes(65543,4)", kind: 2, s: 65543, c: 4},
		{name: "Validate", kind: 4},
	}
}

func validCertTypeRef(t int) bool { return t >= 0 && t <= 5 }

// c19RunBuilderSeq executes one sequence; returns a violation clause and detail ("" if fine).
func c19RunBuilderSeq(ops []c19BOp, seq []int) (clause, detail string) {
	b := certificate.NewCertificateBuilder()
	m := c19BModel{typ: certificate.CERT_NULL}
	type issued struct {
		c    *certificate.Certificate
		copy []byte
		at   int
	}
	var held []issued
	build := func(step int) (string, string) {
		built, berr := b.Build()
		direct, derr := certificate.NewCertificateWithType(uint8(m.typ), m.effective())
		// KEY without any payload source: the builder documents an error of its own
		if m.typ == certificate.CERT_KEY && m.src == 0 {
			if berr == nil {
				return "acceptance", fmt.Sprintf("step %d: Build succeeds for a KEY certificate with neither key types nor payload", step)
			}
			return "", ""
		}
		if (berr == nil) != (derr == nil) {
			return "acceptance", fmt.Sprintf("step %d: Build err=%v, NewCertificateWithType(%d, %s) err=%v", step, berr, m.typ, core.Hex(m.effective()), derr)
		}
		if berr != nil {
			return "", ""
		}
		want := refmodel.Cert{Type: m.typ, Payload: m.effective()}.Bytes()
		if !bytes.Equal(built.Bytes(), direct.Bytes()) || !bytes.Equal(built.Bytes(), want) {
			return "bytes", fmt.Sprintf("step %d: Build gives %s, NewCertificateWithType(%d, %s) gives %s", step, core.Hex(built.Bytes()), m.typ, core.Hex(m.effective()), core.Hex(direct.Bytes()))
		}
		held = append(held, issued{built, append([]byte(nil), built.Bytes()...), step})
		return "", ""
	}
	for step, oi := range seq {
		op := ops[oi]
		switch op.kind {
		case 0:
			_, err := b.WithType(op.t)
			if validCertTypeRef(int(op.t)) {
				if err != nil {
					return "acceptance", fmt.Sprintf("step %d: %s refused: %v", step, op.name, err)
				}
				m.typ = int(op.t)
			} else if err == nil {
				return "acceptance", fmt.Sprintf("step %d: %s accepted", step, op.name)
			}
		case 1:
			b.WithPayload(op.p)
			m.src, m.payload = 1, op.p
		case 2:
			_, err := b.WithKeyTypes(op.s, op.c)
			ok := op.s >= 0 && op.c >= 0 && op.s <= 65535 && op.c <= 65535 // BuildKeyTypePayload's and NewKeyCertificateWithTypes' domain
			if ok {
				if err != nil {
					return "acceptance", fmt.Sprintf("step %d: %s refused: %v", step, op.name, err)
				}
				m.typ, m.src, m.s, m.c = certificate.CERT_KEY, 2, op.s, op.c
			} else if err == nil {
				return "acceptance[key-type-range]", fmt.Sprintf("step %d: %s accepted by the builder; BuildKeyTypePayload and NewKeyCertificateWithTypes refuse these types", step, op.name)
			}
		case 3:
			if cl, d := build(step); cl != "" {
				return cl, d
			}
		case 4:
			err := b.Validate()
			wantErr := !validCertTypeRef(m.typ) || (m.typ == certificate.CERT_KEY && m.src == 0)
			if (err != nil) != wantErr {
				return "validate", fmt.Sprintf("step %d: Validate err=%v, expected error: %v", step, err, wantErr)
			}
		}
		for _, h := range held {
			if !bytes.Equal(h.c.Bytes(), h.copy) {
				return "earlier-certificate-changed", fmt.Sprintf("the certificate built at step %d changed after step %d (%s)", h.at, step, op.name)
			}
		}
	}
	// every sequence ends with an (additional) Build: the state reached is judged, not only the calls made
	if cl, d := build(len(seq)); cl != "" {
		return cl, d
	}
	for _, h := range held {
		if !bytes.Equal(h.c.Bytes(), h.copy) {
			return "earlier-certificate-changed", fmt.Sprintf("the certificate built at step %d changed after the final Build", h.at)
		}
	}
	return "", ""
}

func c19BuilderSequences(r *core.Run, depth int) {
	ops := c19BuilderOps()
	var first [][]int
	for a := range ops {
		first = append(first, []int{a})
	}
	var total int64
	var rec func(seq []int) int64
	rec = func(seq []int) int64 {
		n := int64(1)
		cl, detail := "", ""
		if pan, msg := core.Guard(func() { cl, detail = c19RunBuilderSeq(ops, seq) }); pan {
			cl, detail = "panic", msg
		}
		if cl != "" {
			names := make([]string, len(seq))
			for i, o := range seq {
				names[i] = ops[o].name
			}
			id := "C19|CertificateBuilder(sequence)~direct|" + cl
			r.Violate(id, fmt.Sprintf("%v: %s", names, detail), core.Case{Kind: "builderseq", Args: map[string]string{"seq": fmt.Sprint(seq), "ops": fmt.Sprint(names)}})
			return n // a sequence that already disagrees is not extended
		}
		if len(seq) < depth {
			for o := range ops {
				n += rec(append(append([]int(nil), seq...), o))
			}
		}
		return n
	}
	res := make([]int64, len(first))
	core.ParallelFor(len(first), func(_, i int) { res[i] = rec(first[i]) })
	for _, n := range res {
		total += n
	}
	if cl, detail := c19RunBuilderSeq(ops, nil); cl != "" {
		r.Violate("C19|CertificateBuilder(sequence)~direct|"+cl, "[]: "+detail, core.Case{Kind: "builderseq", Args: map[string]string{"seq": "[]"}})
	}
	total++
	r.States.Add(total)
	r.Transitions.Add(total)
	r.Traces.Add(total)
	r.Evaluations.Add(total)
	r.Note("builder_operation_sequences", total)
	r.Note("builder_sequence_depth", depth)
	r.Distinct([]byte("builderseq"), []byte{byte(depth), byte(len(ops))})
}
