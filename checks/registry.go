// Package checks holds the oracle of each property.
package checks

import "verif/internal/core"

// Check explores a property and records violations in r.
type Check struct {
	Run    func(r *core.Run)
	Replay func(r *core.Run, c core.Case) // re-executes one recorded case (twice, by the caller)
}

var Registry = map[string]Check{}

func register(id string, run func(*core.Run), replay func(*core.Run, core.Case)) {
	Registry[id] = Check{run, replay}
}
