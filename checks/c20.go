package checks

import (
	"io"
	"os"

	"fmt"
	"github.com/go-i2p/logger"
	"reflect"
	"strings"

	"verif/internal/adapt"
	"verif/internal/core"
	"verif/internal/registry"
)

func init() { register("C20", runC20, replayC20) }

// verifySucceeded: did a Verify*/VerifySignature call report success?
func verifySucceeded(method string, out []reflect.Value) bool {
	if !strings.HasPrefix(method, "Verify") {
		return false
	}
	if len(out) == 0 {
		return false
	}
	last := out[len(out)-1]
	if last.Type().String() == "error" {
		if !last.IsNil() {
			return false
		}
		if len(out) == 2 && out[0].Kind() == reflect.Bool {
			return out[0].Bool()
		}
		return true
	}
	if last.Kind() == reflect.Bool {
		return last.Bool()
	}
	return false
}

// c20Debug: the process-wide logging level is part of the environment the property quantifies over
// ("returns normally" must not depend on DEBUG_I2P). Both settings of the two-element menu {silent (default),
// debug} are explored; output stays discarded. Set only between passes.
var c20Debug bool

func c20SetLogging(debug bool) {
	c20Debug = debug
	l := logger.GetGoI2PLogger()
	l.Logger.SetOutput(io.Discard)
	if debug {
		l.SetLevel(logger.DebugLevel)
	} else {
		l.SetLevel(logger.PanicLevel)
	}
}

func c20Call(r *core.Run, v any, origin string, cs core.Case) {
	if c20Debug {
		origin += " [debug logging enabled]"
		args := map[string]string{"logging": "debug"}
		for k, x := range cs.Args {
			args[k] = x
		}
		cs = core.Case{Kind: cs.Kind, Args: args}
	}
	called, _ := adapt.CallMethods(v, false, mutatorNames, func(o adapt.CallOutcome) {
		if o.Panicked {
			r.Violate("C20|panic|"+o.Type+"."+o.Method+"|"+origin, fmt.Sprintf("(%s).%s() panics on %s: %s", o.Type, o.Method, origin, o.Msg), cs)
			return
		}
		if verifySucceeded(o.Method, o.Out) {
			r.Violate("C20|verify-succeeds|"+o.Type+"."+o.Method+"|"+origin, fmt.Sprintf("(%s).%s() reports success on %s", o.Type, o.Method, origin), cs)
		}
	})
	r.Evaluations.Add(int64(called))
	r.Transitions.Add(int64(called))
}

func runC20(r *core.Run) {
	r.Rule = "(a) every exported named type found in /repo's current tree by the registry scan x {T{}, &T{}} x every exported argument-free method (promoted methods included) — exhaustive by reflection; (b) every base encoding within 1 (thorough 2) deviations x every cut point (quick: every field boundary and its neighbours; thorough: every offset) x every parser of the family: the value returned together with the error x every argument-free method. Oracle: no panic; Verify*/VerifySignature never reports success. states = (type or partial value) instances, transitions = method calls. non-trivial = distinct (type, origin) zero values and distinct (parser, base, cut) partial values whose methods were called"
	r.Assume("nil pointers returned together with an error are not values of the structure type and are not called through; mutating methods (AddAddress, SetBytes, Zero) are excluded")
	defer c20SetLogging(false)
	for _, dbg := range []bool{false, true} {
		c20SetLogging(dbg)
		if dbg {
			// logrus serialises every message behind one mutex: more than two workers only contend
			was, had := os.LookupEnv("VERIF_WORKERS")
			os.Setenv("VERIF_WORKERS", "2")
			c20Pass(r)
			if had {
				os.Setenv("VERIF_WORKERS", was)
			} else {
				os.Unsetenv("VERIF_WORKERS")
			}
			continue
		}
		c20Pass(r)
	}
	r.Sample(map[string]any{"type": "router_info.RouterInfo", "receivers": []string{"RouterInfo{}", "&RouterInfo{}"}, "methods": "all exported argument-free", "logging": []string{"silent", "debug"}})
	r.Sample(map[string]any{"partial": "lease_set2.ReadLeaseSet2 on a base cut at every offset / with every structure-aware mutation", "methods": "all exported argument-free incl. Verify"})
}

func c20Pass(r *core.Run) {
	for _, t := range registry.Types {
		ptr := reflect.ValueOf(t.Ptr) // *T pointing at zero
		cs := core.Case{Kind: "zero", Args: map[string]string{"type": t.Name}}
		// &T{}
		c20Call(r, ptr.Interface(), "zero value &"+t.Name+"{}", cs)
		// T{} (value): CallMethods re-wraps in a fresh pointer; same method set, separate instance
		c20Call(r, ptr.Elem().Interface(), "zero value "+t.Name+"{}", cs)
		r.States.Add(2)
		r.Distinct([]byte(t.Name))
	}
	r.Note("exported_types_found", len(registry.Types))
	o := enumOpts{BaseBound: 1, MutateBound: 1, AllCuts: false}
	if !r.Quick() {
		o = enumOpts{BaseBound: 2, MutateBound: 2, AllCuts: true}
	}
	if c20Debug {
		// debug-level logging formats every message: the pass is kept to the default bases and their cuts
		// (thorough: bases within one deviation)
		o = enumOpts{BaseBound: 0, MutateBound: 0, AllCuts: false}
		if !r.Quick() {
			o = enumOpts{BaseBound: 1, MutateBound: 1, AllCuts: false}
		}
	}
	enumerateInputs(r, o, func(worker int, in *Input) {
		// every input of the bounded space that a parser REJECTS while still returning a value: truncations
		// of every base, and every structure-aware mutation (unknown type codes, broken counts and lengths, ...)
		// of the default bases (thorough: of every base within one deviation)
		if in.Class != "cut" && in.Class != "base" && (c20Debug || len(in.Devs) > 0 && r.Quick() || len(in.Devs) > 1) {
			return
		}
		for _, fam := range parserFamiliesFor(in.Family, in.Aux) {
			for _, p := range adapt.ByFamily(fam) {
				var res adapt.Parsed
				r.Begin(worker, func() string {
					return p.Name + " (and the methods of the value it returns) input=" + core.Hex(in.Bytes)
				})
				if pan, _ := core.Guard(func() { res = p.Fn(in.Bytes) }); pan {
					r.End(worker)
					continue
				}
				if res.OK || res.Val == nil {
					r.End(worker)
					continue
				}
				rv := reflect.ValueOf(res.Val)
				if rv.Kind() == reflect.Ptr && rv.IsNil() {
					r.End(worker)
					continue // a nil pointer is not a (partial) value of the structure type
				}
				origin := "the value " + p.Name + " returns together with an error"
				c20Call(r, res.Val, origin, in.Case(p.Name))
				r.End(worker)
				r.States.Add(1)
				r.Traces.Add(1)
				_ = rv
				r.Distinct([]byte(p.Name), []byte(in.Base), []byte{byte(len(in.Bytes) >> 8), byte(len(in.Bytes))})
			}
		}
	})
}

func replayC20(r *core.Run, c core.Case) {
	c20SetLogging(c.Args["logging"] == "debug")
	defer c20SetLogging(false)
	switch c.Kind {
	case "zero":
		for _, t := range registry.Types {
			if t.Name == c.Args["type"] {
				ptr := reflect.ValueOf(t.Ptr)
				c20Call(r, ptr.Interface(), "zero value &"+t.Name+"{}", c)
				c20Call(r, ptr.Elem().Interface(), "zero value "+t.Name+"{}", c)
			}
		}
	case "parse":
		p, ok := adapt.ByName(c.Args["parser"])
		if !ok {
			return
		}
		in := replayInput(c)
		var res adapt.Parsed
		if pan, _ := core.Guard(func() { res = p.Fn(in.Bytes) }); pan || res.OK || res.Val == nil {
			return
		}
		c20Call(r, res.Val, "the value "+p.Name+" returns together with an error", c)
	}
}
