package checks

import (
	"bytes"
	"fmt"
	"github.com/go-i2p/common/data"

	"github.com/go-i2p/common/signature"

	"verif/internal/core"
	"verif/internal/refmodel"
)

// c19SignatureSweep: the three signature constructors (ReadSignature, NewSignature,
// NewSignatureFromBytes) and SignatureSize on EVERY type code -2..65536 and a length menu that
// brackets every signature size of the specification: same accept/reject, same bytes, same
// remainder. The per-type pairs of c19ParserPairs only cover the eight implemented codes; a table
// or fast path added to one constructor shows on the codes the others refuse.
func c19SignatureSweep(r *core.Run) {
	lens := []int{0, 1, 39, 40, 41, 63, 64, 65, 95, 96, 97, 127, 128, 129, 131, 132, 133, 255, 256, 257, 383, 384, 385, 511, 512, 513, 1024, 5000}
	pool := refmodel.Fill("sigsweep", 1, 5000)
	const lo, hi = -2, 65537
	core.ParallelFor(hi-lo+1, func(worker, k int) {
		t := lo + k
		size, sizeErr := signature.SignatureSize(t)
		for _, n := range lens {
			in := append([]byte(nil), pool[:n]...)
			r.Evaluations.Add(1)
			var s1 signature.Signature
			var s2 *signature.Signature
			var rem1, rem2 []byte
			var e1, e2 error
			if pan, msg := core.Guard(func() {
				s1, rem1, e1 = signature.ReadSignature(in, t)
				s2, rem2, e2 = signature.NewSignature(in, t)
			}); pan {
				r.AddNote("panics_left_to_C04", 1)
				_ = msg
				continue
			}
			cs := core.Case{Kind: "sigsweep", Args: map[string]string{"type": fmt.Sprint(t), "len": fmt.Sprint(n)}}
			cls := "known"
			if _, known := refmodel.SigTable[t]; !known {
				cls = "unknown-to-the-specification-table"
			}
			if (e1 == nil) != (e2 == nil && s2 != nil) {
				r.Violate("C19|signature.ReadSignature~NewSignature|sweep|"+cls+"|acceptance", fmt.Sprintf("type %d, %d bytes: ReadSignature err=%v, NewSignature err=%v", t, n, e1, e2), cs)
				continue
			}
			if e1 != nil {
				// both reject: the exact constructor must not accept the same bytes either, and the size
				// lookup must agree with the readers about a type being unsupported when enough data was given
				if _, e3 := signature.NewSignatureFromBytes(in, t); e3 == nil {
					r.Violate("C19|signature.ReadSignature~NewSignatureFromBytes|sweep|"+cls+"|acceptance", fmt.Sprintf("type %d, %d bytes: the readers reject, NewSignatureFromBytes accepts", t, n), cs)
				}
				if sizeErr == nil && n >= size {
					r.Violate("C19|signature.ReadSignature~SignatureSize|sweep|"+cls+"|acceptance", fmt.Sprintf("type %d: SignatureSize says %d bytes, ReadSignature rejects %d bytes of input: %v", t, size, n, e1), cs)
				}
				continue
			}
			r.Traces.Add(1)
			r.Distinct([]byte("sigsweep"), []byte(fmt.Sprint(t, n)))
			if !bytes.Equal(s1.Bytes(), s2.Bytes()) || !bytes.Equal(rem1, rem2) {
				r.Violate("C19|signature.ReadSignature~NewSignature|sweep|"+cls+"|result", fmt.Sprintf("type %d, %d bytes: values or remainders differ", t, n), cs)
			}
			consumed := in[:len(in)-len(rem1)]
			s3, e3 := signature.NewSignatureFromBytes(consumed, t)
			if e3 != nil || !bytes.Equal(s3.Bytes(), s1.Bytes()) {
				r.Violate("C19|signature.ReadSignature~NewSignatureFromBytes|sweep|"+cls+"|acceptance", fmt.Sprintf("type %d: ReadSignature consumed %d bytes; NewSignatureFromBytes on exactly those bytes: err=%v", t, len(consumed), e3), cs)
			}
			if sizeErr != nil || size != len(consumed) {
				r.Violate("C19|signature.ReadSignature~SignatureSize|sweep|"+cls+"|acceptance", fmt.Sprintf("type %d: ReadSignature consumed %d bytes; SignatureSize: %d, err=%v", t, len(consumed), size, sizeErr), cs)
			}
		}
	})
}

// c19IntegerTwins: data.ReadInteger (value, remainder) and data.NewInteger (pointer, remainder, error) are the same
// reader in two shapes - also on input that is too short, where the value-returning twin has no error to give and
// hands back what there is. For every width -1..9 x every input length 0..width+2: same bytes, same remainder; and
// the error of the pointer twin says nothing the value twin's result does not (error <=> incomplete value).
func c19IntegerTwins(r *core.Run) {
	pool := refmodel.Fill("inttwins", 1, 16)
	for n := -1; n <= 9; n++ {
		for l := 0; l <= 11; l++ {
			in := append([]byte(nil), pool[:l]...)
			r.Evaluations.Add(1)
			var i data.Integer
			var pi *data.Integer
			var rem1, rem2 []byte
			var err error
			if pan, _ := core.Guard(func() {
				i, rem1 = data.ReadInteger(in, n)
				pi, rem2, err = data.NewInteger(in, n)
			}); pan {
				continue // C04's
			}
			var pb []byte
			if pi != nil {
				pb = []byte(*pi)
			}
			cs := core.Case{Kind: "inttwins", Args: map[string]string{"width": fmt.Sprint(n), "len": fmt.Sprint(l)}}
			cls := "complete-input"
			if n < 1 || n > 8 {
				cls = "invalid-width"
			} else if l < n {
				cls = "short-input"
			}
			if !bytes.Equal([]byte(i), pb) || !bytes.Equal(rem1, rem2) {
				r.Violate("C19|data.ReadInteger~data.NewInteger|"+cls+"|result", fmt.Sprintf("width %d, %d input bytes: ReadInteger -> (%x, remainder %d bytes), NewInteger -> (%x, remainder %d bytes, err %v)", n, l, []byte(i), len(rem1), pb, len(rem2), err), cs)
			} else if (err != nil) && len(i) == n && n >= 1 && n <= 8 {
				r.Violate("C19|data.ReadInteger~data.NewInteger|"+cls+"|acceptance", fmt.Sprintf("width %d, %d input bytes: ReadInteger returns a complete value, NewInteger an error: %v", n, l, err), cs)
			}
			r.Traces.Add(1)
		}
	}
}
