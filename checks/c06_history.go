package checks

import (
	"bytes"
	"fmt"
	"sync"

	"verif/internal/adapt"
	"verif/internal/choose"
	"verif/internal/core"
	"verif/internal/gen"
	"verif/internal/refmodel"
)

// c06History: E4 over histories of signing-constructor calls. c06One judges one constructed value in
// isolation; "still verifies after being serialised and parsed back" must also hold when other
// structures were built, serialised and verified in between (a serialiser that hands out a pooled
// buffer, a signer that keeps scratch state, a verifier that memoises). State = the constructed values
// still alive with the encodings they handed out (kept WITHOUT copying); transition = build + serialise
// one more value; invariant after every transition, for every live value: the encoding handed out
// earlier is unchanged, equals a fresh Bytes(), parses back, verifies, and the independent verifier
// accepts it. All ordered pairs over the items of a family plus the all-default items of the other
// families (thorough: all ordered pairs), and all ordered triples of the all-default items.
type c06Item struct {
	fam  string
	s    gen.Signed
	aux  int
	form adapt.ELSKeyForm
	desc string
	core bool
}

func (it *c06Item) String() string { return fmt.Sprintf("%s[%s]", it.fam, it.desc) }

func c06History(r *core.Run) {
	var items []*c06Item
	var mu sync.Mutex
	for _, fg := range structFamilies {
		fam := fg.Family
		if fam != "RouterInfo" && fam != "LeaseSet" && fam != "LeaseSet2" && fam != "EncryptedLeaseSet" {
			continue
		}
		fg := fg
		choose.Explore(1, 1, r.Expired, func(c *choose.Ctx) {
			s, aux := fg.Gen(c)
			it := &c06Item{fam: fam, s: s, aux: aux, form: adapt.ELSStdPriv, desc: c.Describe(), core: len(c.Deviations()) == 0}
			// only values the single-call oracle is happy with take part (it reports the others)
			b, err := c06Build(fam, s, aux, it.form)
			if err != nil || b == nil {
				return
			}
			out, err := b.bytes()
			if err != nil || b.verify() != nil {
				return
			}
			if rv, rem, perr := b.reparse(out); perr != nil || rem != 0 || rv() != nil {
				return
			}
			mu.Lock()
			items = append(items, it)
			mu.Unlock()
		})
	}
	r.Note("history_items", int64(len(items)))
	type live struct {
		it   *c06Item
		b    *c06Built
		out  []byte // as handed out, not copied
		copy []byte
	}
	var sampled sync.Once
	run := func(hist []*c06Item) {
		var lv []live
		for step, it := range hist {
			var b *c06Built
			var err error
			var out []byte
			if pan, _ := core.Guard(func() {
				b, err = c06Build(it.fam, it.s, it.aux, it.form)
				if err == nil {
					out, err = b.bytes()
				}
			}); pan || err != nil {
				r.Violate("C06|history|"+it.fam+"|constructor-fails-after-earlier-constructions", fmt.Sprintf("history %v: step %d builds and serialises alone but not after the earlier steps (%v)", hist, step, err), core.Case{Kind: "history", Args: c06HistArgs(hist)})
				return
			}
			r.Transitions.Add(1)
			lv = append(lv, live{it, b, out, append([]byte(nil), out...)})
			for vi, l := range lv {
				r.States.Add(1)
				why := ""
				core.Guard(func() {
					switch {
					case !bytes.Equal(l.out, l.copy):
						why = "the encoding handed out earlier changed"
					default:
						now, err := l.b.bytes()
						if err != nil || !bytes.Equal(now, l.copy) {
							why = fmt.Sprintf("a fresh Bytes() differs from the encoding handed out earlier (err %v)", err)
							return
						}
						if err := l.b.verify(); err != nil && !c06ECDSA(l.it) {
							why = "the constructed value no longer verifies: " + errClass(err.Error())
							return
						}
						rv, rem, perr := l.b.reparse(append([]byte(nil), l.copy...))
						if perr != nil || rem != 0 {
							why = fmt.Sprintf("its bytes no longer parse back cleanly (err %v, remainder %d)", perr, rem)
							return
						}
						if err := rv(); err != nil && !c06ECDSA(l.it) {
							why = "it no longer verifies after the wire: " + errClass(err.Error())
							return
						}
						if ok, w := refmodel.VerifyRaw(l.b.authKind, l.copy); !ok {
							why = "the independent verifier rejects its bytes: " + w
						}
					}
				})
				if why != "" {
					cl := "later-construction-breaks-an-earlier-value"
					if vi == len(lv)-1 {
						cl = "value-built-after-others-is-broken"
					}
					r.Violate("C06|history|"+l.it.fam+"|"+cl+"["+hist[step].fam+"]", fmt.Sprintf("history %v: after step %d the value of step %d: %s", hist, step, vi, why), core.Case{Kind: "history", Args: c06HistArgs(hist)})
					return
				}
			}
		}
		r.Traces.Add(1)
		r.Evaluations.Add(1)
		sampled.Do(func() {
			r.Sample(map[string]any{"history": fmt.Sprint(hist), "invariant": "every earlier encoding unchanged, parses back, verifies (library and independent verifier) after every later construction"})
		})
	}
	n := len(items)
	core.ParallelFor(n*n, func(_, ij int) {
		if r.Expired() {
			return
		}
		a, b := items[ij/n], items[ij%n]
		if r.Quick() && a.fam != b.fam && !b.core {
			return
		}
		run([]*c06Item{a, b})
	})
	var cores []*c06Item
	for _, it := range items {
		if it.core {
			cores = append(cores, it)
		}
	}
	m := len(cores)
	core.ParallelFor(m*m*m, func(_, k int) {
		if r.Expired() {
			return
		}
		run([]*c06Item{cores[k/(m*m)], cores[(k/m)%m], cores[k%m]})
	})
	r.Note("history_core_items", int64(m))
}

// c06ECDSA: the library cannot verify under an ECDSA key at all (known finding, third party); such
// values take part in the byte-level clauses only.
func c06ECDSA(it *c06Item) bool {
	ec := func(t int) bool { return t == refmodel.SigP256 || t == refmodel.SigP384 }
	return ec(it.s.IDKey.Type) || ec(it.s.Signer.Type)
}

func c06HistArgs(hist []*c06Item) map[string]string {
	args := map[string]string{}
	for k, h := range hist {
		args[fmt.Sprintf("family%d", k)] = h.fam
		args[fmt.Sprintf("vector%d", k)] = h.desc
	}
	return args
}
