//go:build vinstr

package checks

import (
	"fmt"
	"reflect"
	"runtime"
	"runtime/debug"
	"strings"
	"time"

	"verif/internal/choose"
	"verif/internal/core"
	"verif/internal/snap"

	"github.com/go-i2p/common/zzvsched"
)

const instrumented = true

func installHook(h func(id int)) { zzvsched.Hook = h }
func stepCount() int64           { return zzvsched.Steps }

type c18Sched struct {
	c        *choose.Ctx
	ops      []c18Op
	wake     []chan struct{}
	done     []bool
	steps    []int
	limit    []int
	results  []string
	panicked []string
	cur      int
	finished chan struct{}
	points   int64
}

type livelockPanic struct{ thread int }

func (s *c18Sched) enabled(except int) []int {
	var out []int
	for t := range s.ops {
		if t != except && !s.done[t] {
			out = append(out, t)
		}
	}
	return out
}

func (s *c18Sched) hook(id int) {
	t := s.cur
	s.steps[t]++
	s.points++
	if s.steps[t] > s.limit[t] {
		panic(livelockPanic{t})
	}
	if s.c.Exhausted() {
		return
	}
	others := s.enabled(t)
	if len(others) == 0 {
		return
	}
	k := s.c.Pick("preempt", 1+len(others))
	if k == 0 {
		return
	}
	u := others[k-1]
	s.cur = u
	s.wake[u] <- struct{}{}
	<-s.wake[t]
}

func (s *c18Sched) thread(t int) {
	<-s.wake[t]
	func() {
		defer func() {
			if x := recover(); x != nil {
				if ll, ok := x.(livelockPanic); ok {
					s.panicked[t] = fmt.Sprintf("livelock: thread %d exceeded %d steps", ll.thread, s.limit[ll.thread])
				} else {
					s.panicked[t] = fmt.Sprint("panic: ", x)
				}
			}
		}()
		s.results[t] = s.ops[t].run()
	}()
	s.done[t] = true
	en := s.enabled(-1)
	if len(en) == 0 {
		close(s.finished)
		return
	}
	k := 0
	if len(en) > 1 {
		k = s.c.PickCost("next", len(en), 0)
	}
	u := en[k]
	s.cur = u
	s.wake[u] <- struct{}{}
}

// runSchedule executes the operations as logical threads under the choices of c.
func runSchedule(c *choose.Ctx, ops []c18Op, limits []int) *c18Sched {
	s := &c18Sched{c: c, ops: ops, limit: limits, finished: make(chan struct{})}
	n := len(ops)
	s.wake = make([]chan struct{}, n)
	s.done = make([]bool, n)
	s.steps = make([]int, n)
	s.results = make([]string, n)
	s.panicked = make([]string, n)
	for t := 0; t < n; t++ {
		s.wake[t] = make(chan struct{})
		go s.thread(t)
	}
	first := 0
	if n > 1 {
		first = c.PickCost("first", n, 0)
	}
	s.cur = first
	installHook(s.hook)
	s.wake[first] <- struct{}{}
	<-s.finished
	installHook(nil)
	return s
}

func c18Shared(v c18Value) []any { return []any{v.v, allGlobals()} }

// soloAnalysis: run op alone; returns result, steps, and whether any statement-level point saw
// the shared snapshot differ from the initial one.
func soloAnalysis(v c18Value, op c18Op, perStep bool) (res string, steps int, mutated bool, panicMsg string) {
	shared := c18Shared(v)
	h0 := snap.Hash(shared, c18SnapOpts)
	n := 0
	installHook(func(int) {
		n++
		if perStep && !mutated {
			if snap.Hash(shared, c18SnapOpts) != h0 {
				mutated = true
			}
		}
	})
	pan, msg := core.Guard(func() { res = op.run() })
	installHook(nil)
	if pan {
		panicMsg = msg
	}
	if snap.Hash(shared, c18SnapOpts) != h0 {
		mutated = true
	}
	return res, n, mutated, panicMsg
}

func c18Explore(shard, nshards int, tier string) c18Result {
	res := c18Result{Notes: map[string]int64{}}
	deadline := time.Now().Add(150 * time.Second)
	if tier == "thorough" {
		deadline = time.Now().Add(25 * time.Minute)
	}
	debug.SetMemoryLimit(3 << 30)
	vals := c18Values()
	// self-check of the observation: two snapshots with nothing in between must be identical
	if shard == 0 {
		g := allGlobals()
		if snap.Hash(g, c18SnapOpts) != snap.Hash(g, c18SnapOpts) {
			res.Violations = append(res.Violations, core.Violation{Property: "C18", Identity: "C18|harness|snapshot-not-deterministic", Detail: "two snapshots of the package-level state without any operation in between differ", Case: core.Case{Kind: "harness"}})
			return res
		}
		res.Notes["package_level_variables_observed"] = int64(len(g))
	}
	type job struct{ vi, a, b, c int }
	type opInfo struct {
		solo    string
		steps   int
		mutates bool
	}
	jobIdx := 0
	for vi, v := range vals {
		ops := c18Ops(v)
		infos := make([]opInfo, len(ops))
		// step 1 is cheap: every shard does it for the values it touches, only shard (vi % n) reports
		// One unjudged call of every operation first: initialisation that happens once per process or per value
		// (a table built behind sync.Once, a memo filled on first use) is not what "read-only operations do not
		// mutate shared state" is about - the steady state is. Whether that first call is SAFE under contention
		// is decided by the cold phase of the free-running race pass (fresh values, no call before the goroutines
		// start), where an unsynchronised first write is a reported data race and a synchronised one is not.
		for _, op := range ops {
			if strings.Contains(op.name, "+caller-overwrites") {
				continue // a history step of the harness, not library initialisation: judged from its first execution
			}
			core.Guard(func() { op.run() })
		}
		for oi, op := range ops {
			r0, st, mut, pmsg := soloAnalysis(v, op, vi%nshards == shard)
			infos[oi] = opInfo{r0, st, mut}
			if vi%nshards == shard {
				res.Evaluations++
				res.States += int64(st)
				if pmsg != "" {
					res.Violations = append(res.Violations, core.Violation{Property: "C18", Identity: "C18|operation-panics|" + v.name + "." + op.name, Detail: pmsg, Case: core.Case{Kind: "solo", Args: map[string]string{"value": v.name, "op": op.name}}})
				}
				if mut {
					res.Violations = append(res.Violations, core.Violation{Property: "C18", Identity: "C18|read-only-operation-mutates-shared-state|" + typeOfName(v.name) + "." + op.name,
						Detail: fmt.Sprintf("%s on %s changes the receiver graph or a package-level variable (deep snapshot differs at some statement-level point or at the end)", op.name, v.name),
						Case:   core.Case{Kind: "solo", Args: map[string]string{"value": v.name, "op": op.name}}})
				}
				// determinism of the observation itself
				if r1 := op.run(); r1 != r0 {
					res.Violations = append(res.Violations, core.Violation{Property: "C18", Identity: "C18|harness|nondeterministic-operation|" + v.name + "." + op.name, Detail: "two solo runs give different results", Case: core.Case{Kind: "solo", Args: map[string]string{"value": v.name, "op": op.name}}})
				}
			}
		}
		// history prefix ("error first, success later"): before the schedules of a job are explored, every
		// operation is called once on the ZERO value of the same type - the error paths. What they leave behind
		// in process-wide state (a pooled buffer released twice, a half-initialised cache) is then in place
		// when the logical threads run. The garbage collector is held off for the duration of a job so that
		// runtime-managed pools are not emptied between the prefix and the schedules.
		zero := c18Value{name: v.name, v: reflect.New(reflect.TypeOf(v.v).Elem()).Interface()}
		zeroOps := c18Ops(zero)
		prime := func() {
			for _, op := range zeroOps {
				core.Guard(func() { op.run() })
			}
		}
		prime()
		shared := c18Shared(v)
		h0 := snap.Hash(shared, c18SnapOpts)
		var jobs []job
		for a := range ops {
			for b := a; b < len(ops); b++ {
				jobs = append(jobs, job{vi, a, b, -1})
			}
		}
		if tier == "thorough" {
			core := len(ops)
			if core > 10 {
				core = 10
			}
			for a := 0; a < core; a++ {
				for b := a; b < core; b++ {
					for c := b; c < core; c++ {
						jobs = append(jobs, job{vi, a, b, c})
					}
				}
			}
		}
		for _, j := range jobs {
			jobIdx++
			if jobIdx%nshards != shard {
				continue
			}
			if time.Now().After(deadline) {
				res.Capped = true
				continue
			}
			idx := []int{j.a, j.b}
			if j.c >= 0 {
				idx = append(idx, j.c)
			}
			sel := make([]c18Op, len(idx))
			limits := make([]int, len(idx))
			names := make([]string, len(idx))
			bound := 1
			for k, oi := range idx {
				sel[k] = ops[oi]
				limits[k] = infos[oi].steps*100 + 1000
				names[k] = ops[oi].name
				if infos[oi].mutates {
					bound = 2
				}
			}
			if tier == "thorough" && j.c < 0 {
				bound = 2
			}
			scen := typeOfName(v.name) + "|" + strings.Join(names, "+")
			reported := false
			gcWas := debug.SetGCPercent(-1)
			prime()
			sinceGC := 0
			st, capped, diverged := choose.ExploreDiv(bound, 1, func() bool { return time.Now().After(deadline) }, func(c *choose.Ctx) {
				// the collector is held off between the history prefix and the schedules that depend on it; memory is
				// bounded by collecting by hand every few thousand schedules and re-establishing the prefix (and by the
				// soft memory limit set at worker start, which lets the runtime collect earlier if it must)
				if sinceGC++; sinceGC >= 4000 {
					sinceGC = 0
					runtime.GC()
					prime()
				}
				s := runSchedule(c, sel, limits)
				res.States += s.points
				if reported {
					return
				}
				mk := func(clause, detail string) {
					reported = true
					res.Violations = append(res.Violations, core.Violation{Property: "C18", Identity: "C18|" + clause + "|" + scen, Detail: detail + fmt.Sprintf(" (value %s; schedule %v: %s)", v.name, c.Vector(), c.Describe()),
						Case: core.Case{Kind: "schedule", Args: map[string]string{"value": v.name, "ops": strings.Join(names, "+"), "vector": fmt.Sprint(c.Vector())}}})
				}
				for k, oi := range idx {
					if s.panicked[k] != "" {
						mk("schedule-panics-or-livelocks", names[k]+": "+s.panicked[k])
						return
					}
					if s.results[k] != infos[oi].solo {
						mk("result-differs-from-solo", fmt.Sprintf("%s returns a different result when interleaved with %s", names[k], strings.Join(names, "+")))
						return
					}
				}
				if snap.Hash(shared, c18SnapOpts) != h0 {
					mk("shared-state-changed", "after the interleaved calls the receiver graph / package-level state differs from its initial snapshot")
				}
			})
			debug.SetGCPercent(gcWas)
			if diverged != "" && !reported {
				// the same schedule prefix did not lead to the same execution twice: the operations do something
				// the scheduler does not control between yield points - in this library that can only be goroutines
				// of their own (or a dependence on timing); their interleavings with the callers are not explored,
				// and step 3 (race detector) is the judge of what they do to shared memory
				res.Violations = append(res.Violations, core.Violation{Property: "C18", Identity: "C18|not-reproducible-under-a-fixed-schedule|" + scen,
					Detail: fmt.Sprintf("value %s: replaying a recorded schedule prefix of %s led to a different execution (%s): an operation runs code concurrently with its caller or depends on timing", v.name, strings.Join(names, "+"), diverged),
					Case:   core.Case{Kind: "schedule", Args: map[string]string{"value": v.name, "ops": strings.Join(names, "+"), "vector": "[]"}}})
			}
			res.Evaluations += st.Executions
			res.Traces += st.Executions
			res.Transitions += st.Transitions
			if capped {
				res.Capped = true
			}
			res.Distinct = append(res.Distinct, v.name+"|"+strings.Join(names, "+"))
			if len(res.Samples) < 2 && st.Executions > 10 {
				res.Samples = append(res.Samples, map[string]any{"value": v.name, "threads": names, "preemption_bound": bound, "schedules": st.Executions})
			}
			res.Notes[fmt.Sprintf("schedules_bound%d", bound)] += st.Executions
		}
	}
	return res
}

func typeOfName(n string) string {
	if i := strings.IndexByte(n, '('); i > 0 {
		return n[:i]
	}
	return n
}

func c18Replay(r *core.Run, c core.Case) {
	for _, v := range c18Values() {
		if v.name != c.Args["value"] {
			continue
		}
		ops := c18Ops(v)
		switch c.Kind {
		case "solo":
			for _, op := range ops {
				if op.name == c.Args["op"] {
					_, _, mut, pmsg := soloAnalysis(v, op, true)
					if mut || pmsg != "" {
						r.Violate("C18|read-only-operation-mutates-shared-state|"+typeOfName(v.name)+"."+op.name, "replayed: mutates="+fmt.Sprint(mut)+" "+pmsg, c)
					}
				}
			}
		case "schedule":
			var sel []c18Op
			var limits []int
			var solos []string
			for _, n := range strings.Split(c.Args["ops"], "+") {
				for _, op := range ops {
					if op.name == n {
						r0, st, _, _ := soloAnalysis(v, op, false)
						sel = append(sel, op)
						limits = append(limits, st*100+1000)
						solos = append(solos, r0)
					}
				}
			}
			var vec []int
			for _, f := range strings.Fields(strings.Trim(c.Args["vector"], "[]")) {
				var n int
				fmt.Sscan(f, &n)
				vec = append(vec, n)
			}
			shared := c18Shared(v)
			h0 := snap.Hash(shared, c18SnapOpts)
			cx := choose.Run(vec, func(cx *choose.Ctx) {
				s := runSchedule(cx, sel, limits)
				for k := range sel {
					if s.panicked[k] != "" || s.results[k] != solos[k] {
						r.Violate("C18|result-differs-from-solo|"+typeOfName(v.name)+"|"+c.Args["ops"], "replayed schedule: "+sel[k].name+" differs / "+s.panicked[k], c)
					}
				}
			})
			_ = cx
			if snap.Hash(shared, c18SnapOpts) != h0 {
				r.Violate("C18|shared-state-changed|"+typeOfName(v.name)+"|"+c.Args["ops"], "replayed schedule leaves shared state changed", c)
			}
		}
	}
}
