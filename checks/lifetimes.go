package checks

import (
	"bytes"
	"fmt"
	"strings"
	"sync"

	"verif/internal/adapt"
	"verif/internal/core"
)

// E4 over histories of *parse operations on live values*. The single-call oracle of C01 parses one
// input and serialises the value at once; a value that shares state with another value (a scratch
// buffer hoisted to package scope, an interned sub-structure, a pooled backing array, a memo keyed
// by part of the input) is correct at that moment and wrong one call later. Here the state of the
// exploration is the list of values still alive; a transition parses one more input (from a private
// copy) with one of the library's entry points; the invariant, evaluated after EVERY transition on
// EVERY live value, is C01's own clause: the value serialises to exactly the bytes that were consumed
// when it was parsed. All ordered pairs over the item set (depth 2), and all ordered triples over the
// core set (depth 3), are visited - no sampling.
type ltItem struct {
	p      adapt.Parser
	in     []byte
	fam    string
	genFam string // generator family of the input
	dsc    string
}

type ltLive struct {
	it       *ltItem
	res      adapt.Parsed
	consumed []byte
	buf      []byte // the private buffer the value was parsed from
	first    []byte // the first serialisation handed out, kept WITHOUT copying (a caller that stores encodings)
}

// ltIndependentOfBuffer: the structures property C08 lists as not sharing memory with the caller's
// buffer (RouterInfo, RouterAddress, mappings and the mapping-carrying LeaseSet2 / MetaLeaseSet
// serialisations are deliberately not on that list). For these the history has one more step: the
// caller recycles its buffers, and the serialisation must still be the bytes that were consumed.
func ltIndependentOfBuffer(family string) bool {
	switch family {
	case "Certificate", "KeyCertificate", "KeysAndCert", "Destination", "RouterIdentity", "Lease", "Lease2", "LeaseSet", "EncryptedLeaseSet":
		return true
	}
	return strings.HasPrefix(family, "Signature[") || strings.HasPrefix(family, "OfflineSignature[")
}

func ltParse(it *ltItem) (*ltLive, bool) {
	buf := append([]byte(nil), it.in...)
	var res adapt.Parsed
	if pan, _ := core.Guard(func() { res = it.p.Fn(buf) }); pan || !res.OK || res.Ser == nil {
		return nil, false
	}
	l := &ltLive{it: it, res: res, buf: buf}
	if res.HasRem {
		if len(res.Rem) > len(it.in) {
			return nil, false
		}
		l.consumed = append([]byte(nil), it.in[:len(it.in)-len(res.Rem)]...)
	} else {
		l.consumed = append([]byte(nil), it.in...)
	}
	return l, true
}

// holds reports whether the live value still serialises to its consumed bytes.
func (l *ltLive) holds() (bool, string) {
	var ser []byte
	var err error
	if pan, msg := core.Guard(func() { ser, err = l.res.Ser() }); pan {
		return false, "serialising panics: " + msg
	}
	if err != nil {
		return false, "serialising fails: " + err.Error()
	}
	if l.first == nil {
		l.first = ser
	} else if want := l.consumed[:min(len(l.consumed), len(l.first))]; !bytes.Equal(l.first, want) {
		return false, fmt.Sprintf("the serialisation handed out earlier has changed under the caller's feet (first difference at %d): results share a buffer across calls", firstDiff(l.first, want))
	}
	if l.res.HasRem || len(ser) == len(l.consumed) {
		if !bytes.Equal(ser, l.consumed) {
			return false, fmt.Sprintf("serialises to %d bytes, consumed %d, first difference at %d", len(ser), len(l.consumed), firstDiff(ser, l.consumed))
		}
		return true, ""
	}
	if !bytes.HasPrefix(l.consumed, ser) {
		return false, fmt.Sprintf("serialisation is no longer a prefix of the input, first difference at %d", firstDiff(ser, l.consumed))
	}
	return true, ""
}

// collectLifetimeItems: bases with at most maxDev deviations of every family x every parser of the
// family that accepts them and round-trips them when used alone (the single-call oracle reports the
// others; here only histories are judged).
func collectLifetimeItems(r *core.Run, maxDev int) []*ltItem {
	var mu sync.Mutex
	var items []*ltItem
	seen := map[string]bool{}
	enumerateInputs(r, enumOpts{BaseBound: maxDev, MutateBound: -1}, func(worker int, in *Input) {
		for _, fam := range parserFamiliesFor(in.Family, in.Aux) {
			for _, p := range adapt.ByFamily(fam) {
				it := &ltItem{p: p, in: in.Bytes, fam: p.Family, genFam: in.Family, dsc: in.Base}
				l, ok := ltParse(it)
				if !ok {
					continue
				}
				if h, _ := l.holds(); !h {
					continue
				}
				k := p.Name + "\x00" + string(in.Bytes)
				mu.Lock()
				if !seen[k] {
					seen[k] = true
					items = append(items, it)
				}
				mu.Unlock()
			}
		}
	})
	// deterministic order: by parser name, then input
	sortItems(items)
	return items
}

func sortItems(items []*ltItem) {
	for i := 1; i < len(items); i++ { // insertion sort is fine for a few hundred items; keeps this file dependency-free
		for j := i; j > 0 && ltLess(items[j], items[j-1]); j-- {
			items[j], items[j-1] = items[j-1], items[j]
		}
	}
}

func ltLess(a, b *ltItem) bool {
	if a.p.Name != b.p.Name {
		return a.p.Name < b.p.Name
	}
	return bytes.Compare(a.in, b.in) < 0
}

func (it *ltItem) String() string {
	return fmt.Sprintf("%s(%s %s)", it.p.Name, it.fam, it.dsc)
}

// lifetimesC01 runs the history exploration. depth-2: all ordered pairs of items; depth-3: all
// ordered triples of the core items (the all-default base of every family through every parser).
func lifetimesC01(r *core.Run) {
	maxDev := 1
	items := collectLifetimeItems(r, maxDev)
	var coreItems []*ltItem
	for _, it := range items {
		if it.dsc == "(all defaults)" {
			coreItems = append(coreItems, it)
		}
	}
	r.Note("history_items", int64(len(items)))
	r.Note("history_core_items", int64(len(coreItems)))
	var sampled sync.Once
	report := func(hist []*ltItem, victim int, why string) {
		id := fmt.Sprintf("C01|%s|%s|reserialise-differs-after-a-later-parse[%s]", hist[victim].p.Name, hist[victim].fam, hist[len(hist)-1].p.Name)
		var names []string
		args := map[string]string{"victim": fmt.Sprint(victim)}
		for k, h := range hist {
			names = append(names, h.String())
			args[fmt.Sprintf("parser%d", k)] = h.p.Name
			args[fmt.Sprintf("input%d", k)] = core.HexFull(h.in)
		}
		r.Violate(id, fmt.Sprintf("history %v: the value of step %d no longer serialises to the bytes it consumed after the later step(s): %s", names, victim, why),
			core.Case{Kind: "lifetimes", Args: args})
	}
	run := func(hist []*ltItem) {
		var live []*ltLive
		for step, it := range hist {
			l, ok := ltParse(it)
			r.Transitions.Add(1)
			if !ok {
				// accepted alone, rejected (or panicking) after the earlier parses: history-dependent acceptance
				id := fmt.Sprintf("C01|%s|%s|accepted-alone-rejected-after-earlier-parses[%s]", it.p.Name, it.fam, hist[0].p.Name)
				r.Violate(id, fmt.Sprintf("history %v: step %d is accepted and round-trips when run alone but not after the earlier steps", hist, step), core.Case{Kind: "lifetimes", Args: ltArgs(hist, step)})
				return
			}
			live = append(live, l)
			for v, lv := range live {
				r.States.Add(1)
				if h, why := lv.holds(); !h {
					report(hist[:step+1], v, why)
					return
				}
			}
		}
		// last step: the caller recycles every buffer it parsed from
		for _, lv := range live {
			for i := range lv.buf {
				lv.buf[i] = 0x5a
			}
		}
		r.Transitions.Add(1)
		for v, lv := range live {
			if !ltIndependentOfBuffer(lv.it.p.Family) {
				continue
			}
			r.States.Add(1)
			if h, why := lv.holds(); !h {
				id := fmt.Sprintf("C01|%s|%s|reserialise-differs-after-the-caller-recycled-its-buffer", hist[v].p.Name, hist[v].fam)
				r.Violate(id, fmt.Sprintf("history %v + buffers overwritten: the value of step %d no longer serialises to the bytes it consumed: %s", hist, v, why), core.Case{Kind: "lifetimes", Args: ltArgs(hist, v)})
				return
			}
		}
		r.Traces.Add(1)
		r.Evaluations.Add(1)
		sampled.Do(func() {
			r.Sample(map[string]any{"history": fmt.Sprint(hist), "invariant": "every live value serialises to its consumed bytes after every step"})
		})
	}
	n := len(items)
	core.ParallelFor(n, func(worker, i int) {
		if r.Expired() {
			return
		}
		for j := 0; j < n; j++ {
			// quick: second step drawn from the same generator family (content-keyed sharing) or from the
			// core set (scratch state shared across structures); thorough: every ordered pair
			if r.Quick() && items[j].genFam != items[i].genFam && items[j].dsc != "(all defaults)" {
				continue
			}
			run([]*ltItem{items[i], items[j]})
		}
	})
	m := len(coreItems)
	if !r.Quick() || m <= 90 {
		core.ParallelFor(m*m, func(worker, ij int) {
			if r.Expired() {
				return
			}
			for k := 0; k < m; k++ {
				run([]*ltItem{coreItems[ij/m], coreItems[ij%m], coreItems[k]})
			}
		})
		r.Note("history_depth3_complete", true)
	} else {
		r.Note("history_depth3_complete", false)
	}
}

func ltArgs(hist []*ltItem, victim int) map[string]string {
	args := map[string]string{"victim": fmt.Sprint(victim)}
	for k, h := range hist {
		args[fmt.Sprintf("parser%d", k)] = h.p.Name
		args[fmt.Sprintf("input%d", k)] = core.HexFull(h.in)
	}
	return args
}

// replayLifetimes re-runs one recorded history.
func replayLifetimes(r *core.Run, c core.Case) {
	var hist []*ltItem
	for k := 0; ; k++ {
		name, ok := c.Args[fmt.Sprintf("parser%d", k)]
		if !ok {
			break
		}
		p, ok := adapt.ByName(name)
		if !ok {
			return
		}
		hist = append(hist, &ltItem{p: p, in: core.UnHex(c.Args[fmt.Sprintf("input%d", k)]), fam: p.Family})
	}
	var live []*ltLive
	for step, it := range hist {
		l, ok := ltParse(it)
		if !ok {
			r.Violate(fmt.Sprintf("C01|%s|%s|accepted-alone-rejected-after-earlier-parses[%s]", it.p.Name, it.fam, hist[0].p.Name), "replay: step rejected after earlier steps", c)
			return
		}
		live = append(live, l)
		for v, lv := range live {
			if h, why := lv.holds(); !h {
				r.Violate(fmt.Sprintf("C01|%s|%s|reserialise-differs-after-a-later-parse[%s]", hist[v].p.Name, hist[v].fam, hist[step].p.Name), "replay: "+why, c)
				return
			}
		}
	}
	for _, lv := range live {
		for i := range lv.buf {
			lv.buf[i] = 0x5a
		}
	}
	for v, lv := range live {
		if !ltIndependentOfBuffer(lv.it.p.Family) {
			continue
		}
		if h, why := lv.holds(); !h {
			r.Violate(fmt.Sprintf("C01|%s|%s|reserialise-differs-after-the-caller-recycled-its-buffer", hist[v].p.Name, hist[v].fam), "replay: "+why, c)
			return
		}
	}
}
