package checks

import (
	"bytes"
	"fmt"
	"go/ast"
	"go/parser"
	"go/token"
	"os"
	"path/filepath"
	"reflect"
	"strings"
	"sync"

	"verif/internal/adapt"
	"verif/internal/core"
	"verif/internal/gen"
	"verif/internal/refmodel"
	"verif/internal/snap"

	"github.com/go-i2p/common/data"
)

func init() { register("C08", runC08, replayC08) }

// families listed by the property; for LeaseSet2 / MetaLeaseSet only the identity, key, lease and
// signature parts are covered, so their mappings are left out of the observation.
var c08Families = map[string]bool{"Certificate": true, "KeysAndCert": true, "Signature": true, "OfflineSignature": true, "Lease": true, "Lease2": true,
	"LeaseSet": true, "EncryptedLeaseSet": true, "LeaseSet2": true, "MetaLeaseSet": true}

var c08SnapOpts = snap.Options{SkipTypes: map[reflect.Type]bool{
	reflect.TypeOf(data.Mapping{}):  true,
	reflect.TypeOf(&data.Mapping{}): true,
}}

// copyDocumented lists "pkg.Type.Method" of exported []byte-returning methods whose doc comment
// promises a copy; found by scanning /repo's current sources at check time.
var copyDocumented = sync.OnceValue(func() map[string]bool {
	out := map[string]bool{}
	dirs, _ := filepath.Glob(core.RepoRoot + "/*")
	for _, d := range dirs {
		fset := token.NewFileSet()
		files, _ := filepath.Glob(filepath.Join(d, "*.go"))
		for _, f := range files {
			if strings.HasSuffix(f, "_test.go") {
				continue
			}
			af, err := parser.ParseFile(fset, f, nil, parser.ParseComments)
			if err != nil {
				continue
			}
			for _, decl := range af.Decls {
				fd, ok := decl.(*ast.FuncDecl)
				if !ok || fd.Recv == nil || fd.Doc == nil || !fd.Name.IsExported() {
					continue
				}
				doc := strings.ToLower(fd.Doc.Text())
				if !strings.Contains(doc, "returns a copy") && !strings.Contains(doc, "return a copy") && !strings.Contains(doc, "defensive copy") {
					continue
				}
				t := fd.Recv.List[0].Type
				if st, ok := t.(*ast.StarExpr); ok {
					t = st.X
				}
				if id, ok := t.(*ast.Ident); ok {
					out[af.Name.Name+"."+id.Name+"."+fd.Name.Name] = true
				}
			}
		}
	}
	return out
})

// c08Observe: deep snapshot of the value plus its serialisation.
func c08Observe(res adapt.Parsed, withSer bool) []byte {
	var ser []byte
	if res.Ser != nil && withSer {
		core.Guard(func() { ser, _ = res.Ser() })
	}
	var sn []byte
	core.Guard(func() { sn = snap.Bytes(res.Val, c08SnapOpts) })
	return append(append(sn, 0xfe), ser...)
}

// c08Check: parse from a private buffer, observe, scribble, observe again.
func c08Check(r *core.Run, worker int, p adapt.Parser, in *Input) {
	buf := append([]byte(nil), in.Bytes...)
	var res adapt.Parsed
	if pan, _ := core.Guard(func() { res = p.Fn(buf) }); pan || !res.OK || res.Val == nil {
		return
	}
	r.Evaluations.Add(1)
	// LeaseSet2 / MetaLeaseSet: only identity, key, lease and signature parts are covered, so the
	// serialisation (which embeds the mappings) is left out for them
	withSer := p.Family != "LeaseSet2" && p.Family != "MetaLeaseSet"
	before := c08Observe(res, withSer)
	// history: overwrite the whole input buffer
	for i := range buf {
		buf[i] ^= 0xff
	}
	after := c08Observe(res, withSer)
	cs := in.Case(p.Name)
	if !bytes.Equal(before, after) {
		// localise: which region of the input does the value still point into?
		region := "?"
		for _, rg := range in.Regions {
			b2 := append([]byte(nil), in.Bytes...)
			var r2 adapt.Parsed
			if pan, _ := core.Guard(func() { r2 = p.Fn(b2) }); pan || !r2.OK {
				break
			}
			o1 := c08Observe(r2, withSer)
			for i := rg.Off; i < rg.Off+rg.Len && i < len(b2); i++ {
				b2[i] ^= 0xff
			}
			if !bytes.Equal(o1, c08Observe(r2, withSer)) {
				region = gen.ClassOf(rg.Name)
				if rg.Len <= 256 {
					break
				}
			}
		}
		r.Violate("C08|"+p.Name+"|aliases-input|"+region, fmt.Sprintf("after parsing with %s, overwriting the caller's buffer changes what the value holds / serialises (region %s; %s)", p.Name, region, in.Base), cs)
		return
	}
	r.Traces.Add(1)
	// history: slices handed out by copy-documented accessors can be overwritten
	docs := copyDocumented()
	rv := reflect.ValueOf(res.Val)
	if rv.Kind() != reflect.Ptr {
		pv := reflect.New(rv.Type())
		pv.Elem().Set(rv)
		rv = pv
	}
	tn := adapt.TypeName(rv.Type())
	for i := 0; i < rv.NumMethod(); i++ {
		m := rv.Type().Method(i)
		if m.Type.NumIn() != 1 || m.Type.NumOut() < 1 || !docs[tn+"."+m.Name] {
			continue
		}
		if m.Type.Out(0).Kind() != reflect.Slice || m.Type.Out(0).Elem().Kind() != reflect.Uint8 {
			continue
		}
		var out []reflect.Value
		if pan, _ := core.Guard(func() { out = rv.Method(i).Call(nil) }); pan || out[0].Len() == 0 {
			continue
		}
		r.Evaluations.Add(1)
		b := out[0].Bytes()
		o1 := snap.Bytes(rv.Interface(), c08SnapOpts)
		for k := range b {
			b[k] ^= 0xff
		}
		if !bytes.Equal(o1, snap.Bytes(rv.Interface(), c08SnapOpts)) {
			r.Violate("C08|"+tn+"."+m.Name+"|documented-copy-aliases-value", fmt.Sprintf("(%s).%s is documented to return a copy, but overwriting the returned slice changes the value (%s)", tn, m.Name, in.Base), cs)
		}
		for k := range b {
			b[k] ^= 0xff
		}
	}
	r.Distinct([]byte(p.Name), in.Bytes[:min(len(in.Bytes), 800)], []byte(in.Base))
}

func runC08(r *core.Run) {
	r.Rule = "every accepted encoding (E1 bases within 2 variations, thorough 3; plus the operator menu on bases within 1 variation in thorough) of certificate, key certificate, keys-and-cert, destination, router identity, signature, offline signature, lease, LeaseSet, EncryptedLeaseSet, and LeaseSet2 / MetaLeaseSet without their mappings, parsed from a private copy of the input; histories: overwrite the whole input buffer, then (to localise) each region; for every accessor whose doc comment promises a copy (found by scanning /repo at check time): take the slice, overwrite it. Oracle: deep snapshot (reflect+unsafe, unexported fields, all reachable bytes) + serialisation identical before and after. non-trivial = distinct (parser, encoding) pairs observed before/after"
	r.Assume("one whole-buffer flip is complete for detection: an observation changes iff some observed byte lives in the buffer; per-region flips only localise",
		"mappings (options / entry properties) are outside this property for LeaseSet2 / MetaLeaseSet and are skipped by type in the snapshot")
	o := enumOpts{BaseBound: 2, MutateBound: -1}
	if !r.Quick() {
		o = enumOpts{BaseBound: 3, MutateBound: 1}
	}
	for f := range c08Families {
		o.Families = append(o.Families, f)
	}
	enumerateInputs(r, o, func(worker int, in *Input) {
		for _, fam := range parserFamiliesFor(in.Family, in.Aux) {
			if fam == "RouterIdentity" || fam == "Destination" || c08Families[fam] || strings.HasPrefix(fam, "Signature[") || strings.HasPrefix(fam, "OfflineSignature[") || fam == "KeyCertificate" {
				for _, p := range adapt.ByFamily(fam) {
					c08Check(r, worker, p, in)
				}
			}
		}
	})
	var names []string
	for k := range copyDocumented() {
		names = append(names, k)
	}
	r.Note("copy_documented_accessors_found", len(names))
	r.Sample(map[string]any{"parser": "keys_and_cert.ReadKeysAndCert", "identity": "Ed25519 / X25519", "history": "parse; buf[i] ^= 0xff for all i; snapshot"})
	r.Sample(map[string]any{"copy_documented_accessors": names})
	_ = os.Stdout
	_ = refmodel.Region{}
}

func replayC08(r *core.Run, c core.Case) {
	p, ok := adapt.ByName(c.Args["parser"])
	if !ok {
		return
	}
	c08Check(r, 0, p, replayInput(c))
}
