package checks

import (
	"bytes"
	"fmt"
	"strings"

	"verif/internal/core"
	"verif/internal/refmodel"

	"github.com/go-i2p/common/base32"
	"github.com/go-i2p/common/base64"
)

func init() { register("C13", runC13, replayBySweep(runC13)) }

type c13Dec struct {
	name   string
	b32    bool
	padded bool
	fn     func(string) ([]byte, error)
}

func runC13(r *core.Run) {
	r.Level = "exploration"
	r.Rule = "encoders: every byte string of length 0..2 (thorough: 0..3), every length 0..64 x 3 fills, limit sizes; decoders: every string of length <=2 over all 256 byte values, a valid block with every byte value substituted at every position, all strings of length <=8 over {a,b,=} / {A,B,=} and <=6 over {a,=,LF}, limit sizes; the canonical encoding of every length 1..2100 (thorough 8200) alone and followed by further quanta after its padding. non-trivial = distinct inputs whose library result was compared against the bit-level reference codec (accepted encodes; decodes where the reference verdict is Accept or Reject)"
	r.Assume("reference: bit-level base32/base64 in refmodel/base.go; inputs that differ from a canonical encoding only by non-zero trailing bits, alphabet text after completed padding, or an unpadded final group that cannot hold a whole byte are Unspecified (standard lenient decoders accept some of them): only value agreement is demanded there")
	bad := func(clause, fn, format string, a ...any) {
		d := fmt.Sprintf(format, a...)
		r.Violate("C13|"+clause+"|"+fn, d, core.Case{Kind: "sweep", Args: map[string]string{"fn": fn, "input": d}})
	}
	inAlpha := func(s, alpha string, pad bool) bool {
		for i := 0; i < len(s); i++ {
			if strings.IndexByte(alpha, s[i]) < 0 && !(pad && s[i] == '=') {
				return false
			}
		}
		return true
	}
	checkEnc := func(x []byte, count bool) {
		r.Evaluations.Add(1)
		e := base32.EncodeToString(x)
		if want := refmodel.B32Encode(x, true); e != want {
			bad("encode-matches-reference", "base32.EncodeToString", "%x -> %q want %q", x, e, want)
		}
		if !inAlpha(e, refmodel.B32Alphabet, true) {
			bad("alphabet", "base32.EncodeToString", "%x -> %q", x, e)
		}
		if d, err := base32.DecodeString(e); err != nil || !bytes.Equal(d, x) {
			bad("roundtrip", "base32.DecodeString", "%x -> %q -> %x,%v", x, e, d, err)
		}
		n := base32.EncodeToStringNoPadding(x)
		if want := refmodel.B32Encode(x, false); n != want {
			bad("encode-matches-reference", "base32.EncodeToStringNoPadding", "%x -> %q want %q", x, n, want)
		}
		if !inAlpha(n, refmodel.B32Alphabet, false) {
			bad("alphabet", "base32.EncodeToStringNoPadding", "%x -> %q", x, n)
		}
		if d, err := base32.DecodeStringNoPadding(n); err != nil || !bytes.Equal(d, x) {
			bad("roundtrip", "base32.DecodeStringNoPadding", "%x -> %q -> %x,%v", x, n, d, err)
		}
		b := base64.EncodeToString(x)
		if want := refmodel.B64Encode(x); b != want {
			bad("encode-matches-reference", "base64.EncodeToString", "%x -> %q want %q", x, b, want)
		}
		if !inAlpha(b, refmodel.B64Alphabet, true) {
			bad("alphabet", "base64.EncodeToString", "%x -> %q", x, b)
		}
		if d, err := base64.DecodeString(b); err != nil || !bytes.Equal(d, x) {
			bad("roundtrip", "base64.DecodeString", "%x -> %q -> %x,%v", x, b, d, err)
		}
		// Safe variants: empty rejected, otherwise identical
		s32, e1 := base32.EncodeToStringSafe(x)
		s64, e2 := base64.EncodeToStringSafe(x)
		if len(x) == 0 {
			if e1 == nil || e2 == nil {
				bad("safe-empty", "EncodeToStringSafe", "empty input accepted")
			}
			if _, e := base32.DecodeStringSafe(""); e == nil {
				bad("safe-empty", "base32.DecodeStringSafe", "empty input accepted")
			}
			if _, e := base32.DecodeStringSafeNoPadding(""); e == nil {
				bad("safe-empty", "base32.DecodeStringSafeNoPadding", "empty input accepted")
			}
			if _, e := base64.DecodeStringSafe(""); e == nil {
				bad("safe-empty", "base64.DecodeStringSafe", "empty input accepted")
			}
		} else {
			if e1 != nil || s32 != e {
				bad("safe-agrees", "base32.EncodeToStringSafe", "%x -> %q,%v", x, s32, e1)
			}
			if e2 != nil || s64 != b {
				bad("safe-agrees", "base64.EncodeToStringSafe", "%x -> %q,%v", x, s64, e2)
			}
			if d, err := base32.DecodeStringSafe(e); err != nil || !bytes.Equal(d, x) {
				bad("roundtrip", "base32.DecodeStringSafe", "%q -> %x,%v", e, d, err)
			}
			if d, err := base32.DecodeStringSafeNoPadding(n); err != nil || !bytes.Equal(d, x) {
				bad("roundtrip", "base32.DecodeStringSafeNoPadding", "%q -> %x,%v", n, d, err)
			}
			if d, err := base64.DecodeStringSafe(b); err != nil || !bytes.Equal(d, x) {
				bad("roundtrip", "base64.DecodeStringSafe", "%q -> %x,%v", b, d, err)
			}
		}
		if count {
			r.Distinct([]byte("enc"), x)
		}
	}
	maxLen := 2
	if !r.Quick() {
		maxLen = 3
	}
	checkEnc(nil, true)
	for a := 0; a < 256; a++ {
		checkEnc([]byte{byte(a)}, true)
	}
	core.ParallelFor(256, func(_, a int) {
		for b := 0; b < 256; b++ {
			checkEnc([]byte{byte(a), byte(b)}, true)
			if maxLen >= 3 {
				for c := 0; c < 256; c++ {
					checkEnc([]byte{byte(a), byte(b), byte(c)}, c%64 == 0)
				}
			}
		}
	})
	for l := 0; l <= 64; l++ {
		for _, fill := range []byte{0x00, 0xff, 0xa5} {
			x := bytes.Repeat([]byte{fill}, l)
			for i := range x {
				if fill == 0xa5 {
					x[i] = byte(i*37 + l)
				}
			}
			checkEnc(x, true)
		}
	}
	// limits of the size-guarded variants
	const maxEnc = 10 * 1024 * 1024
	big := make([]byte, maxEnc+1)
	for i := range big {
		big[i] = byte(i * 131)
	}
	for _, n := range []int{maxEnc - 1, maxEnc, maxEnc + 1} {
		r.Evaluations.Add(1)
		s, err := base32.EncodeToStringSafe(big[:n])
		s2, err2 := base64.EncodeToStringSafe(big[:n])
		if n <= maxEnc {
			if err != nil || len(s) != (n+4)/5*8 {
				bad("safe-limit", "base32.EncodeToStringSafe", "%d bytes rejected or wrong length: %v", n, err)
			}
			if err2 != nil || len(s2) != (n+2)/3*4 {
				bad("safe-limit", "base64.EncodeToStringSafe", "%d bytes rejected or wrong length: %v", n, err2)
			}
			r.Distinct([]byte("limit"), []byte{byte(n), byte(n >> 8), byte(n >> 16), byte(n >> 24)})
		} else {
			if err == nil {
				bad("safe-limit", "base32.EncodeToStringSafe", "%d bytes accepted", n)
			}
			if err2 == nil {
				bad("safe-limit", "base64.EncodeToStringSafe", "%d bytes accepted", n)
			}
		}
	}
	{
		// decode limits: the encoding of exactly 10 MiB is the longest accepted text
		e32 := refmodel.B32Encode(big[:maxEnc], true)
		e32n := refmodel.B32Encode(big[:maxEnc], false)
		e64 := refmodel.B64Encode(big[:maxEnc])
		r.Evaluations.Add(6)
		if d, err := base32.DecodeStringSafe(e32); err != nil || !bytes.Equal(d, big[:maxEnc]) {
			bad("safe-limit", "base32.DecodeStringSafe", "text of %d chars (10 MiB) rejected: %v", len(e32), err)
		}
		if d, err := base32.DecodeStringSafeNoPadding(e32n); err != nil || !bytes.Equal(d, big[:maxEnc]) {
			bad("safe-limit", "base32.DecodeStringSafeNoPadding", "text of %d chars (10 MiB) rejected: %v", len(e32n), err)
		}
		if d, err := base64.DecodeStringSafe(e64); err != nil || !bytes.Equal(d, big[:maxEnc]) {
			bad("safe-limit", "base64.DecodeStringSafe", "text of %d chars (10 MiB) rejected: %v", len(e64), err)
		}
		// one more whole quantum: beyond the documented limit
		if _, err := base32.DecodeStringSafe(e32 + "aaaaaaaa"); err == nil {
			bad("safe-limit", "base32.DecodeStringSafe", "text of %d chars accepted", len(e32)+8)
		}
		if _, err := base32.DecodeStringSafeNoPadding(e32n + "aaaaaaaa"); err == nil {
			bad("safe-limit", "base32.DecodeStringSafeNoPadding", "text of %d chars accepted", len(e32n)+8)
		}
		if _, err := base64.DecodeStringSafe(e64 + "AAAA"); err == nil {
			bad("safe-limit", "base64.DecodeStringSafe", "text of %d chars accepted", len(e64)+4)
		}
	}

	decs := []c13Dec{
		{"base32.DecodeString", true, true, base32.DecodeString},
		{"base32.DecodeStringNoPadding", true, false, base32.DecodeStringNoPadding},
		{"base64.DecodeString", false, true, base64.DecodeString},
		{"base32.DecodeStringSafe", true, true, base32.DecodeStringSafe},
		{"base32.DecodeStringSafeNoPadding", true, false, base32.DecodeStringSafeNoPadding},
		{"base64.DecodeStringSafe", false, true, base64.DecodeStringSafe},
	}
	checkDec := func(s string) {
		for _, d := range decs {
			if s == "" && strings.Contains(d.name, "Safe") {
				continue
			}
			r.Evaluations.Add(1)
			var want []byte
			var v refmodel.Verdict
			if d.b32 {
				want, v = refmodel.B32Decode(s, d.padded)
			} else {
				want, v = refmodel.B64Decode(s)
			}
			got, err := d.fn(s)
			switch v {
			case refmodel.Accept:
				if err != nil {
					bad("valid-rejected", d.name, "%q rejected: %v", s, err)
				} else if !bytes.Equal(got, want) {
					bad("decode-matches-reference", d.name, "%q -> %x want %x", s, got, want)
				}
				r.Distinct([]byte(d.name), []byte(s))
			case refmodel.Reject:
				if err == nil {
					cl := "malformed-accepted"
					if hasForeign(s, d.b32) {
						cl = "foreign-char-accepted"
						if foreignOnlyAfterPadding(s, d.b32) {
							cl = "foreign-char-after-padding-accepted"
						}
					}
					if cl != "malformed-accepted" {
						cl += "[" + foreignSet(s, d.b32) + "]"
					}
					bad(cl, d.name, "%q accepted as %x", s, got)
				}
				r.Distinct([]byte(d.name), []byte(s))
			case refmodel.Unspecified:
				// a lenient decoder may drop the final incomplete group, never invent or alter bytes
				if err == nil && !bytes.HasPrefix(want, got) {
					bad("decode-matches-reference", d.name, "%q -> %x want (a prefix of) %x (lenient form)", s, got, want)
				}
			}
		}
	}
	// all strings of length <= 2 over the full byte alphabet
	checkDec("")
	for a := 0; a < 256; a++ {
		checkDec(string([]byte{byte(a)}))
	}
	core.ParallelFor(256, func(_, a int) {
		for b := 0; b < 256; b++ {
			checkDec(string([]byte{byte(a), byte(b)}))
		}
	})
	// a valid block with every byte substituted at every position
	for _, blk := range []string{"aebagbaf", "mfrggzdf", "ae======", "aebag===", "AQID", "Zm9v", "AQ==", "AQI="} {
		for pos := 0; pos < len(blk); pos++ {
			for c := 0; c < 256; c++ {
				bs := []byte(blk)
				bs[pos] = byte(c)
				checkDec(string(bs))
			}
		}
	}
	// a complete padded block followed by every byte value
	for _, blk := range []string{"ae======", "aebag===", "aebagbaf", "AQ==", "AQI=", "AQID"} {
		for c := 0; c < 256; c++ {
			checkDec(blk + string([]byte{byte(c)}))
		}
	}
	// small alphabets, all strings up to length L
	walk := func(alpha string, L int) {
		var rec func(prefix []byte)
		rec = func(prefix []byte) {
			checkDec(string(prefix))
			if len(prefix) == L {
				return
			}
			for i := 0; i < len(alpha); i++ {
				rec(append(prefix, alpha[i]))
			}
		}
		rec(nil)
	}
	walk("ab=", 8)
	walk("AB=", 8)
	walk("a=\n", 6)
	walk("A=\r", 6)
	walk("a7~", 4)
	// length-dependent behaviour (internal block sizes, stack buffers, stream decoders): the canonical
	// encoding of EVERY length up to maxN, alone and followed by further quanta after its padding
	maxN := 2100
	if !r.Quick() {
		maxN = 8200
	}
	core.ParallelFor(maxN, func(_, i int) {
		n := i + 1
		x := make([]byte, n)
		for k := range x {
			x[k] = byte(k*131 + n)
		}
		checkEnc(x, n%64 == 0)
		e64, e32, e32n := refmodel.B64Encode(x), refmodel.B32Encode(x, true), refmodel.B32Encode(x, false)
		checkDec(e64)
		checkDec(e32)
		checkDec(e32n)
		if n%3 != 0 {
			checkDec(e64 + "QQ==")
			checkDec(e64 + "dGFpbCE=")
			checkDec(e64 + e64)
		}
		if n%5 != 0 {
			checkDec(e32 + "ae======")
			checkDec(e32 + "aebagbaf")
		}
	})
	r.Note("every_length_up_to", maxN)
	hd := 3
	if !r.Quick() {
		hd = 4
	}
	c13History(r, hd)
	r.Sample(map[string]any{"fn": "base32.EncodeToString", "input": "00ff", "output": refmodel.B32Encode([]byte{0, 0xff}, true)})
	r.Sample(map[string]any{"fn": "base32.DecodeString", "input": "aa=====a", "reference": "reject"})
	r.Sample(map[string]any{"fn": "base64.DecodeString", "input": "AQ=\n=", "reference": "accept 01"})
}

func hasForeign(s string, b32 bool) bool {
	alpha := refmodel.B64Alphabet
	if b32 {
		alpha = refmodel.B32Alphabet
	}
	for i := 0; i < len(s); i++ {
		c := s[i]
		if c == '\r' || c == '\n' || c == '=' {
			continue
		}
		if strings.IndexByte(alpha, c) < 0 {
			return true
		}
	}
	return false
}

// foreignOnlyAfterPadding: every foreign character sits after a completed '=' run.
func foreignOnlyAfterPadding(s string, b32 bool) bool {
	i := strings.IndexByte(s, '=')
	if i < 0 {
		return false
	}
	return !hasForeign(s[:i], b32)
}

// foreignSet lists the distinct foreign byte values of s in hex (part of the violation identity,
// so that a decoder starting to accept a *different* foreign character is a different violation).
func foreignSet(s string, b32 bool) string {
	alpha := refmodel.B64Alphabet
	if b32 {
		alpha = refmodel.B32Alphabet
	}
	seen := map[byte]bool{}
	var out []string
	for i := 0; i < len(s); i++ {
		c := s[i]
		if c == '\r' || c == '\n' || c == '=' || strings.IndexByte(alpha, c) >= 0 || seen[c] {
			continue
		}
		seen[c] = true
	}
	for c := 0; c < 256; c++ {
		if seen[byte(c)] {
			out = append(out, fmt.Sprintf("%02x", c))
		}
	}
	if len(out) > 4 {
		return fmt.Sprintf("%d distinct", len(out))
	}
	return strings.Join(out, ",")
}
