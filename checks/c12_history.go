package checks

import (
	"bytes"
	"fmt"
	"math/big"
	"strings"
	"time"

	"verif/internal/core"
	"verif/internal/refmodel"

	"github.com/go-i2p/common/data"
)

// c12History: E4 over the primitive codecs. The single-call sweeps judge every function on a fresh
// call; a scratch buffer shared between calls (package-level or pooled) makes the answer depend on
// what ran before. Every sequence of up to depth operations over the alphabet below runs on one
// goroutine; each step's result is compared with the math/big reference, every byte slice returned
// earlier is kept WITHOUT copying and compared again after every later step, and one operation of
// the alphabet lets the caller overwrite everything it was handed so far.
func c12History(r *core.Run, depth int) {
	type op struct {
		name string
		run  func() (string, []byte)
		want string
		wb   []byte
	}
	var ops []op
	u := func(b []byte) uint64 { return new(big.Int).SetBytes(b).Uint64() }
	vals := [][]byte{{0x01}, {0xff, 0xff, 0xff, 0xff}, {0xff, 0xff, 0xff, 0xff, 0xff, 0xff, 0xff}, {0x00, 0x00, 0x02}, {0x7f, 0xff, 0xff, 0xff, 0xff, 0xff, 0xff, 0xff}, {0x80, 0, 0, 0, 0, 0, 0, 0x01}, {0x00}}
	for _, b := range vals {
		b := b
		v := u(b)
		name := fmt.Sprintf("%x", b)
		if v < 1<<63 {
			ops = append(ops,
				op{"Integer(" + name + ").Int", func() (string, []byte) { return fmt.Sprint(data.Integer(append([]byte(nil), b...)).Int()), nil }, fmt.Sprint(v), nil},
				op{"Integer(" + name + ").IntSafe", func() (string, []byte) {
					x, e := data.Integer(append([]byte(nil), b...)).IntSafe()
					return fmt.Sprint(x, e == nil), nil
				}, fmt.Sprint(v, true), nil},
				op{"DecodeIntN(" + name + ")", func() (string, []byte) {
					x, e := data.DecodeIntN(append([]byte(nil), b...))
					return fmt.Sprint(x, e == nil), nil
				}, fmt.Sprint(v, true), nil},
			)
		}
		ops = append(ops,
			op{"Integer(" + name + ").UintSafe", func() (string, []byte) {
				x, e := data.Integer(append([]byte(nil), b...)).UintSafe()
				return fmt.Sprint(x, e == nil), nil
			}, fmt.Sprint(v, true), nil},
			op{"Integer(" + name + ").IsZero", func() (string, []byte) {
				return fmt.Sprint(data.Integer(append([]byte(nil), b...)).IsZero()), nil
			}, fmt.Sprint(v == 0), nil},
		)
		if len(b) == 8 && v < 1<<63 {
			var d data.Date
			copy(d[:], b)
			ops = append(ops, op{"Date(" + name + ").Time", func() (string, []byte) { return fmt.Sprint(d.Time().UnixMilli()), nil }, fmt.Sprint(int64(v)), nil})
		}
	}
	for _, e := range []struct {
		v uint64
		n int
	}{{1, 1}, {0xfffe, 2}, {0x010203, 3}, {1<<40 - 1, 5}, {1<<63 - 1, 8}, {7, 8}} {
		e := e
		want := refmodel.BE(e.v, e.n)
		ops = append(ops,
			op{fmt.Sprintf("NewIntegerFromInt(%d,%d)", e.v, e.n), func() (string, []byte) {
				p, err := data.NewIntegerFromInt(int(e.v), e.n)
				if err != nil || p == nil {
					return "error", nil
				}
				return "", *p
			}, "", want},
			op{fmt.Sprintf("EncodeIntN(%d,%d)", e.v, e.n), func() (string, []byte) {
				b, err := data.EncodeIntN(int(e.v), e.n)
				if err != nil {
					return "error", nil
				}
				return "", b
			}, "", want},
		)
	}
	for _, ms := range []int64{0, 1, 1900000000123, 1<<62 + 5} {
		ms := ms
		ops = append(ops,
			op{fmt.Sprintf("NewDateFromMillis(%d)", ms), func() (string, []byte) {
				d, err := data.NewDateFromMillis(ms)
				if err != nil || d == nil {
					return "error", nil
				}
				return "", d[:]
			}, "", refmodel.BE(uint64(ms), 8)},
			op{fmt.Sprintf("DateFromTime(%d)", ms), func() (string, []byte) {
				d, err := data.DateFromTime(time.UnixMilli(ms))
				if err != nil || d == nil {
					return "error", nil
				}
				return "", d[:]
			}, "", refmodel.BE(uint64(ms), 8)},
		)
	}
	for _, s := range []string{"", "a", "host", string(bytes.Repeat([]byte("z"), 255))} {
		s := s
		wire := append([]byte{byte(len(s))}, s...)
		ops = append(ops,
			op{fmt.Sprintf("ToI2PString(%d bytes)", len(s)), func() (string, []byte) {
				x, err := data.ToI2PString(s)
				if err != nil {
					return "error", nil
				}
				return "", x
			}, "", wire},
			op{fmt.Sprintf("ReadI2PString(%d bytes).Data", len(s)), func() (string, []byte) {
				x, rem, err := data.ReadI2PString(append(append([]byte(nil), wire...), 0xEE))
				if err != nil || len(rem) != 1 {
					return "error", nil
				}
				d, err := x.Data()
				if err != nil {
					return "error", x
				}
				return d, x // the decoded Go string itself is what the caller keeps
			}, s, wire},
		)
	}
	scribble := len(ops)
	ops = append(ops, op{name: "caller-overwrites-its-results"})
	type held struct {
		op   int
		s    string
		b    []byte
		gone bool
	}
	counts := make([]int64, len(ops))
	core.ParallelFor(len(ops), func(_, f int) {
		var rec func(seq []int)
		rec = func(seq []int) {
			counts[f]++
			var hs []held
			for step, oi := range seq {
				if oi == scribble {
					for k := range hs {
						for i := range hs[k].b {
							hs[k].b[i] = 0xA5
						}
						hs[k].gone = hs[k].gone || hs[k].b != nil
					}
					// the byte slices are the caller's to overwrite; the Go strings it was handed are immutable
					// values and must still read what they read when they were returned
					for hi, h := range hs {
						if h.s != ops[h.op].want {
							names := make([]string, len(seq))
							for i, x := range seq {
								names[i] = ops[x].name
							}
							r.Violate("C12|history|returned-string-changed-when-the-caller-overwrote-its-buffers|"+ops[h.op].name[:strings.IndexByte(ops[h.op].name+"(", '(')], fmt.Sprintf("sequence %v: the string returned by step %d read %q and reads %q after the caller overwrote the byte slices it owns", names, hi, ops[h.op].want, h.s),
								core.Case{Kind: "sweep", Args: map[string]string{"fn": ops[h.op].name, "input": fmt.Sprint(seq)}})
							return
						}
					}
					continue
				}
				var s string
				var b []byte
				if pan, msg := core.Guard(func() { s, b = ops[oi].run() }); pan {
					s = "panic: " + msg
				}
				hs = append(hs, held{oi, s, b, false})
				for hi, h := range hs {
					if h.gone {
						continue
					}
					o := ops[h.op]
					if h.s != o.want || !bytes.Equal(h.b, o.wb) {
						names := make([]string, len(seq))
						for i, x := range seq {
							names[i] = ops[x].name
						}
						cl := "result-differs-from-reference-after-earlier-calls"
						if hi < len(hs)-1 {
							cl = "earlier-result-changed-by-a-later-call"
						}
						if len(seq) == 1 {
							cl = "result-differs-from-reference"
						}
						fn := o.name
						if i := bytes.IndexByte([]byte(fn), '('); i > 0 {
							if j := bytes.LastIndexByte([]byte(fn), '.'); j > i {
								fn = fn[:i] + fn[j:]
							} else {
								fn = fn[:i]
							}
						}
						r.Violate("C12|history|"+cl+"|"+fn, fmt.Sprintf("sequence %v: after step %d the result of step %d (%s) is %q / %x, reference %q / %x", names, step, hi, o.name, h.s, h.b, o.want, o.wb),
							core.Case{Kind: "sweep", Args: map[string]string{"fn": o.name, "input": fmt.Sprint(seq)}})
						return
					}
				}
			}
			if len(seq) < depth {
				for o := range ops {
					rec(append(append([]int(nil), seq...), o))
				}
			}
		}
		rec([]int{f})
	})
	var seqs int64
	for _, c := range counts {
		seqs += c
	}
	r.Evaluations.Add(seqs)
	r.Note("history_sequences", seqs)
	r.Note("history_depth", int64(depth))
	r.Note("history_alphabet", int64(len(ops)))
	r.Distinct([]byte("history"), []byte{byte(depth), byte(len(ops))})
}
