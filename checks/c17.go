package checks

import (
	"bytes"
	"fmt"
	"net"
	"strings"
	"time"

	"verif/internal/core"
	"verif/internal/refmodel"

	"github.com/go-i2p/common/data"
	"github.com/go-i2p/common/router_address"
)

func init() { register("C17", runC17, replayC17) }

var c17Hosts = []string{
	"1.2.3.4", "127.0.0.1", "0.0.0.0", "255.255.255.255", "10.0.0.1", "192.168.1.1",
	"::", "::1", "2001:db8::1", "2001:DB8::1", "fe80::1", "::ffff:10.1.2.3", "::ffff:a01:203", "1:2:3:4:5:6:7:8", "2001:db8:0:0:0:0:0:1", "64:ff9b::1.2.3.4",
	"fe80::1%eth0", "[::1]", "[2001:db8::1]", "1.2.3.4:80", "[::1]:80",
	" 1.2.3.4", "1.2.3.4 ", "\t1.2.3.4", "1.2.3.4\n", "01.2.3.4", "1.2.3.04", "1.2.3", "1.2.3.4.5", "256.1.1.1", "1.2.3.-4", "1..3.4", "0x1.2.3.4", "1.2.3.4/24",
	"example.i2p", "localhost", "a", "router.example.com", "xn--nxasmq6b.com", "1.2.3.4.example.com", "deadbeef", "cafe", "::g", "12345::1", "1:2:3:4:5:6:7:8:9", ":::", "1::2::3",
	"", strings.Repeat("a", 255), strings.Repeat("1", 255),
	// the longest spellings: fully zero-padded groups (39 bytes) and mixed notation with a dotted-quad tail (up to 45 bytes)
	"2001:0db8:0000:0000:0000:0000:0000:0001", "0000:0000:0000:0000:0000:0000:0000:0000", "2001:0db8:0000:0000:0000:0000:192.168.100.100",
	"0000:0000:0000:0000:0000:ffff:192.168.100.100", "0000:0000:0000:0000:0000:0000:255.255.255.255", "fe80:0000:0000:0000:0000:0000:0000:0001%eth0",
	"2001:0db8:0000:0000:0000:0000:0000:00001", "1.2.3.4.", ".1.2.3.4", "::ffff:1.2.3", "::1.2.3.4", "1:2:3:4:5:6:1.2.3.4", "1:2:3:4:5:6:7:1.2.3.4",
}

var c17Ports = []string{
	"1", "80", "443", "4567", "65535", "65534", "10000",
	"0", "65536", "99999", "4294967297", "18446744073709551617", "99999999999999999999",
	"00080", "080", "+80", "+1", "+65535", "-1", "-80", "+0", "+65536", " 80", "80 ", "\t80", "80\n", "0x50", "8e1", "80.0", "８０", "eighty", "", "8 0", "1_000",
}

type c17KeyVariant struct {
	name string
	keys func(host, port string) map[string]string
}

var c17KeyVariants = []c17KeyVariant{
	{"exact", func(h, p string) map[string]string { return map[string]string{"host": h, "port": p} }},
	{"prefix-keys-only(hos,por)", func(h, p string) map[string]string { return map[string]string{"hos": h, "por": p} }},
	{"extension-keys-only(hosts,ports)", func(h, p string) map[string]string { return map[string]string{"hosts": h, "ports": p} }},
	{"case-variant-only(Host,PORT)", func(h, p string) map[string]string { return map[string]string{"Host": h, "PORT": p} }},
	{"nul-suffixed-only", func(h, p string) map[string]string { return map[string]string{"host\x00": h, "port\x00": p} }},
	{"exact+decoys", func(h, p string) map[string]string {
		return map[string]string{"host": h, "port": p, "hos": "9.9.9.9", "hosts": "8.8.8.8", "Host": "7.7.7.7", "por": "1111", "ports": "2222", "h": "6.6.6.6"}
	}},
	{"decoys-only", func(h, p string) map[string]string {
		return map[string]string{"hos": "9.9.9.9", "hosts": "8.8.8.8", "Host": "7.7.7.7", "por": "1111", "ports": "2222"}
	}},
	{"absent", func(h, p string) map[string]string { return map[string]string{} }},
}

var c17Caps = []string{"\x00absent", "4", "6", "46", "B", ""}

func c17Addr(opts map[string]string, viaParser bool) (*router_address.RouterAddress, error) {
	if c17Prebuilt != nil {
		return c17Prebuilt(), nil
	}
	if c17Literal {
		// assembled field by field (every field is exported) with nothing but the options: what the accessors
		// answer is a function of the options alone
		m, err := data.GoMapToMapping(opts)
		if err != nil || m == nil {
			return nil, fmt.Errorf("mapping: %v", err)
		}
		return &router_address.RouterAddress{TransportOptions: m}, nil
	}
	if !viaParser {
		return router_address.NewRouterAddress(5, time.Time{}, c17Style, opts)
	}
	var m refmodel.Mapping
	for k, v := range opts {
		m = append(m, refmodel.Pair{K: []byte(k), V: []byte(v)})
	}
	a := refmodel.RouterAddress{Cost: 5, Style: []byte(c17Style), Options: m.Sorted()}
	if c17WireOrder != nil {
		a.Options = c17WireOrder(a.Options)
	}
	v, rem, err := router_address.ReadRouterAddress(a.Bytes())
	if err != nil || len(rem) != 0 {
		return nil, fmt.Errorf("parse: %v rem %d", err, len(rem))
	}
	return &v, nil
}

// c17WireOrder, when set, rearranges the pairs of the reference encoding before it is parsed (the parser
// accepts any order; only the constructors sort). Set around single-threaded passes only.
var c17WireOrder func(refmodel.Mapping) refmodel.Mapping

// c17Style is the transport style of the addresses built by c17Addr; c17Prebuilt, when set, supplies the address to
// evaluate (an address with a history). Both are changed around single-threaded passes only.
var (
	c17Style    = "NTCP2"
	c17Prebuilt func() *router_address.RouterAddress
)

// c17Literal, when set, makes c17Addr assemble the address from its exported fields (options only). Set around
// single-threaded passes only.
var c17Literal bool

// c17One evaluates every accessor clause on one options map.
func c17One(r *core.Run, opts map[string]string, viaParser bool, variant string) {
	c17Eval(r, opts, viaParser, variant, true)
}

// c17Eval: full=false evaluates the host, port and lookup clauses only (no history steps) - used by the
// bounded-exhaustive string enumerations, where the number of option maps is in the millions.
func c17Eval(r *core.Run, opts map[string]string, viaParser bool, variant string, full bool) {
	r.Evaluations.Add(1)
	path := "NewRouterAddress"
	if viaParser {
		path = "ReadRouterAddress"
	}
	if c17Literal {
		path = "RouterAddress{TransportOptions}"
	}
	var sb strings.Builder
	for k, v := range opts {
		fmt.Fprintf(&sb, "%x=%x;", k, v)
	}
	cs := core.Case{Kind: "opts", Args: map[string]string{"pairs": sb.String(), "parser": fmt.Sprint(viaParser), "variant": variant}}
	ra, err := c17Addr(opts, viaParser)
	if err != nil || ra == nil {
		r.AddNote("address_not_built_"+path, 1)
		return
	}
	bad := func(clause, detail string) {
		r.Violate("C17|"+clause+"|"+path+"|keys="+variant, detail, cs)
	}
	defer func() {
		if x := recover(); x != nil {
			bad("accessor-panics", fmt.Sprintf("an accessor panics (neither success nor error): %v", x))
		}
	}()
	host, hasHost := opts["host"]
	port, hasPort := opts["port"]
	// ---- host
	addr, herr := ra.Host()
	valid := ra.HasValidHost()
	ver := ra.IPVersion()
	hv, hip, fam := refmodel.ParseIPLiteral(host)
	if !hasHost {
		hv = refmodel.Reject
	}
	if (herr == nil) != valid {
		bad("host-vs-hasvalidhost", fmt.Sprintf("host %q: Host() err=%v but HasValidHost()=%v", host, herr, valid))
	}
	switch hv {
	case refmodel.Accept:
		if herr != nil {
			bad("ip-literal-rejected", fmt.Sprintf("host %q is an IP literal but Host() fails: %v", host, herr))
		}
	case refmodel.Reject:
		if herr == nil {
			bad("non-ip-host-accepted", fmt.Sprintf("host %q (present=%v) is not an IP literal but Host() returns %v", host, hasHost, addr))
		}
	}
	if herr == nil && hv == refmodel.Accept {
		ipa, ok := addr.(*net.IPAddr)
		if !ok || !bytes.Equal(ipa.IP.To16(), hip[:]) {
			bad("host-value", fmt.Sprintf("host %q: Host() returns %v, the literal denotes %v", host, addr, net.IP(hip[:])))
		}
		want := "6"
		if fam == 4 {
			want = "4"
		}
		if ver != want {
			bad("ipversion-vs-family", fmt.Sprintf("host %q is an IPv%s address but IPVersion() = %q", host, want, ver))
		}
	}
	if herr == nil && ver != "4" && ver != "6" {
		bad("ipversion-vs-family", fmt.Sprintf("host %q accepted but IPVersion() = %q", host, ver))
	}
	if herr == nil {
		if ipa, ok := addr.(*net.IPAddr); ok {
			is4 := ipa.IP.To4() != nil
			if (ver == "4") != is4 {
				bad("ipversion-vs-family", fmt.Sprintf("host %q: Host() returns %v but IPVersion() = %q", host, addr, ver))
			}
		}
	}
	// ---- history: the address handed out is the caller's; what it does with it must not reach a later,
	// independent lookup of the same literal (H2), and a later lookup must not overwrite it (H1)
	if ipa, ok := addr.(*net.IPAddr); full && ok && herr == nil && ipa != nil {
		render := func(a net.Addr) string {
			x, ok := a.(*net.IPAddr)
			if !ok || x == nil {
				return fmt.Sprintf("%T", a)
			}
			return fmt.Sprintf("%x|%s", []byte(x.IP), x.Zone)
		}
		before := render(ipa)
		var a2 net.Addr
		if ra2, err := c17Addr(opts, viaParser); err == nil && ra2 != nil {
			a2, _ = ra2.Host()
		}
		if render(ipa) != before {
			bad("host-result-changed-after-a-later-call", fmt.Sprintf("host %q: the address returned by Host() changed when Host() was called on another value with the same options", host))
		}
		for _, x := range []net.Addr{ipa, a2} {
			if y, ok := x.(*net.IPAddr); ok && y != nil {
				for i := range y.IP {
					y.IP[i] = 0xA5
				}
				y.Zone = "scribbled"
			}
		}
		if ra3, err := c17Addr(opts, viaParser); err == nil && ra3 != nil {
			a3, e3 := ra3.Host()
			if e3 != nil || render(a3) != before {
				bad("host-result-depends-on-earlier-callers", fmt.Sprintf("host %q: after earlier callers overwrote the addresses they had been given, Host() on a fresh value returns %v (err %v)", host, a3, e3))
			}
			if ra3.HasValidHost() != valid || ra3.IPVersion() != ver {
				bad("host-result-depends-on-earlier-callers", fmt.Sprintf("host %q: HasValidHost/IPVersion changed after earlier callers overwrote their results", host))
			}
		}
	}
	// ---- port
	ps, perr := ra.Port()
	pvalid := ra.HasValidPort()
	pv, canon := refmodel.ParsePort(port)
	if !hasPort {
		pv = refmodel.Reject
	}
	if (perr == nil) != pvalid {
		bad("port-vs-hasvalidport", fmt.Sprintf("port %q: Port() err=%v but HasValidPort()=%v", port, perr, pvalid))
	}
	switch pv {
	case refmodel.Accept:
		if perr != nil {
			bad("valid-port-rejected", fmt.Sprintf("port %q rejected: %v", port, perr))
		} else if ps != canon {
			bad("port-not-canonical", fmt.Sprintf("port %q -> %q, canonical %q", port, ps, canon))
		}
	case refmodel.Reject:
		if perr == nil {
			bad("invalid-port-accepted", fmt.Sprintf("port %q (present=%v) accepted as %q", port, hasPort, ps))
		}
	case refmodel.Unspecified:
		if perr == nil && ps != canon {
			bad("port-not-canonical", fmt.Sprintf("port %q -> %q, canonical %q", port, ps, canon))
		}
	}
	// ---- option lookup returns the value stored under exactly the requested key
	for _, k := range []string{"host", "port", "hos", "hosts", "Host", "por", "caps", "h", "host\x00", ""} {
		ks, _ := data.ToI2PString(k)
		got := ra.GetOption(ks)
		want, present := opts[k]
		if ra.HasOption(ks) != present || ra.CheckOption(k) != present {
			bad("hasoption", fmt.Sprintf("HasOption/CheckOption(%q) = %v/%v, key present = %v", k, ra.HasOption(ks), ra.CheckOption(k), present))
		}
		if present {
			gs, err := got.Data()
			if got == nil || err != nil || gs != want {
				bad("getoption", fmt.Sprintf("GetOption(%q) = %q (err %v), stored value %q", k, gs, err, want))
			}
			if !full {
				continue
			}
			// history: overwrite the returned string's bytes, then look the key up on a fresh value
			if rx, err := c17Addr(opts, viaParser); err == nil && rx != nil { // (on its own value: an accessor may legitimately expose its receiver's storage)
				gx := rx.GetOption(ks)
				for i := range gx {
					gx[i] = 0xA5
				}
			}
			if rb, err := c17Addr(opts, viaParser); err == nil && rb != nil {
				g2 := rb.GetOption(ks)
				if s2, e2 := g2.Data(); g2 == nil || e2 != nil || s2 != want {
					bad("getoption-depends-on-earlier-callers", fmt.Sprintf("GetOption(%q) on a fresh value = %q (err %v) after an earlier caller overwrote its result; stored value %q", k, s2, e2, want))
				}
			}
		} else if got != nil {
			gs, _ := got.Data()
			bad("getoption", fmt.Sprintf("GetOption(%q) = %q but no such key is stored", k, gs))
		}
	}
	r.Distinct([]byte(path), []byte(sb.String()))
}

func runC17(r *core.Run) {
	r.Level = "exploration"
	r.Rule = "full product of a 50-string host menu (canonical and non-canonical IPv4/IPv6 literals, IPv4-mapped, zones, brackets, host:port, whitespace, leading zeros, hostnames, hex-looking names, empty, 255 bytes) x 34-string port menu (decimal, boundaries, overflow incl. > 2^64, signed, padded, whitespace, non-ASCII digits, empty) under the exact keys, plus key variants (prefix / extension / case / NUL-suffixed keys, decoys, absent) x caps {absent,4,6,46,B,''}; through NewRouterAddress and ReadRouterAddress(reference bytes); static key / IV values of every length 0..40; bounded-exhaustive string spaces (every decimal port 0..70000 as n, 0n, +n, -n; every string of length <= 4 [thorough: 7] over {0 1 5 6 9 + - space}; every dotted quad over 13 octet spellings; every string of length <= 4 [thorough: 6] over {0 1 2 5 9 . : a f g % space}). Oracle: independent three-valued IP-literal and port recognisers. non-trivial = distinct (path, option map) evaluated"
	r.Assume("Unspecified inputs (leading zeros in a dotted quad, zone identifiers, '+' or zero-padded ports) are bound only by the consistency clauses (Host ok <=> HasValidHost, Port ok <=> HasValidPort, canonical output)")
	type job struct {
		opts    map[string]string
		variant string
	}
	var jobs []job
	for _, h := range c17Hosts {
		for _, p := range c17Ports {
			jobs = append(jobs, job{map[string]string{"host": h, "port": p}, "exact"})
		}
	}
	for _, kv := range c17KeyVariants[1:] {
		for _, h := range []string{"1.2.3.4", "::1", "example.i2p", ""} {
			for _, p := range []string{"80", "0", "+80", ""} {
				jobs = append(jobs, job{kv.keys(h, p), kv.name})
			}
		}
	}
	for _, caps := range c17Caps {
		for _, h := range []string{"\x00absent", "1.2.3.4", "::1", "::ffff:10.1.2.3", "example.i2p", ""} {
			o := map[string]string{"port": "80"}
			if h != "\x00absent" {
				o["host"] = h
			}
			if caps != "\x00absent" {
				o["caps"] = caps
			}
			jobs = append(jobs, job{o, "caps"})
		}
	}
	core.ParallelFor(len(jobs), func(_, i int) {
		c17One(r, jobs[i].opts, false, jobs[i].variant)
		c17One(r, jobs[i].opts, true, jobs[i].variant)
	})
	// the same option maps on addresses assembled from their exported fields with nothing but the options
	c17Literal = true
	for i := range jobs {
		if i%7 == 0 || jobs[i].variant != "exact" { // every 7th of the host x port product, all key-variant and caps jobs
			c17Eval(r, jobs[i].opts, false, jobs[i].variant, false)
		}
	}
	for _, n := range []int{0, 15, 16, 17, 31, 32, 33} {
		val := string(refmodel.Fill("sk", uint64(n), n))
		if ra, err := c17Addr(map[string]string{"s": val, "i": val}, false); err == nil && ra != nil {
			r.Evaluations.Add(1)
			var e1, e2 error
			if pan, msg := core.Guard(func() { _, e1 = ra.StaticKey(); _, e2 = ra.InitializationVector() }); pan {
				r.Violate("C17|accessor-panics|RouterAddress{TransportOptions}", "StaticKey / InitializationVector panics on an address assembled from its options only: "+msg, core.Case{Kind: "keylen", Args: map[string]string{"n": fmt.Sprint(n)}})
			} else if (e1 == nil) != (n == 32) || (e2 == nil) != (n == 16) {
				r.Violate("C17|statickey-length|RouterAddress{TransportOptions}", fmt.Sprintf("address assembled from its options only, %d-byte values: StaticKey err=%v, InitializationVector err=%v", n, e1, e2), core.Case{Kind: "keylen", Args: map[string]string{"n": fmt.Sprint(n)}})
			}
		}
	}
	c17Literal = false
	// edit histories: an address is queried (every accessor), then its options are replaced - in place, and on a copy
	// of the struct - by another mapping; every clause is then evaluated against the NEW options. All ordered pairs of
	// a 7-map menu (IPv4 / IPv6 / IPv4-mapped / hostname / no host; two ports), both construction paths.
	{
		menu := []map[string]string{
			{"host": "10.1.2.3", "port": "4567", "caps": "4"}, {"host": "2001:db8::1", "port": "80", "caps": "6"}, {"host": "::ffff:10.1.2.3", "port": "1"},
			{"host": "router.example.com", "port": "65535"}, {"port": "4567", "caps": "46"}, {"host": "1.2.3.4"}, {"host": "::1", "port": "0", "s": string(refmodel.Fill("sk", 32, 32)), "i": string(refmodel.Fill("sk", 16, 16))},
		}
		touch := func(ra *router_address.RouterAddress) {
			core.Guard(func() {
				ra.Host()
				ra.Port()
				ra.IPVersion()
				ra.HasValidHost()
				ra.HasValidPort()
				ra.StaticKey()
				ra.InitializationVector()
				_ = ra.Network()
				_ = ra.String()
				_ = ra.Bytes()
				ra.UDP()
				ra.CapsString()
				ra.HostString()
				ra.PortString()
			})
		}
		for i, m1 := range menu {
			for j, m2 := range menu {
				if i == j {
					continue
				}
				for _, viaParser := range []bool{false, true} {
					for _, how := range []string{"in-place", "struct-copy"} {
						ra, err := c17Addr(m1, viaParser)
						nm, err2 := data.GoMapToMapping(m2)
						if err != nil || err2 != nil || ra == nil || nm == nil {
							continue
						}
						touch(ra)
						target := ra
						if how == "struct-copy" {
							cp := *ra
							target = &cp
						}
						target.TransportOptions = nm
						c17Prebuilt = func() *router_address.RouterAddress { return target }
						c17Eval(r, m2, viaParser, "options-replaced-after-use["+how+"]", false)
						c17Prebuilt = nil
					}
				}
			}
		}
	}
	// the static key / IV clauses under other transport styles: what the accessors answer is a function of the options
	for _, st := range []string{"SSU2", "NTCP", "SSU", "ntcp2", "NTCP2 ", "X"} {
		c17Style = st
		for _, n := range []int{0, 15, 16, 17, 31, 32, 33} {
			val := string(refmodel.Fill("sk", uint64(n), n))
			for _, viaParser := range []bool{false, true} {
				ra, err := c17Addr(map[string]string{"s": val, "i": val, "v": "2"}, viaParser)
				if err != nil || ra == nil {
					continue
				}
				r.Evaluations.Add(1)
				_, e1 := ra.StaticKey()
				_, e2 := ra.InitializationVector()
				if (e1 == nil) != (n == 32) || (e2 == nil) != (n == 16) {
					r.Violate("C17|statickey-length|transport-style", fmt.Sprintf("transport style %q, %d-byte values: StaticKey err=%v, InitializationVector err=%v", st, n, e1, e2), core.Case{Kind: "keylen", Args: map[string]string{"n": fmt.Sprint(n), "style": st, "parser": fmt.Sprint(viaParser)}})
				}
			}
		}
		c17Eval(r, map[string]string{"host": "10.1.2.3", "port": "4567"}, false, "style="+st, false)
		c17Eval(r, map[string]string{"host": "::1", "port": "0"}, true, "style="+st, false)
	}
	c17Style = "NTCP2"
	// large option sets (1..24 extra options around the well-known keys), through the constructor and through the
	// parser in three wire orders: ascending, descending, and interleaved from both ends
	{
		orders := map[string]func(refmodel.Mapping) refmodel.Mapping{
			"ascending": nil,
			"descending": func(m refmodel.Mapping) refmodel.Mapping {
				out := append(refmodel.Mapping(nil), m...)
				for i, j := 0, len(out)-1; i < j; i, j = i+1, j-1 {
					out[i], out[j] = out[j], out[i]
				}
				return out
			},
			"interleaved": func(m refmodel.Mapping) refmodel.Mapping {
				var out refmodel.Mapping
				for i, j := 0, len(m)-1; i <= j; i, j = i+1, j-1 {
					out = append(out, m[j])
					if i != j {
						out = append(out, m[i])
					}
				}
				return out
			},
		}
		for _, on := range []string{"ascending", "descending", "interleaved"} {
			c17WireOrder = orders[on]
			for extra := 1; extra <= 24; extra++ {
				o := map[string]string{"host": "10.1.2.3", "port": "4567", "caps": "4", "s": string(refmodel.Fill("sk", 32, 32)), "i": string(refmodel.Fill("sk", 16, 16))}
				for k := 0; k < extra; k++ {
					o[fmt.Sprintf("%c-opt%02d", 'a'+byte(k%26), k)] = fmt.Sprintf("v%d", k)
				}
				c17One(r, o, true, "many-options["+on+"]")
				if on == "ascending" {
					c17One(r, o, false, "many-options")
				}
				// static key / IV through the same lookup
				if ra, err := c17Addr(o, true); err == nil && ra != nil {
					if _, e := ra.StaticKey(); e != nil {
						r.Violate("C17|statickey-length|many-options["+on+"]", fmt.Sprintf("%d options in %s wire order: StaticKey() fails for a stored 32-byte value: %v", len(o), on, e), core.Case{Kind: "keylen", Args: map[string]string{"n": "32", "parser": "true"}})
					}
					if _, e := ra.InitializationVector(); e != nil {
						r.Violate("C17|iv-length|many-options["+on+"]", fmt.Sprintf("%d options in %s wire order: InitializationVector() fails for a stored 16-byte value: %v", len(o), on, e), core.Case{Kind: "keylen", Args: map[string]string{"n": "16", "parser": "true"}})
					}
				}
			}
		}
		c17WireOrder = nil
	}
	// caps-derived version only when the host gives none
	for _, caps := range c17Caps {
		o := map[string]string{}
		if caps != "\x00absent" {
			o["caps"] = caps
		}
		for _, viaParser := range []bool{false, true} {
			ra, err := c17Addr(o, viaParser)
			if err != nil {
				continue
			}
			r.Evaluations.Add(1)
			var v string
			if pan, msg := core.Guard(func() { v = ra.IPVersion() }); pan {
				r.Violate("C17|accessor-panics|caps-only", fmt.Sprintf("IPVersion() panics with caps=%q and no host: %s", caps, msg), core.Case{Kind: "opts", Args: map[string]string{"pairs": "caps", "parser": fmt.Sprint(viaParser)}})
				continue
			}
			if _, err := ra.Host(); err == nil {
				r.Violate("C17|non-ip-host-accepted|caps-only", "Host() succeeds without a host option", core.Case{Kind: "opts", Args: map[string]string{"pairs": "caps", "parser": fmt.Sprint(viaParser)}})
			}
			if caps == "\x00absent" && v != "" {
				r.Violate("C17|ipversion-vs-family|no-host-no-caps", fmt.Sprintf("IPVersion() = %q with neither host nor caps", v), core.Case{Kind: "opts", Args: map[string]string{"pairs": "", "parser": fmt.Sprint(viaParser)}})
			}
		}
	}
	// static key / IV values that are TEXT: the I2P base64 / base32 / hex spelling of k bytes for every k in 0..48
	// (a 16-byte IV spelt in base64 is 24 bytes long, a 32-byte key 44): the accessors succeed exactly for 32- and
	// 16-byte VALUES, whatever the bytes look like, and return those bytes
	{
		styles := map[string]func([]byte) string{
			"base64": func(b []byte) string { return refmodel.B64Encode(b) },
			"base32": func(b []byte) string { return refmodel.B32Encode(b, false) },
			"hex":    func(b []byte) string { return fmt.Sprintf("%x", b) },
			"digits": func(b []byte) string { return strings.Repeat("7", len(b)) },
			"equals": func(b []byte) string { return strings.Repeat("=", len(b)) },
		}
		for _, sn := range []string{"base64", "base32", "hex", "digits", "equals"} {
			for k := 0; k <= 48; k++ {
				val := styles[sn](refmodel.Fill("txt", uint64(k), k))
				if len(val) > 255 {
					continue
				}
				for _, viaParser := range []bool{false, true} {
					r.Evaluations.Add(1)
					ra, err := c17Addr(map[string]string{"s": val, "i": val}, viaParser)
					if err != nil || ra == nil {
						continue
					}
					cs := core.Case{Kind: "keylen", Args: map[string]string{"n": fmt.Sprint(len(val)), "style": sn, "parser": fmt.Sprint(viaParser)}}
					sk, e1 := ra.StaticKey()
					iv, e2 := ra.InitializationVector()
					if (e1 == nil) != (len(val) == 32) || (e1 == nil && string(sk[:]) != val) {
						r.Violate("C17|statickey-length|text-value["+sn+"]", fmt.Sprintf("static key option holding %d bytes of %s text (%q): err=%v, returned %x", len(val), sn, val, e1, sk), cs)
					}
					if (e2 == nil) != (len(val) == 16) || (e2 == nil && string(iv[:]) != val) {
						r.Violate("C17|iv-length|text-value["+sn+"]", fmt.Sprintf("IV option holding %d bytes of %s text (%q): err=%v, returned %x", len(val), sn, val, e2, iv), cs)
					}
					r.Distinct([]byte("keytext"), []byte(sn), []byte{byte(k)}, []byte(fmt.Sprint(viaParser)))
				}
			}
		}
	}
	// static key / IV lengths
	for n := 0; n <= 40; n++ {
		for _, viaParser := range []bool{false, true} {
			r.Evaluations.Add(1)
			val := string(refmodel.Fill("sk", uint64(n), n))
			ra, err := c17Addr(map[string]string{"s": val, "i": val}, viaParser)
			if err != nil {
				continue
			}
			cs := core.Case{Kind: "keylen", Args: map[string]string{"n": fmt.Sprint(n), "parser": fmt.Sprint(viaParser)}}
			sk, e1 := ra.StaticKey()
			iv, e2 := ra.InitializationVector()
			if (e1 == nil) != (n == 32) || (e1 == nil && string(sk[:]) != val) {
				r.Violate("C17|statickey-length", fmt.Sprintf("static key of %d bytes: err=%v", n, e1), cs)
			}
			if (e2 == nil) != (n == 16) || (e2 == nil && string(iv[:]) != val) {
				r.Violate("C17|iv-length", fmt.Sprintf("IV of %d bytes: err=%v", n, e2), cs)
			}
			r.Distinct([]byte("keylen"), []byte{byte(n)}, []byte(fmt.Sprint(viaParser)))
		}
	}
	c17Bounded(r)
	r.Sample(map[string]any{"host": "::ffff:10.1.2.3", "port": "+80", "keys": "exact", "paths": []string{"NewRouterAddress", "ReadRouterAddress"}})
	r.Sample(map[string]any{"host": "router.example.com", "expect": "Host() error, HasValidHost() false"})
}

func replayC17(r *core.Run, c core.Case) {
	if c.Kind != "opts" {
		runC17(r)
		return
	}
	opts := map[string]string{}
	for _, p := range strings.Split(c.Args["pairs"], ";") {
		if kv := strings.SplitN(p, "=", 2); len(kv) == 2 {
			opts[string(core.UnHex(kv[0]))] = string(core.UnHex(kv[1]))
		}
	}
	c17One(r, opts, c.Args["parser"] == "true", c.Args["variant"])
}

// c17Bounded: bounded-exhaustive string spaces for the two grammars the accessors recognise.
//   - every decimal port 0..70000, canonical and with one leading zero, '+' and '-' sign;
//   - every string of length <= L over the port alphabet {0 1 5 6 9 + - space};
//   - every dotted quad over a 13-value octet menu (boundaries of each decimal width and of the octet range);
//   - every string of length <= L over the host alphabet {0 1 2 5 9 . : a f g % space}.
//
// L is 4 in the quick tier and 6 (hosts) / 7 (ports) in the thorough tier.
func c17Bounded(r *core.Run) {
	var ports []string
	for n := 0; n <= 70000; n++ {
		d := fmt.Sprint(n)
		ports = append(ports, d, "0"+d, "+"+d, "-"+d)
	}
	strs := func(alpha string, maxLen int) []string {
		out := []string{""}
		level := []string{""}
		for l := 1; l <= maxLen; l++ {
			var next []string
			for _, p := range level {
				for i := 0; i < len(alpha); i++ {
					next = append(next, p+alpha[i:i+1])
				}
			}
			out = append(out, next...)
			level = next
		}
		return out
	}
	pl, hl := 4, 4
	if !r.Quick() {
		pl, hl = 7, 6
	}
	ports = append(ports, strs("01569+- ", pl)...)
	var hosts []string
	oct := []string{"0", "1", "9", "10", "99", "100", "199", "200", "249", "250", "255", "256", "300"}
	for _, a := range oct {
		for _, b := range oct {
			for _, c := range oct {
				for _, d := range oct {
					hosts = append(hosts, a+"."+b+"."+c+"."+d)
				}
			}
		}
	}
	hosts = append(hosts, strs("01259.:afg% ", hl)...)
	r.Note("bounded_port_strings", int64(len(ports)))
	r.Note("bounded_host_strings", int64(len(hosts)))
	core.ParallelFor(len(ports), func(_, i int) {
		if r.Expired() {
			return
		}
		c17Eval(r, map[string]string{"host": "1.2.3.4", "port": ports[i]}, false, "bounded-port", false)
	})
	core.ParallelFor(len(hosts), func(_, i int) {
		if r.Expired() {
			return
		}
		c17Eval(r, map[string]string{"host": hosts[i], "port": "80"}, false, "bounded-host", false)
	})
}
