package checks

import (
	"bytes"
	"crypto/ed25519"
	"errors"
	"fmt"
	"reflect"
	"strings"
	"time"

	"verif/internal/adapt"
	"verif/internal/choose"
	"verif/internal/core"
	"verif/internal/gen"
	"verif/internal/refmodel"

	"github.com/go-i2p/common/certificate"
	"github.com/go-i2p/common/data"
	"github.com/go-i2p/common/encrypted_leaseset"
	"github.com/go-i2p/common/keys_and_cert"
	"github.com/go-i2p/common/lease"
	"github.com/go-i2p/common/lease_set"
	"github.com/go-i2p/common/lease_set2"
	"github.com/go-i2p/common/offline_signature"
	"github.com/go-i2p/common/router_address"
	"github.com/go-i2p/common/signature"
)

func init() { register("C14", runC14, replayC14) }

// structuralValidate calls the structure's structural validator (ValidateStructure for the
// offline signature, Validate otherwise; both free of time-dependent clauses for our far-future dates).
func structuralValidate(v any) (error, bool) {
	rv := reflect.ValueOf(v)
	if rv.Kind() != reflect.Ptr {
		p := reflect.New(rv.Type())
		p.Elem().Set(rv)
		rv = p
	}
	for _, name := range []string{"ValidateStructure", "Validate"} {
		m := rv.MethodByName(name)
		if !m.IsValid() || m.Type().NumIn() != 0 || m.Type().NumOut() != 1 {
			continue
		}
		var out []reflect.Value
		if pan, msg := core.Guard(func() { out = m.Call(nil) }); pan {
			return errors.New("panic: " + msg), true
		}
		if out[0].IsNil() {
			return nil, true
		}
		return out[0].Interface().(error), true
	}
	return nil, false
}

// c14RoundTrip: Bytes() ok, re-parse ok with empty remainder, same serialisation.
func c14RoundTrip(fam string, aux int, ser func() ([]byte, error)) (string, bool) {
	var b []byte
	var err error
	if pan, msg := core.Guard(func() { b, err = ser() }); pan {
		return "Bytes() panics: " + msg, false
	}
	if err != nil {
		return "Bytes() fails: " + err.Error(), false
	}
	pfam := fam
	if fam == "OfflineSignature" {
		pfam = fmt.Sprintf("OfflineSignature[%d]", aux)
	}
	if fam == "Signature" {
		pfam = fmt.Sprintf("Signature[%d]", aux)
	}
	ps := adapt.ByFamily(pfam)
	if len(ps) == 0 {
		return "", true
	}
	var res adapt.Parsed
	if pan, msg := core.Guard(func() { res = ps[0].Fn(b) }); pan {
		return "re-parse panics: " + msg, false
	}
	if !res.OK {
		return "its own bytes do not parse: " + rejectClass(fam, b, res.Err), false
	}
	if res.HasRem && len(res.Rem) != 0 {
		return fmt.Sprintf("its own bytes leave a %d-byte remainder", len(res.Rem)), false
	}
	b2, err := res.Ser()
	if err != nil || !bytes.Equal(b, b2) {
		return "re-parsed value serialises differently", false
	}
	return "", true
}

type c14Outcome struct {
	entry    string
	ctorErr  error
	value    any                    // constructor output (nil if refused)
	ser      func() ([]byte, error) // serialiser of the constructor output
	encoding []byte                 // wire encoding of the same field values (to reach Validate via the parser when the constructor refuses)
}

// c14Defect is a single structural defect applied to constructor arguments.
type c14Defect struct {
	name       string
	documented bool // listed by the validators' documentation: must be rejected by constructor and validator alike
}

func c14Report(r *core.Run, fam string, aux int, d c14Defect, o c14Outcome, desc string, cs core.Case) {
	r.Evaluations.Add(1)
	id := "C14|" + o.entry + "|defect=" + d.name
	if o.ctorErr == nil && o.value != nil {
		r.Traces.Add(1)
		verr, has := structuralValidate(o.value)
		if has && verr != nil {
			r.Violate(id+"|constructor-accepts-what-validate-rejects", fmt.Sprintf("%s succeeds but the value fails its own structural validation: %s (%s; %s)", o.entry, errClass(verr.Error()), d.name, desc), cs)
		}
		if has && verr == nil && o.ser != nil {
			if why, ok := c14RoundTrip(fam, aux, o.ser); !ok {
				vid := id + "|valid-value-no-clean-roundtrip"
				if strings.Contains(why, "do not parse: ") { // the parser's reason is the class (e.g. the MIN_SIZE constant)
					vid = "C14|" + o.entry + "|valid-value-no-clean-roundtrip[" + why[strings.Index(why, "do not parse: ")+14:] + "]"
				}
				r.Violate(vid, fmt.Sprintf("%s succeeds and the value validates, but %s (%s; %s)", o.entry, why, d.name, desc), cs)
			}
		}
		if d.documented {
			r.Violate(id+"|documented-defect-accepted-by-constructor", fmt.Sprintf("%s accepts arguments with the documented structural defect %q (Validate says: %v) (%s)", o.entry, d.name, verr, desc), cs)
		}
		r.Distinct([]byte(o.entry), []byte(d.name), []byte(desc))
		return
	}
	// constructor refused: for a documented defect the validator must refuse the same field values too
	if d.documented && o.encoding != nil {
		pfam := fam
		if fam == "OfflineSignature" {
			pfam = fmt.Sprintf("OfflineSignature[%d]", aux)
		}
		for _, p := range adapt.ByFamily(pfam)[:1] {
			var res adapt.Parsed
			if pan, _ := core.Guard(func() { res = p.Fn(o.encoding) }); pan || !res.OK || res.Val == nil {
				continue // the parser refuses as well: nothing reaches the validator
			}
			if verr, has := structuralValidate(res.Val); has && verr == nil {
				r.Violate(id+"|documented-defect-accepted-by-validator", fmt.Sprintf("%s refuses the defect %q (%v) but the same field values, obtained through %s, pass structural validation (%s)", o.entry, d.name, o.ctorErr, p.Name, desc), cs)
			}
			r.Distinct([]byte(p.Name), []byte(d.name), []byte(desc))
		}
	}
	if !d.documented && d.name == "none" {
		r.AddNote("constructor_refused_valid_"+fam, 1)
	}
}

// ---- per-structure argument builders ----

func c14LeaseSet2(s gen.Signed, d string) c14Outcome {
	ls := s.Value.(refmodel.LeaseSet2)
	o := c14Outcome{entry: "lease_set2.NewLeaseSet2"}
	var keyLenOverride = -1
	noOffline := false
	switch d {
	case "reserved-flag-bit3":
		ls.Flags |= 8
	case "reserved-flag-bit15":
		ls.Flags |= 0x8000
	case "offline-flag-without-block":
		ls.Offline = nil
		ls.Flags |= 1
	case "offline-block-without-flag":
		if ls.Offline == nil {
			kp := gen.Key(ls.Dest.SigType, 31)
			off := refmodel.Offline{Expires: gen.OfflineExp, TransType: 7, TransKey: gen.Key(7, 1032).Pub}
			off.Sig = refmodel.Sign(kp, off.SignedData())
			ls.Offline = &off
		}
		ls.Flags &^= 1
		noOffline = true
	case "no-keys":
		ls.Keys = nil
	case "17-keys":
		ls.Keys = nil
		for i := 0; i < 17; i++ {
			ls.Keys = append(ls.Keys, refmodel.EncKey{Type: 4, Data: refmodel.Fill("k17", uint64(i), 32)})
		}
	case "17-leases":
		ls.Leases = nil
		for i := 0; i < 17; i++ {
			ls.Leases = append(ls.Leases, refmodel.Lease2{Hash: [32]byte{byte(i + 1)}, TunnelID: 1, EndSec: gen.LeaseEndSec})
		}
	case "x25519-key-31-bytes":
		ls.Keys = append([]refmodel.EncKey{{Type: 4, Data: refmodel.Fill("k31", 1, 31)}}, ls.Keys[1:]...)
	case "elgamal-key-255-bytes":
		ls.Keys = append([]refmodel.EncKey{{Type: 0, Data: refmodel.Fill("k255", 1, 255)}}, ls.Keys[1:]...)
	case "keylen-field-mismatch":
		keyLenOverride = len(ls.Keys[0].Data) + 1
	}
	dst, err := adapt.Destination(ls.Dest)
	if err != nil {
		o.ctorErr = adapt.ErrNotConstructible{Why: err.Error()}
		return o
	}
	off, err := adapt.Offline(ls.Offline, ls.Dest.SigType)
	if err != nil {
		o.ctorErr = adapt.ErrNotConstructible{Why: err.Error()}
		return o
	}
	lm, _ := adapt.LibMappingOf(ls.Options) // out-of-order options keep their wire order (they can only have been received)
	m := &lm
	var keys []lease_set2.EncryptionKey
	for i, k := range ls.Keys {
		kl := len(k.Data)
		if i == 0 && keyLenOverride >= 0 {
			kl = keyLenOverride
		}
		keys = append(keys, lease_set2.EncryptionKey{KeyType: uint16(k.Type), KeyLen: uint16(kl), KeyData: k.Data})
	}
	var leases []lease.Lease2
	for _, l := range ls.Leases {
		ll, _ := adapt.Lease2(l)
		leases = append(leases, *ll)
	}
	v, err := lease_set2.NewLeaseSet2(*dst, ls.Published, ls.Expires, ls.Flags, off, *m, keys, leases, nil)
	o.ctorErr = err
	if err == nil {
		o.value, o.ser = &v, (&v).Bytes
	}
	if keyLenOverride < 0 && !noOffline && len(ls.Keys) <= 255 && len(ls.Leases) <= 255 {
		enc := ls
		enc.Options = ls.Options.Sorted()
		enc.Sig = make([]byte, 64)
		if pan, _ := core.Guard(func() { o.encoding = enc.Bytes() }); pan {
			o.encoding = nil
		}
	}
	return o
}

func c14ELS(s gen.Signed, d string) c14Outcome {
	e := s.Value.(refmodel.EncryptedLeaseSet)
	o := c14Outcome{entry: "encrypted_leaseset.NewEncryptedLeaseSet"}
	switch d {
	case "reserved-flag-bit2":
		e.Flags |= 4
	case "reserved-flag-bit15":
		e.Flags |= 0x8000
	case "offline-flag-without-block":
		e.Offline = nil
		e.Flags |= 1
	case "offline-block-without-flag":
		if e.Offline == nil {
			off := refmodel.Offline{Expires: gen.OfflineExp, TransType: 7, TransKey: gen.Key(7, 1052).Pub, Sig: make([]byte, refmodel.SigTable[e.SigType].SigLen)}
			e.Offline = &off
		}
		e.Flags &^= 1
	case "expires-zero":
		e.Expires = 0
	case "blinded-key-one-byte-short":
		e.Blinded = e.Blinded[:len(e.Blinded)-1]
	case "blinded-key-one-byte-long":
		e.Blinded = append(append([]byte(nil), e.Blinded...), 1)
	case "unknown-sigtype":
		e.SigType = 9
	case "inner-empty":
		e.Inner = nil
	case "inner-60-bytes":
		e.Inner = refmodel.Fill("in60", 1, 60)
	case "inner-65536-bytes":
		e.Inner = refmodel.Fill("in64k", 1, 65536)
	case "inner-65606-bytes":
		e.Inner = refmodel.Fill("in64k", 2, 65606)
	}
	off, err := adapt.Offline(e.Offline, s.Value.(refmodel.EncryptedLeaseSet).SigType)
	if err != nil {
		o.ctorErr = adapt.ErrNotConstructible{Why: err.Error()}
		return o
	}
	if len(s.Signer.Priv) != 64 {
		o.ctorErr = adapt.ErrNotConstructible{Why: "Ed25519 keys only"}
		return o
	}
	v, err := encrypted_leaseset.NewEncryptedLeaseSet(uint16(e.SigType), e.Blinded, e.Published, e.Expires, e.Flags, off, e.Inner, ed25519.PrivateKey(s.Signer.Priv))
	o.ctorErr = err
	if err == nil && v != nil {
		o.value, o.ser = v, v.Bytes
	}
	if len(e.Inner) <= 65535 && refmodel.SigKnown(e.SigType) && d != "offline-block-without-flag" {
		enc := e
		if len(enc.Sig) == 0 {
			enc.Sig = make([]byte, 64)
		}
		core.Guard(func() { o.encoding = enc.Bytes() })
	}
	return o
}

func c14Offline(s gen.Signed, destType int, d string) c14Outcome {
	v := s.Value.(refmodel.Offline)
	o := c14Outcome{entry: "offline_signature.NewOfflineSignature"}
	dt := destType
	switch d {
	case "expires-zero":
		v.Expires = 0
	case "transient-key-one-byte-short":
		v.TransKey = v.TransKey[:len(v.TransKey)-1]
	case "signature-one-byte-long":
		v.Sig = append(append([]byte(nil), v.Sig...), 7)
	case "unknown-transient-type":
		v.TransType = 9
	case "unknown-destination-type":
		dt = 10
	}
	ov, err := offline_signature.NewOfflineSignature(v.Expires, uint16(v.TransType), v.TransKey, v.Sig, uint16(dt))
	o.ctorErr = err
	if err == nil {
		o.value, o.ser = &ov, func() ([]byte, error) { return (&ov).Bytes(), nil }
	}
	if d == "expires-zero" {
		o.encoding = v.Bytes()
	}
	return o
}

func c14RouterInfo(s gen.Signed, d string) c14Outcome {
	ri := s.Value.(refmodel.RouterInfo)
	o := c14Outcome{entry: "router_info.NewRouterInfo"}
	switch d {
	case "no-addresses":
		ri.Addrs = nil
	case "published-zero":
		ri.Published = 0
	}
	v, err := adapt.RouterInfo(ri, s.IDKey)
	o.ctorErr = err
	if err == nil && v != nil {
		o.value, o.ser = v, v.Bytes
	}
	return o
}

func c14LeaseSet(s gen.Signed, d string) c14Outcome {
	ls := s.Value.(refmodel.LeaseSet)
	o := c14Outcome{entry: "lease_set.NewLeaseSet"}
	switch d {
	case "17-leases":
		ls.Leases = nil
		for i := 0; i < 17; i++ {
			ls.Leases = append(ls.Leases, refmodel.Lease{Hash: [32]byte{byte(i + 1)}, TunnelID: 1, EndMs: gen.LeaseEndMs})
		}
	case "signing-key-of-other-type":
		other := 7
		if ls.Dest.SigType == 7 || ls.Dest.SigType == 11 {
			other = 0
		}
		ls.SignKey = gen.Key(other, 22).Pub
		// adapt.LeaseSet builds the key object from the destination's type: do it by hand
		dst, err := adapt.Destination(ls.Dest)
		if err != nil {
			o.ctorErr = adapt.ErrNotConstructible{Why: err.Error()}
			return o
		}
		ek, _ := adapt.CryptoPub(0, ls.EncKey)
		sk, _ := adapt.SigningPub(other, ls.SignKey)
		priv, err := adapt.SigningPriv(s.IDKey)
		if err != nil {
			o.ctorErr = adapt.ErrNotConstructible{Why: err.Error()}
			return o
		}
		var leases []lease.Lease
		for _, l := range ls.Leases {
			ll, _ := adapt.Lease(l)
			leases = append(leases, *ll)
		}
		v, err := lease_set.NewLeaseSet(*dst, ek, sk, leases, priv)
		o.ctorErr = err
		if err == nil && v != nil {
			o.value, o.ser = v, v.Bytes
		}
		return o
	}
	v, err := adapt.LeaseSet(ls, s.IDKey)
	o.ctorErr = err
	if err == nil && v != nil {
		o.value, o.ser = v, v.Bytes
	}
	return o
}

func c14KAC(s gen.Signed, d string) c14Outcome {
	k := s.Value.(refmodel.KeysAndCert)
	o := c14Outcome{entry: "keys_and_cert.NewKeysAndCert"}
	kc, _, err := adapt.KeyCert(k)
	if err != nil {
		o.ctorErr = adapt.ErrNotConstructible{Why: err.Error()}
		return o
	}
	pk, e1 := adapt.CryptoPub(k.CryptoType, k.Crypto)
	sk, e2 := adapt.SigningPub(k.SigType, k.Signing)
	if e1 != nil || e2 != nil {
		o.ctorErr = adapt.ErrNotConstructible{Why: "no key object"}
		return o
	}
	pad := append([]byte(nil), k.Padding...)
	var v *keys_and_cert.KeysAndCert
	switch d {
	case "nil-crypto-key":
		v, err = keys_and_cert.NewKeysAndCert(kc, nil, pad, sk)
	case "nil-signing-key":
		v, err = keys_and_cert.NewKeysAndCert(kc, pk, pad, nil)
	case "padding-one-byte-short":
		if len(pad) == 0 {
			o.ctorErr = adapt.ErrNotConstructible{Why: "no padding"}
			return o
		}
		v, err = keys_and_cert.NewKeysAndCert(kc, pk, pad[1:], sk)
	case "crypto-key-of-other-type":
		other := 0
		if k.CryptoType == 0 {
			other = 4
		}
		opk, _ := adapt.CryptoPub(other, refmodel.Fill("ok", 1, refmodel.CryptoTable[other]))
		v, err = keys_and_cert.NewKeysAndCert(kc, opk, pad, sk)
	case "signing-key-of-other-type":
		other := 0
		if k.SigType == 0 {
			other = 7
		}
		osk, _ := adapt.SigningPub(other, gen.Key(other, 5).Pub)
		v, err = keys_and_cert.NewKeysAndCert(kc, pk, pad, osk)
	default:
		v, err = keys_and_cert.NewKeysAndCert(kc, pk, pad, sk)
	}
	o.ctorErr = err
	if err == nil && v != nil {
		o.value, o.ser = v, v.Bytes
	}
	return o
}

func c14RouterAddress(s gen.Signed, d string) c14Outcome {
	a := s.Value.(refmodel.RouterAddress)
	o := c14Outcome{entry: "router_address.NewRouterAddress"}
	style := string(a.Style)
	opts := a.Options.ToMap()
	switch d {
	case "empty-style":
		style = ""
	case "style-256-bytes":
		style = strings.Repeat("s", 256)
	case "option-value-256-bytes":
		opts["big"] = strings.Repeat("v", 256)
	case "style-200-runes-400-bytes":
		style = strings.Repeat("\u00e9", 200)
	case "option-value-100-runes-300-bytes":
		opts["big"] = strings.Repeat("\u4e16", 100)
	case "option-key-200-runes-400-bytes":
		opts[strings.Repeat("\u00e9", 200)] = "v"
	case "style-127-runes-254-bytes":
		style = strings.Repeat("\u00e9", 127)
	case "options-body-65535", "options-body-65536", "options-body-65537", "options-body-65540", "options-body-65700", "options-body-66000":
		var n int
		fmt.Sscanf(d, "options-body-%d", &n)
		opts = c14BigMap(n)
	}
	v, err := router_address.NewRouterAddress(a.Cost, time.Time{}, style, opts)
	o.ctorErr = err
	if err == nil && v != nil {
		o.value, o.ser = v, func() ([]byte, error) { return v.Bytes(), nil }
	}
	return o
}

var c14Menus = map[string][]c14Defect{
	"LeaseSet2": {{"none", false}, {"reserved-flag-bit3", true}, {"reserved-flag-bit15", true}, {"offline-flag-without-block", true}, {"offline-block-without-flag", true},
		{"no-keys", true}, {"17-keys", true}, {"17-leases", true}, {"x25519-key-31-bytes", true}, {"elgamal-key-255-bytes", true}, {"keylen-field-mismatch", true}},
	"EncryptedLeaseSet": {{"none", false}, {"reserved-flag-bit2", true}, {"reserved-flag-bit15", true}, {"offline-flag-without-block", true}, {"offline-block-without-flag", true},
		{"expires-zero", true}, {"blinded-key-one-byte-short", true}, {"blinded-key-one-byte-long", true}, {"unknown-sigtype", true}, {"inner-empty", true}, {"inner-60-bytes", true},
		{"inner-65536-bytes", false}, {"inner-65606-bytes", false}},
	"OfflineSignature": {{"none", false}, {"expires-zero", true}, {"transient-key-one-byte-short", true}, {"signature-one-byte-long", true}, {"unknown-transient-type", true}, {"unknown-destination-type", true}},
	"RouterInfo":       {{"none", false}, {"no-addresses", false}, {"published-zero", false}},
	"LeaseSet":         {{"none", false}, {"17-leases", true}, {"signing-key-of-other-type", false}},
	"KeysAndCert":      {{"none", false}, {"nil-crypto-key", false}, {"nil-signing-key", false}, {"padding-one-byte-short", true}, {"crypto-key-of-other-type", true}, {"signing-key-of-other-type", true}},
	"RouterAddress": {{"none", false}, {"empty-style", true}, {"style-256-bytes", false}, {"option-value-256-bytes", false},
		{"style-200-runes-400-bytes", false}, {"option-value-100-runes-300-bytes", false}, {"option-key-200-runes-400-bytes", false}, {"style-127-runes-254-bytes", false},
		{"options-body-65535", false}, {"options-body-65536", false}, {"options-body-65537", false}, {"options-body-65540", false}, {"options-body-65700", false}, {"options-body-66000", false}},
}

func c14Build(fam string, s gen.Signed, aux int, d string) c14Outcome {
	switch fam {
	case "LeaseSet2":
		return c14LeaseSet2(s, d)
	case "EncryptedLeaseSet":
		return c14ELS(s, d)
	case "OfflineSignature":
		return c14Offline(s, aux, d)
	case "RouterInfo":
		return c14RouterInfo(s, d)
	case "LeaseSet":
		return c14LeaseSet(s, d)
	case "KeysAndCert":
		return c14KAC(s, d)
	case "RouterAddress":
		return c14RouterAddress(s, d)
	}
	return c14Outcome{ctorErr: adapt.ErrNotConstructible{Why: "no constructor"}}
}

func c14One(r *core.Run, fam string, s gen.Signed, aux int, desc string, vector []int, only string) {
	// base variations that are themselves one of the menu's defects are covered by that menu entry
	if fam == "LeaseSet2" {
		for _, k := range s.Value.(refmodel.LeaseSet2).Keys {
			if n, ok := refmodel.CryptoTable[k.Type]; ok && n != len(k.Data) {
				return
			}
		}
	}
	if fam == "RouterInfo" && len(s.Value.(refmodel.RouterInfo).Addrs) == 0 {
		return
	}
	for _, d := range c14Menus[fam] {
		if only != "" && d.name != only {
			continue
		}
		var o c14Outcome
		cs := core.Case{Kind: "ctor", Args: map[string]string{"family": fam, "vector": fmt.Sprint(vector), "choices": desc, "defect": d.name}}
		if pan, msg := core.Guard(func() { o = c14Build(fam, s, aux, d.name) }); pan {
			r.Violate("C14|"+fam+"|defect="+d.name+"|constructor-panics", "constructor panics: "+msg+" ("+desc+")", cs)
			continue
		}
		var nc adapt.ErrNotConstructible
		if o.ctorErr != nil && errors.As(o.ctorErr, &nc) {
			continue
		}
		c14Report(r, fam, aux, d, o, desc, cs)
	}
}

// c14BigMap returns a Go map whose mapping encoding has exactly body bytes after the size field
// (127 or 128 pairs of 255-byte keys and values plus one pair that makes up the difference).
func c14BigMap(body int) map[string]string {
	full := 127
	if body-full*514 > 514 {
		full = 128
	}
	rest := body - full*514
	if rest < 5 || rest > 514 {
		panic(fmt.Sprintf("c14BigMap: body %d not expressible", body))
	}
	m := map[string]string{}
	for i := 0; i < full; i++ {
		m[fmt.Sprintf("%03d", i)+strings.Repeat("k", 252)] = strings.Repeat("v", 255)
	}
	vl := rest - 5
	if vl > 255 {
		vl = 255
	}
	kl := rest - 4 - vl
	m[strings.Repeat("z", kl)] = strings.Repeat("w", vl)
	return m
}

// c14Small: signature, certificate, mapping constructors.
func c14Small(r *core.Run) {
	for t := 0; t <= 12; t++ {
		for _, L := range []int{0, 39, 40, 41, 63, 64, 65, 96, 132, 256, 384, 512} {
			r.Evaluations.Add(1)
			sg, err := signature.NewSignatureFromBytes(refmodel.Fill("sg", uint64(L), L), t)
			if err != nil {
				continue
			}
			r.Traces.Add(1)
			if verr := sg.Validate(); verr != nil {
				r.Violate("C14|signature.NewSignatureFromBytes|constructor-accepts-what-validate-rejects", fmt.Sprintf("type %d len %d: %v", t, L, verr), core.Case{Kind: "small", Args: map[string]string{"what": "signature"}})
			}
			if why, ok := c14RoundTrip("Signature", t, func() ([]byte, error) { return sg.Bytes(), nil }); !ok && (t == 0 || t == 1 || t == 2 || t == 3 || t == 4 || t == 7 || t == 8 || t == 11) {
				r.Violate("C14|signature.NewSignatureFromBytes|valid-value-no-clean-roundtrip", fmt.Sprintf("type %d len %d: %s", t, L, why), core.Case{Kind: "small", Args: map[string]string{"what": "signature"}})
			}
			r.Distinct([]byte("sig"), []byte{byte(t), byte(L >> 8), byte(L)})
		}
	}
	// the documented defect "signature data size mismatch for type": every length 0..size+300 except the type's own is
	// refused by the exact-length constructor, for every known type (the validator's side of the clause is the sweep above)
	for _, t := range refmodel.KnownSigCodes {
		size := refmodel.SigTable[t].SigLen
		for L := 0; L <= size+300; L++ {
			r.Evaluations.Add(1)
			sg, err := signature.NewSignatureFromBytes(refmodel.Fill("sg", uint64(L), L), t)
			if (err == nil) != (L == size) {
				r.Violate("C14|signature.NewSignatureFromBytes|defect=data-length-differs-from-the-type's|constructor-verdict", fmt.Sprintf("type %d (signatures of %d bytes), %d bytes of data: err=%v, stored %d bytes", t, size, L, err, sg.Len()), core.Case{Kind: "small", Args: map[string]string{"what": "signature"}})
			}
		}
	}
	for t := 0; t < 256; t++ {
		for _, pl := range [][]byte{nil, {1}, {0, 7, 0, 4}, refmodel.Fill("p", 1, 40), refmodel.Fill("p", 3, 72)} {
			r.Evaluations.Add(1)
			c, err := certificate.NewCertificateWithType(uint8(t), pl)
			if err != nil {
				continue
			}
			r.Traces.Add(1)
			if !c.IsValid() {
				r.Violate("C14|certificate.NewCertificateWithType|constructor-accepts-what-validate-rejects", fmt.Sprintf("type %d payload %d bytes: IsValid() false", t, len(pl)), core.Case{Kind: "small", Args: map[string]string{"what": "certificate"}})
			}
			if why, ok := c14RoundTrip("Certificate", 0, func() ([]byte, error) { return c.Bytes(), nil }); !ok {
				r.Violate("C14|certificate.NewCertificateWithType|valid-value-no-clean-roundtrip", fmt.Sprintf("type %d payload %d bytes: %s", t, len(pl), why), core.Case{Kind: "small", Args: map[string]string{"what": "certificate"}})
			}
			r.Distinct([]byte("cert"), []byte{byte(t), byte(len(pl))})
		}
	}
	for i, m := range gen.MappingMenu {
		r.Evaluations.Add(1)
		mp, err := data.GoMapToMapping(m.ToMap())
		if err != nil {
			continue
		}
		r.Traces.Add(1)
		if verr := mp.Validate(); verr != nil {
			r.Violate("C14|data.GoMapToMapping|constructor-accepts-what-validate-rejects", fmt.Sprintf("mapping %s: %v", gen.MappingNames[i], verr), core.Case{Kind: "small", Args: map[string]string{"what": "mapping"}})
		}
		if why, ok := c14RoundTrip("Mapping", 0, func() ([]byte, error) { return mp.Data(), nil }); !ok {
			r.Violate("C14|data.GoMapToMapping|valid-value-no-clean-roundtrip", fmt.Sprintf("mapping %s: %s", gen.MappingNames[i], why), core.Case{Kind: "small", Args: map[string]string{"what": "mapping"}})
		}
		r.Distinct([]byte("map"), []byte{byte(i)})
	}
	// mappings around the 16-bit size limit: whatever the constructor accepts must validate and round-trip
	for _, body := range []int{65300, 65534, 65535, 65536, 65537, 65538, 65540, 65600, 65700, 65791, 65792, 65800, 66000, 66306} {
		r.Evaluations.Add(1)
		mp, err := data.GoMapToMapping(c14BigMap(body))
		cs := core.Case{Kind: "small", Args: map[string]string{"what": "mapping"}}
		if err != nil {
			if body <= 65535 {
				r.Violate("C14|data.GoMapToMapping|refuses-a-mapping-within-the-size-limit", fmt.Sprintf("body of %d bytes: %v", body, err), cs)
			}
			continue
		}
		r.Traces.Add(1)
		if verr := mp.Validate(); verr != nil {
			r.Violate("C14|data.GoMapToMapping|constructor-accepts-what-validate-rejects", fmt.Sprintf("mapping with a %d-byte body: %v", body, verr), cs)
			continue
		}
		if why, ok := c14RoundTrip("Mapping", 0, func() ([]byte, error) { return mp.Data(), nil }); !ok {
			r.Violate("C14|data.GoMapToMapping|valid-value-no-clean-roundtrip[size-limit]", fmt.Sprintf("mapping with a %d-byte body: %s", body, why), cs)
		}
		r.Distinct([]byte("bigmap"), []byte{byte(body >> 8), byte(body)})
	}
}

func runC14(r *core.Run) {
	r.Rule = "E1: model values of every structure with both a constructor and a validator (KeysAndCert, RouterAddress, RouterInfo, LeaseSet, LeaseSet2, EncryptedLeaseSet, OfflineSignature; Signature/Certificate/Mapping by direct sweep) within 1 (thorough 2) legal variations x the defect menu (none + each single structural defect the validators document: key length vs type, counts 0/17, flag<->offline mismatch, reserved bits, length-field mismatch, plus undocumented candidates). Oracles: (1) constructor ok => structural Validate ok; (2) every parser-accepted value of the C01 input space that validates => Bytes ok, re-parse ok, empty remainder, same bytes; also every constructor output that validates; (3) documented defect => constructor error, and the same field values reached through the parser fail Validate. non-trivial = distinct (entry, defect, argument tuple) evaluated"
	r.Assume("expiry clauses neutralised by far-future dates; OfflineSignature uses ValidateStructure")
	bound := 1
	if !r.Quick() {
		bound = 2
	}
	for _, fg := range structFamilies {
		if _, ok := c14Menus[fg.Family]; !ok {
			continue
		}
		fg := fg
		st, capped := choose.Explore(bound, core.Workers(), r.Expired, func(c *choose.Ctx) {
			s, aux := fg.Gen(c)
			c14One(r, fg.Family, s, aux, c.Describe(), c.Vector(), "")
		})
		r.States.Add(st.Points)
		r.Transitions.Add(st.Transitions)
		if capped {
			r.Capped.Store(true)
		}
	}
	c14WideKeys(r)
	c14Small(r)
	// clause 2 over parser outputs
	o := enumOpts{BaseBound: 2, MutateBound: 1, Families: []string{"KeysAndCert", "RouterInfo", "LeaseSet", "LeaseSet2", "EncryptedLeaseSet", "OfflineSignature", "RouterAddress", "Mapping", "Signature"}}
	if !r.Quick() {
		o.BaseBound, o.MutateBound = 3, 2
	}
	enumerateInputs(r, o, func(worker int, in *Input) {
		for _, fam := range parserFamiliesFor(in.Family, in.Aux) {
			if strings.HasSuffix(fam, "Exact") {
				continue
			}
			for _, p := range adapt.ByFamily(fam) {
				var res adapt.Parsed
				if pan, _ := core.Guard(func() { res = p.Fn(in.Bytes) }); pan || !res.OK || res.Val == nil || res.Ser == nil {
					continue
				}
				verr, has := structuralValidate(res.Val)
				if !has || verr != nil {
					continue
				}
				r.Evaluations.Add(1)
				why, ok := c14RoundTrip(fam, in.Aux, res.Ser)
				if !ok {
					r.Violate("C14|"+p.Name+"|parsed-value-validates-but-no-clean-roundtrip|"+whyClass(why), fmt.Sprintf("%s accepts the input and the value validates, but %s (%s %s; %s)", p.Name, why, in.Class, in.Detail, in.Base), in.Case(p.Name))
				}
			}
		}
	})
	r.Sample(map[string]any{"entry": "lease_set2.NewLeaseSet2", "defect": "x25519-key-31-bytes", "expect": "constructor error and Validate error"})
	r.Sample(map[string]any{"entry": "offline_signature.NewOfflineSignature", "defect": "expires-zero"})
}

func replayC14(r *core.Run, c core.Case) {
	switch c.Kind {
	case "ctor":
		fam := c.Args["family"]
		var vec []int
		for _, f := range strings.Fields(strings.Trim(c.Args["vector"], "[]")) {
			var n int
			fmt.Sscan(f, &n)
			vec = append(vec, n)
		}
		for _, fg := range structFamilies {
			if fg.Family == fam {
				choose.Run(vec, func(cx *choose.Ctx) {
					s, aux := fg.Gen(cx)
					c14One(r, fam, s, aux, cx.Describe(), cx.Vector(), c.Args["defect"])
				})
			}
		}
	case "small":
		c14Small(r)
	case "parse":
		if p, ok := adapt.ByName(c.Args["parser"]); ok {
			in := replayInput(c)
			var res adapt.Parsed
			if pan, _ := core.Guard(func() { res = p.Fn(in.Bytes) }); pan || !res.OK || res.Val == nil || res.Ser == nil {
				return
			}
			if verr, has := structuralValidate(res.Val); has && verr == nil {
				if why, ok := c14RoundTrip(p.Family, in.Aux, res.Ser); !ok {
					r.Violate("C14|"+p.Name+"|parsed-value-validates-but-no-clean-roundtrip|"+whyClass(why), why, c)
				}
			}
		}
	}
}

// whyClass: the stable class of a round-trip failure reason (the parser's own reason when there is one).
func whyClass(why string) string {
	if i := strings.Index(why, "do not parse: "); i >= 0 {
		return "its own bytes do not parse[" + why[i+14:] + "]"
	}
	return errClass(why)
}
