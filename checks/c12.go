package checks

import (
	"bytes"
	"fmt"
	"math"
	"math/big"
	"strings"
	"time"

	"verif/internal/core"
	"verif/internal/refmodel"

	"github.com/go-i2p/common/data"
)

func init() { register("C12", runC12, replayBySweep(runC12)) }

// replayBySweep: for the cheap exhaustive sweeps a replay is the sweep itself restricted to the
// recorded identity (the sweep is deterministic and takes seconds).
func replayBySweep(run func(*core.Run)) func(*core.Run, core.Case) {
	return func(r *core.Run, c core.Case) { run(r) }
}

func c12Values(n int) []uint64 {
	// boundary set for width n (3..8)
	var out []uint64
	add := func(v *big.Int) {
		if v.Sign() >= 0 && v.IsUint64() && v.Uint64() <= math.MaxInt64 {
			out = append(out, v.Uint64())
		}
	}
	for _, k := range []int{8 * n, 8*n - 1, 8*n - 8, 8 * (n - 1)} {
		if k < 0 {
			continue
		}
		p := new(big.Int).Lsh(big.NewInt(1), uint(k))
		for d := int64(-2); d <= 2; d++ {
			add(new(big.Int).Add(p, big.NewInt(d)))
		}
	}
	for _, v := range []uint64{0, 1, 2, 255, 256, 65535, 65536, 1<<32 - 1, 1 << 32, 1<<53 - 1, 1 << 53, math.MaxInt64, math.MaxInt64 - 1, 0x0102030405060708, 0x7f00000000000001} {
		out = append(out, v)
	}
	return out
}

func runC12(r *core.Run) {
	r.Level = "exploration"
	r.Rule = "widths 1,2: every value 0..65537; widths 3..8: boundary set {2^(8n)+-2, 2^(8n-1)+-2, 2^(8(n-1))+-2, 2^32, 2^53, 2^63-1,...}; sizes -2..10; all 65536 uint16/int16; 8-byte patterns with high bit; ms dates; strings: every content length 0..300 and every (declared 0..255) x (actual 0..300) reader input. non-trivial = distinct (function,input) pairs that the library accepted and whose result was compared with the math/big reference"
	r.Assume("Go int is 64 bits", "reference: math/big big-endian encoding (refmodel.BE)")
	bad := func(clause, fn, format string, a ...any) {
		r.Violate("C12|"+clause+"|"+fn, fmt.Sprintf(format, a...), core.Case{Kind: "sweep", Args: map[string]string{"fn": fn, "input": fmt.Sprintf(format, a...)}})
	}
	checkInt := func(v uint64, n int) {
		r.Evaluations.Add(1)
		fits := n >= 1 && n <= 8 && (n == 8 || v < 1<<(8*uint(n)))
		iv := int(v)
		// NewIntegerFromInt
		pi, err := data.NewIntegerFromInt(iv, n)
		enc, err2 := data.EncodeIntN(iv, n)
		if fits {
			want := refmodel.BE(v, n)
			if err != nil || pi == nil {
				bad("accept", "NewIntegerFromInt", "value %d width %d rejected: %v", v, n, err)
			} else {
				i := *pi
				if !bytes.Equal(i.Bytes(), want) {
					bad("exact-bytes", "NewIntegerFromInt", "value %d width %d -> %x want %x", v, n, i.Bytes(), want)
				}
				if i.Int() != iv {
					bad("inverse", "Integer.Int", "value %d width %d decodes to %d", v, n, i.Int())
				}
				if s, e := i.IntSafe(); e != nil || s != iv {
					bad("inverse", "Integer.IntSafe", "value %d width %d -> %d,%v", v, n, s, e)
				}
				if s, e := i.UintSafe(); e != nil || s != v {
					bad("inverse", "Integer.UintSafe", "value %d width %d -> %d,%v", v, n, s, e)
				}
				// reader on want || extra
				in := append(append([]byte(nil), want...), 0xAA, 0xBB)
				ri, rem := data.ReadInteger(in, n)
				if !bytes.Equal(ri, want) || !bytes.Equal(rem, []byte{0xAA, 0xBB}) {
					bad("reader", "ReadInteger", "input %x size %d -> %x rem %x", in, n, []byte(ri), rem)
				}
				// the exact-length buffer (nothing follows) and the pointer-returning twin on both shapes
				if re, rm := data.ReadInteger(want, n); !bytes.Equal(re, want) || len(rm) != 0 {
					bad("reader", "ReadInteger", "exact-length input %x size %d -> %x rem %x", want, n, []byte(re), rm)
				}
				for _, buf := range [][]byte{want, in} {
					pi2, rm, e := data.NewInteger(buf, n)
					if e != nil || pi2 == nil || !bytes.Equal(*pi2, want) || !bytes.Equal(rm, buf[n:]) {
						bad("reader", "NewInteger", "input %x size %d -> %v rem %x err %v", buf, n, pi2, rm, e)
					}
				}
				if n > 1 {
					short, rem2 := data.ReadInteger(want[:n-1], n)
					if len(short) >= n || len(rem2) != 0 {
						bad("short-input", "ReadInteger", "input %x size %d -> %x rem %x", want[:n-1], n, []byte(short), rem2)
					}
				}
				r.Distinct([]byte("int"), want, []byte{byte(n)})
			}
			if err2 != nil || !bytes.Equal(enc, want) {
				bad("exact-bytes", "EncodeIntN", "value %d width %d -> %x,%v want %x", v, n, enc, err2, want)
			} else if d, e := data.DecodeIntN(enc); e != nil || d != iv {
				bad("inverse", "DecodeIntN", "bytes %x -> %d,%v want %d", enc, d, e, v)
			}
		} else {
			if err == nil {
				bad("reject", "NewIntegerFromInt", "value %d width %d accepted as %x", v, n, pi.Bytes())
			}
			if err2 == nil {
				bad("reject", "EncodeIntN", "value %d width %d accepted as %x", v, n, enc)
			}
		}
	}
	for n := 1; n <= 2; n++ {
		for v := uint64(0); v <= 65537; v++ {
			checkInt(v, n)
		}
	}
	for n := -2; n <= 10; n++ {
		w := n
		if w < 1 || w > 8 {
			w = 8
		}
		for _, v := range c12Values(w) {
			checkInt(v, n)
		}
		for w2 := 1; w2 <= 8; w2++ {
			for _, v := range c12Values(w2) {
				checkInt(v, n)
			}
		}
	}
	// negative values are rejected at every width
	for n := 1; n <= 8; n++ {
		for _, v := range []int{-1, -2, -256, math.MinInt64} {
			r.Evaluations.Add(1)
			if p, err := data.NewIntegerFromInt(v, n); err == nil {
				bad("reject", "NewIntegerFromInt", "negative %d width %d accepted as %x", v, n, p.Bytes())
			}
			if p, err := data.EncodeIntN(v, n); err == nil {
				bad("reject", "EncodeIntN", "negative %d width %d accepted as %x", v, n, p)
			}
		}
	}
	// unsigned accessor: full 64-bit range
	for _, v := range []uint64{1 << 63, 1<<63 + 1, math.MaxUint64, math.MaxUint64 - 1, 0xfedcba9876543210, 0x8000000000000001} {
		r.Evaluations.Add(1)
		b := refmodel.BE(v, 8)
		i, err := data.NewIntegerFromBytes(b)
		if err != nil {
			bad("accept", "NewIntegerFromBytes", "%x rejected: %v", b, err)
			continue
		}
		if u, e := i.UintSafe(); e != nil || u != v {
			bad("unsigned-range", "Integer.UintSafe", "%x -> %d,%v want %d", b, u, e, v)
		}
		r.Distinct([]byte("uint"), b)
	}
	// NewIntegerFromBytes lengths 0..9
	for l := 0; l <= 9; l++ {
		r.Evaluations.Add(1)
		b := bytes.Repeat([]byte{0x11}, l)
		i, err := data.NewIntegerFromBytes(b)
		if l >= 1 && l <= 8 {
			if err != nil || !bytes.Equal(i, b) {
				bad("accept", "NewIntegerFromBytes", "len %d -> %x,%v", l, []byte(i), err)
			}
		} else if err == nil {
			bad("reject", "NewIntegerFromBytes", "len %d accepted", l)
		}
	}
	// fixed-width helpers
	for v := 0; v <= 65535; v++ {
		r.Evaluations.Add(1)
		e := data.EncodeUint16(uint16(v))
		if !bytes.Equal(e[:], refmodel.BE(uint64(v), 2)) || data.DecodeUint16(e) != uint16(v) {
			bad("fixed-width", "EncodeUint16", "%d -> %x -> %d", v, e, data.DecodeUint16(e))
		}
		e2 := data.EncodeInt16(int16(uint16(v)))
		if !bytes.Equal(e2[:], refmodel.BE(uint64(v), 2)) || data.DecodeInt16(e2) != int16(uint16(v)) {
			bad("fixed-width", "EncodeInt16", "%d -> %x -> %d", int16(uint16(v)), e2, data.DecodeInt16(e2))
		}
	}
	r.Distinct([]byte("fixed16"))
	for _, v := range []uint64{0, 1, 255, 256, 1<<16 - 1, 1 << 16, 1<<31 - 1, 1 << 31, 1<<32 - 1, 0x01020304, 0xfffefdfc} {
		r.Evaluations.Add(1)
		e := data.EncodeUint32(uint32(v))
		if !bytes.Equal(e[:], refmodel.BE(v, 4)) || data.DecodeUint32(e) != uint32(v) {
			bad("fixed-width", "EncodeUint32", "%d -> %x", v, e)
		}
		e2 := data.EncodeInt32(int32(uint32(v)))
		if !bytes.Equal(e2[:], refmodel.BE(v, 4)) || data.DecodeInt32(e2) != int32(uint32(v)) {
			bad("fixed-width", "EncodeInt32", "%d -> %x", v, e2)
		}
		r.Distinct([]byte("fixed32"), e[:])
	}
	for _, v := range []uint64{0, 1, 1<<32 - 1, 1 << 32, 1<<63 - 1, 1 << 63, math.MaxUint64, 0x0102030405060708} {
		r.Evaluations.Add(1)
		e := data.EncodeUint64(v)
		if !bytes.Equal(e[:], refmodel.BE(v, 8)) || data.DecodeUint64(e) != v {
			bad("fixed-width", "EncodeUint64", "%d -> %x", v, e)
		}
		e2 := data.EncodeInt64(int64(v))
		if !bytes.Equal(e2[:], refmodel.BE(v, 8)) || data.DecodeInt64(e2) != int64(v) {
			bad("fixed-width", "EncodeInt64", "%d -> %x", v, e2)
		}
		r.Distinct([]byte("fixed64"), e[:])
	}
	// dates
	for _, ms := range []int64{0, 1, 999, 1000, 1001, 1<<31*1000 - 1, 1 << 31 * 1000, 1<<32*1000 - 1, 1 << 32 * 1000, 1 << 41, 1<<53 - 1, 1 << 53, 1700000000123, 253402300799999, math.MaxInt64 - 1, math.MaxInt64} {
		r.Evaluations.Add(1)
		want := refmodel.BE(uint64(ms), 8)
		d, err := data.NewDateFromMillis(ms)
		if err != nil || d == nil {
			bad("accept", "NewDateFromMillis", "%d rejected: %v", ms, err)
			continue
		}
		if !bytes.Equal(d.Bytes(), want) {
			bad("exact-bytes", "NewDateFromMillis", "%d -> %x want %x", ms, d.Bytes(), want)
		}
		if got := d.Time().UnixMilli(); got != ms {
			bad("inverse", "Date.Time", "%d -> %d", ms, got)
		}
		if d.Int() != int(ms) {
			bad("inverse", "Date.Int", "%d -> %d", ms, d.Int())
		}
		rd, rem, e := data.ReadDate(append(append([]byte(nil), want...), 7))
		if e != nil || !bytes.Equal(rd.Bytes(), want) || !bytes.Equal(rem, []byte{7}) {
			bad("reader", "ReadDate", "%x -> %x rem %x err %v", want, rd.Bytes(), rem, e)
		}
		if _, _, e := data.ReadDate(want[:7]); e == nil {
			bad("short-input", "ReadDate", "7 bytes accepted")
		}
		if pd, _, e := data.NewDate(want[:7]); e == nil && pd != nil {
			bad("short-input", "NewDate", "7 bytes accepted")
		}
		dt, err := data.DateFromTime(time.UnixMilli(ms))
		if err != nil || !bytes.Equal(dt.Bytes(), want) {
			bad("exact-bytes", "DateFromTime", "%d -> %x want %x", ms, dt.Bytes(), want)
		}
		if ms%1000 == 0 {
			du, err := data.NewDateFromUnix(ms / 1000)
			if err != nil || !bytes.Equal(du.Bytes(), want) {
				bad("exact-bytes", "NewDateFromUnix", "%d s -> %v,%v want %x", ms/1000, du, err, want)
			}
		}
		r.Distinct([]byte("date"), want)
	}
	for _, ms := range []int64{-1, -1000, math.MinInt64} {
		r.Evaluations.Add(1)
		if d, err := data.NewDateFromMillis(ms); err == nil {
			bad("reject", "NewDateFromMillis", "negative %d accepted as %x", ms, d.Bytes())
		}
		if d, err := data.NewDateFromUnix(ms); err == nil {
			bad("reject", "NewDateFromUnix", "negative %d accepted as %x", ms, d.Bytes())
		}
	}
	for _, sec := range []int64{math.MaxInt64/1000 + 1, math.MaxInt64} {
		r.Evaluations.Add(1)
		if d, err := data.NewDateFromUnix(sec); err == nil {
			bad("reject", "NewDateFromUnix", "seconds %d (ms overflow) accepted as %x", sec, d.Bytes())
		}
	}
	// strings: constructors
	for L := 0; L <= 300; L++ {
		for _, unit := range []string{"", "x", "\u00e9", "\u20ac", "\U0001F600", "\xff"} {
			r.Evaluations.Add(1)
			content := make([]byte, L)
			for i := range content {
				content[i] = byte(i*7 + L)
			}
			if unit != "" { // multi-byte UTF-8 content: byte length != rune count
				content = []byte(strings.Repeat(unit, L/len(unit)))
			}
			L := len(content)
			for _, fn := range []string{"NewI2PString", "ToI2PString"} {
				var s data.I2PString
				var err error
				if fn == "NewI2PString" {
					s, err = data.NewI2PString(string(content))
				} else {
					s, err = data.ToI2PString(string(content))
				}
				if L <= 255 {
					want := refmodel.Str(content)
					if err != nil || !bytes.Equal(s, want) {
						bad("exact-bytes", fn, "len %d -> %x,%v", L, []byte(s), err)
						continue
					}
					if d, e := s.Data(); e != nil || d != string(content) {
						bad("inverse", "I2PString.Data", "len %d: %v", L, e)
					}
					if d, e := s.DataSafe(); e != nil || d != string(content) {
						bad("inverse", "I2PString.DataSafe", "len %d: %v", L, e)
					}
					if n, e := s.Length(); e != nil || n != L {
						bad("inverse", "I2PString.Length", "len %d -> %d,%v", L, n, e)
					}
					if !s.IsValid() {
						bad("inverse", "I2PString.IsValid", "len %d reported invalid", L)
					}
					r.Distinct([]byte("str"), want)
				} else if err == nil {
					bad("reject", fn, "len %d accepted (%d bytes out)", L, len(s))
				}
			}
		}
	}
	// strings: reader and FromBytes on every (declared, actual)
	for d := 0; d <= 255; d++ {
		for a := 0; a <= 300; a++ {
			r.Evaluations.Add(1)
			in := make([]byte, 1+a)
			in[0] = byte(d)
			for i := 1; i <= a; i++ {
				in[i] = byte(i + d)
			}
			s, rem, err := data.ReadI2PString(in)
			if a >= d {
				if err != nil || !bytes.Equal(s, in[:d+1]) || !bytes.Equal(rem, in[d+1:]) {
					bad("reader", "ReadI2PString", "declared %d actual %d -> str %d bytes rem %d err %v", d, a, len(s), len(rem), err)
				} else if d%16 == 0 || a-d < 2 {
					r.Distinct([]byte("rdstr"), in)
				}
			} else if err == nil {
				bad("short-input", "ReadI2PString", "declared %d actual %d accepted (str %d bytes)", d, a, len(s))
			}
			fb, err := data.NewI2PStringFromBytes(in)
			if a == d {
				if err != nil || !bytes.Equal(fb, in) {
					bad("accept", "NewI2PStringFromBytes", "declared %d actual %d rejected: %v", d, a, err)
				}
			} else if err == nil {
				bad("reject", "NewI2PStringFromBytes", "declared %d actual %d accepted", d, a)
			}
		}
	}
	if _, _, err := data.ReadI2PString(nil); err == nil {
		bad("short-input", "ReadI2PString", "empty input accepted")
	}
	hd := 3
	if !r.Quick() {
		hd = 4
	}
	c12History(r, hd)
	r.Sample(map[string]any{"fn": "NewIntegerFromInt", "value": 65535, "width": 2, "bytes": "ffff"})
	r.Sample(map[string]any{"fn": "NewIntegerFromInt", "value": 65536, "width": 2, "expect": "error"})
	r.Sample(map[string]any{"fn": "ReadI2PString", "declared": 255, "actual": 254, "expect": "error"})
	r.Sample(map[string]any{"fn": "UintSafe", "bytes": "ffffffffffffffff", "value": "18446744073709551615"})
}
