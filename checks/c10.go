package checks

import (
	"bytes"
	"fmt"
	"github.com/go-i2p/common/data"

	"verif/internal/adapt"
	"verif/internal/core"
	"verif/internal/refmodel"

	"github.com/go-i2p/common/encrypted_leaseset"
	"github.com/go-i2p/common/key_certificate"
	"github.com/go-i2p/common/keys_and_cert"
	"github.com/go-i2p/common/lease_set2"
	"github.com/go-i2p/common/offline_signature"
	"github.com/go-i2p/common/signature"
)

func init() { register("C10", runC10, replayBySweep(runC10)) }

// c10Dest is a fixed well-formed Ed25519/X25519 destination used to host LS2 key entries.
func c10Dest() refmodel.KeysAndCert {
	return refmodel.NewKAC(7, 4, false, nil, refmodel.Fill("c", 1, 32), refmodel.Fill("p", 1, 320), refmodel.Fill("s", 1, 32))
}

func runC10(r *core.Run) {
	r.Level = "exploration"
	r.Rule = "every code 0..65535 through every signing-size and crypto-size lookup (4 exported maps, Get* helpers, KeyCertificate methods, signature.SignatureSize, offline_signature sizes) and through the behavioural tables (ReadSignature/NewSignatureFromBytes lengths, ReadOfflineSignature transient and destination axes, ReadEncryptedLeaseSet blinded-key length, LeaseSet2.Validate key lengths); then the 384-byte layout for every supported pair x 3 fills via parser and constructor. non-trivial = distinct (lookup, code) pairs for which the library reports the code as known, plus distinct layouts compared"
	r.Assume("reference table: refmodel/tables.go (I2P 0.9.67 SigningPublicKey / PublicKey tables)")
	bad := func(clause, fn string, code int, format string, a ...any) {
		d := fmt.Sprintf(format, a...)
		r.Violate(fmt.Sprintf("C10|%s|%s|code=%d", clause, fn, code), d, core.Case{Kind: "sweep", Args: map[string]string{"fn": fn, "code": fmt.Sprint(code), "detail": d}})
	}
	type look struct {
		known  bool
		pubLen int
		sigLen int // -1 when the lookup does not report it
	}
	cmp := func(fn string, code int, got look, wantKnown bool, wantPub, wantSig int) {
		r.Evaluations.Add(1)
		if got.known != wantKnown {
			bad("known", fn, code, "%s(%d): known=%v, specification says known=%v", fn, code, got.known, wantKnown)
			return
		}
		if !wantKnown {
			if got.pubLen > 0 || got.sigLen > 0 {
				bad("unknown-has-size", fn, code, "%s(%d): unknown code reports sizes %d/%d", fn, code, got.pubLen, got.sigLen)
			}
			return
		}
		if got.pubLen >= 0 && got.pubLen != wantPub {
			bad("key-length", fn, code, "%s(%d): public key length %d, specification %d", fn, code, got.pubLen, wantPub)
		}
		if got.sigLen >= 0 && got.sigLen != wantSig {
			bad("sig-length", fn, code, "%s(%d): signature length %d, specification %d", fn, code, got.sigLen, wantSig)
		}
		r.Distinct([]byte(fn), []byte{byte(code >> 8), byte(code)})
	}
	dest := c10Dest()
	perCode := func(code int) {
		si, sKnown := refmodel.SigTable[code]
		cLen, cKnown := refmodel.CryptoTable[code]
		// ---- signing lookups
		{
			v, ok := key_certificate.SigningKeySizes[code]
			cmp("key_certificate.SigningKeySizes", code, look{ok, v.SigningPublicKeySize, v.SignatureSize}, sKnown, si.PubLen, si.SigLen)
			n, ok := key_certificate.SignaturePublicKeySizes[uint16(code)]
			cmp("key_certificate.SignaturePublicKeySizes", code, look{ok, n, -1}, sKnown, si.PubLen, si.SigLen)
			n, err := key_certificate.GetSigningKeySize(code)
			cmp("key_certificate.GetSigningKeySize", code, look{err == nil, n, -1}, sKnown, si.PubLen, si.SigLen)
			n, err = key_certificate.GetSignatureSize(code)
			cmp("key_certificate.GetSignatureSize", code, look{err == nil, -1, n}, sKnown, si.PubLen, si.SigLen)
			ks, err := key_certificate.GetKeySizes(code, 4)
			cmp("key_certificate.GetKeySizes(sig,4)", code, look{err == nil, ks.SigningPublicKeySize, ks.SignatureSize}, sKnown, si.PubLen, si.SigLen)
			if kc, err := adapt.ParsedKeyCert(code, 4, nil); err == nil {
				p, s := kc.SigningPublicKeySize(), kc.SignatureSize()
				cmp("KeyCertificate.SigningPublicKeySize/SignatureSize", code, look{p != 0 || s != 0, p, s}, sKnown, si.PubLen, si.SigLen)
				if kc.SigningPublicKeyType() != code {
					bad("type-accessor", "KeyCertificate.SigningPublicKeyType", code, "declared %d reported %d", code, kc.SigningPublicKeyType())
				}
			} else {
				bad("keycert-parse", "NewKeyCertificate", code, "KEY certificate for signing code %d rejected: %v", code, err)
			}
			n, err = signature.SignatureSize(code)
			cmp("signature.SignatureSize", code, look{err == nil, -1, n}, sKnown, si.PubLen, si.SigLen)
			p := offline_signature.SigningPublicKeySize(uint16(code))
			cmp("offline_signature.SigningPublicKeySize", code, look{p != 0, p, -1}, sKnown, si.PubLen, si.SigLen)
			s := offline_signature.SignatureSize(uint16(code))
			cmp("offline_signature.SignatureSize", code, look{s != 0, -1, s}, sKnown, si.PubLen, si.SigLen)
			// behavioural: ReadSignature / NewSignatureFromBytes on lengths around the table size
			base := si.SigLen
			if !sKnown {
				base = 64
			}
			for _, L := range []int{0, base - 1, base, base + 1} {
				if L < 0 {
					continue
				}
				r.Evaluations.Add(1)
				in := refmodel.Fill("sig", uint64(code), L)
				sg, rem, err := signature.ReadSignature(in, code)
				wantOK := sKnown && L >= si.SigLen
				if (err == nil) != wantOK {
					bad("behaviour", "signature.ReadSignature", code, "ReadSignature(%d bytes, type %d): err=%v, specification: accept=%v", L, code, err, wantOK)
				} else if err == nil && (sg.Len() != si.SigLen || len(rem) != L-si.SigLen) {
					bad("behaviour", "signature.ReadSignature", code, "ReadSignature(%d bytes, type %d): took %d bytes, specification %d", L, code, sg.Len(), si.SigLen)
				}
				sg2, err := signature.NewSignatureFromBytes(in, code)
				wantOK = sKnown && L == si.SigLen
				if (err == nil) != wantOK {
					bad("behaviour", "signature.NewSignatureFromBytes", code, "NewSignatureFromBytes(%d bytes, type %d): err=%v, specification: accept=%v", L, code, err, wantOK)
				} else if err == nil && sg2.Len() != si.SigLen {
					bad("behaviour", "signature.NewSignatureFromBytes", code, "len %d", sg2.Len())
				}
			}
			// behavioural: offline signature, transient axis (destination Ed25519) and destination axis (transient Ed25519)
			{
				tl := si.PubLen
				if !sKnown {
					tl = 32
				}
				off := refmodel.Offline{Expires: 2000000000, TransType: code, TransKey: refmodel.Fill("tk", uint64(code), tl), Sig: refmodel.Fill("os", 1, 64)}
				in := append(off.Bytes(), 0xEE)
				r.Evaluations.Add(1)
				o, rem, err := offline_signature.ReadOfflineSignature(in, 7)
				if (err == nil) != sKnown {
					bad("behaviour", "ReadOfflineSignature(transient)", code, "transient type %d: err=%v, specification known=%v", code, err, sKnown)
				} else if err == nil && (len(o.TransientPublicKey()) != si.PubLen || len(rem) != 1 || len(o.Signature()) != 64) {
					bad("behaviour", "ReadOfflineSignature(transient)", code, "transient type %d: key %d bytes sig %d bytes rem %d", code, len(o.TransientPublicKey()), len(o.Signature()), len(rem))
				}
				sl := si.SigLen
				if !sKnown {
					sl = 64
				}
				off2 := refmodel.Offline{Expires: 2000000000, TransType: 7, TransKey: refmodel.Fill("tk", 7, 32), Sig: refmodel.Fill("os", uint64(code), sl)}
				in2 := append(off2.Bytes(), 0xEE)
				r.Evaluations.Add(1)
				o2, rem2, err := offline_signature.ReadOfflineSignature(in2, uint16(code))
				if (err == nil) != sKnown {
					bad("behaviour", "ReadOfflineSignature(destination)", code, "destination type %d: err=%v, specification known=%v", code, err, sKnown)
				} else if err == nil && (len(o2.Signature()) != si.SigLen || len(rem2) != 1) {
					bad("behaviour", "ReadOfflineSignature(destination)", code, "destination type %d: sig %d bytes rem %d", code, len(o2.Signature()), len(rem2))
				}
			}
			// behavioural: EncryptedLeaseSet blinded key length
			{
				kl, sl := si.PubLen, si.SigLen
				if !sKnown {
					kl, sl = 32, 64
				}
				e := refmodel.EncryptedLeaseSet{SigType: code, Blinded: refmodel.Fill("bk", uint64(code), kl), Published: 1700000000, Expires: 600, Inner: refmodel.Fill("in", 3, 80), Sig: refmodel.Fill("es", 4, sl)}
				in := append(e.Bytes(), 0xEE)
				r.Evaluations.Add(1)
				els, rem, err := encrypted_leaseset.ReadEncryptedLeaseSet(in)
				if (err == nil) != sKnown {
					bad("behaviour", "ReadEncryptedLeaseSet", code, "sig_type %d: err=%v, specification known=%v", code, err, sKnown)
				} else if err == nil && (len(els.BlindedPublicKey()) != si.PubLen || len(rem) != 1) {
					bad("behaviour", "ReadEncryptedLeaseSet", code, "sig_type %d: blinded key %d bytes (specification %d), remainder %d", code, len(els.BlindedPublicKey()), si.PubLen, len(rem))
				}
			}
		}
		// ---- crypto lookups
		{
			v, ok := key_certificate.CryptoKeySizes[code]
			cmp("key_certificate.CryptoKeySizes", code, look{ok, v.CryptoPublicKeySize, -1}, cKnown, cLen, 0)
			n, ok := key_certificate.CryptoPublicKeySizes[uint16(code)]
			cmp("key_certificate.CryptoPublicKeySizes", code, look{ok, n, -1}, cKnown, cLen, 0)
			n, err := key_certificate.GetCryptoKeySize(code)
			cmp("key_certificate.GetCryptoKeySize", code, look{err == nil, n, -1}, cKnown, cLen, 0)
			ks, err := key_certificate.GetKeySizes(7, code)
			cmp("key_certificate.GetKeySizes(7,crypto)", code, look{err == nil, ks.CryptoPublicKeySize, -1}, cKnown, cLen, 0)
			if kc, err := adapt.ParsedKeyCert(7, code, nil); err == nil {
				p := kc.CryptoSize()
				cmp("KeyCertificate.CryptoSize", code, look{p != 0, p, -1}, cKnown, cLen, 0)
				p2, err := kc.CryptoPublicKeySize()
				cmp("KeyCertificate.CryptoPublicKeySize", code, look{err == nil, p2, -1}, cKnown, cLen, 0)
				if kc.PublicKeyType() != code {
					bad("type-accessor", "KeyCertificate.PublicKeyType", code, "declared %d reported %d", code, kc.PublicKeyType())
				}
			} else {
				bad("keycert-parse", "NewKeyCertificate", code, "KEY certificate for crypto code %d rejected: %v", code, err)
			}
			// behavioural: LeaseSet2 key-length validation
			base := cLen
			if !cKnown {
				base = 32
			}
			for _, L := range []int{0, base - 1, base, base + 1} {
				ls := refmodel.LeaseSet2{Dest: dest, Published: 1700000000, Expires: 600,
					Keys:   []refmodel.EncKey{{Type: code, Data: refmodel.Fill("k", uint64(code), L)}},
					Leases: []refmodel.Lease2{{TunnelID: 1, EndSec: 1700000600}}}
				ls.Leases[0].Hash[0] = 1
				ls.Sig = refmodel.Fill("ls2sig", 9, 64)
				r.Evaluations.Add(1)
				p, _, err := lease_set2.ReadLeaseSet2(ls.Bytes())
				if err != nil {
					bad("behaviour", "ReadLeaseSet2", code, "key type %d len %d rejected by the parser: %v", code, L, err)
					continue
				}
				verr := p.Validate()
				wantOK := !cKnown || L == cLen
				if (verr == nil) != wantOK {
					bad("behaviour", "LeaseSet2.Validate(key length)", code, "key type %d len %d: Validate err=%v, specification length %d known=%v", code, L, verr, cLen, cKnown)
				}
				// the same entry at every POSITION of a key list: after a well-formed key of the same type, after a
				// well-formed key of another type, and between two (a validator that looks at the first key of a
				// type only, or stops at the first good one, agrees with the table on single-key sets)
				if !cKnown || code > 8 {
					continue
				}
				good := func(t int) refmodel.EncKey {
					return refmodel.EncKey{Type: t, Data: refmodel.Fill("kg", uint64(t), refmodel.CryptoTable[t])}
				}
				other := 4
				if code == 4 {
					other = 0
				}
				probe := refmodel.EncKey{Type: code, Data: refmodel.Fill("k", uint64(code), L)}
				for name, keys := range map[string][]refmodel.EncKey{
					"after-same-type":     {good(code), probe},
					"after-other-type":    {good(other), probe},
					"between-two":         {good(code), probe, good(other)},
					"before-same-type":    {probe, good(code)},
					"after-two-same-type": {good(code), good(code), probe},
				} {
					ls2 := ls
					ls2.Keys = keys
					r.Evaluations.Add(1)
					pp, _, err := lease_set2.ReadLeaseSet2(ls2.Bytes())
					if err != nil {
						continue
					}
					if verr := pp.Validate(); (verr == nil) != wantOK {
						bad("behaviour", "LeaseSet2.Validate(key length)["+name+"]", code, "key type %d len %d %s: Validate err=%v, specification length %d", code, L, name, verr, cLen)
					}
				}
			}
		}
	}
	core.ParallelFor(65536, func(_, code int) {
		// a lookup that panics for some code is neither "known" nor "unknown": reported here with the code
		// (C04 owns panics in general; without this guard the sweep itself would die on a worker goroutine)
		if pan, msg, site := core.GuardSite(func() { perCode(code) }); pan {
			cls := "unknown-to-the-specification-table"
			if refmodel.SigKnown(code) || refmodel.CryptoKnown(code) {
				cls = "known"
			}
			r.Violate("C10|lookup-panics|"+site+"|"+cls, fmt.Sprintf("a size lookup panics for type code %d instead of reporting it known or unknown: %s", code, msg),
				core.Case{Kind: "sweep", Args: map[string]string{"fn": site, "code": fmt.Sprint(code), "detail": msg}})
		}
	})

	// ---- 384-byte block layout for every supported pair
	for _, sig := range []int{0, 1, 2, 7, 8, 11} {
		for _, cr := range []int{0, 4, 5, 6, 7} {
			for fill := 0; fill < 3; fill++ {
				si, cl := refmodel.SigTable[sig], refmodel.CryptoTable[cr]
				mk := func(label string, n int) []byte {
					switch fill {
					case 1:
						return make([]byte, n)
					case 2:
						return bytes.Repeat([]byte{0xff}, n)
					}
					return refmodel.Fill(label, uint64(sig*16+cr), n)
				}
				k := refmodel.NewKAC(sig, cr, false, nil, mk("crypto", cl), mk("pad", 384-cl-si.PubLen), mk("sign", si.PubLen))
				in := k.Bytes()
				id := fmt.Sprintf("pair=%d/%d", sig, cr)
				r.Evaluations.Add(1)
				kac, rem, err := keys_and_cert.ReadKeysAndCert(in)
				if err != nil {
					r.Violate("C10|layout|ReadKeysAndCert-rejects|"+id, fmt.Sprintf("well-formed identity %s rejected: %v", id, err), core.Case{Kind: "sweep", Args: map[string]string{"input": core.HexFull(in)}})
					continue
				}
				fail := func(what string, got, want []byte) {
					r.Violate("C10|layout|"+what+"|"+id, fmt.Sprintf("%s for %s fill %d: got %s want %s", what, id, fill, core.Hex(got), core.Hex(want)), core.Case{Kind: "sweep", Args: map[string]string{"input": core.HexFull(in)}})
				}
				if len(rem) != 0 {
					fail("remainder", rem, nil)
				}
				pk, e1 := kac.PublicKey()
				sk, e2 := kac.SigningPublicKey()
				if e1 != nil || e2 != nil {
					fail("accessor-error", nil, nil)
					continue
				}
				if !bytes.Equal(pk.Bytes(), in[:cl]) || pk.Len() != cl {
					fail("crypto-key-at-start", pk.Bytes(), in[:cl])
				}
				if !bytes.Equal(sk.Bytes(), in[384-si.PubLen:384]) || sk.Len() != si.PubLen {
					fail("signing-key-at-end", sk.Bytes(), in[384-si.PubLen:384])
				}
				if !bytes.Equal(kac.Padding, in[cl:384-si.PubLen]) {
					fail("padding-between", kac.Padding, in[cl:384-si.PubLen])
				}
				if kac.KeyCertificate.CryptoSize() != pk.Len() || kac.KeyCertificate.SigningPublicKeySize() != sk.Len() {
					fail("declared-size-vs-key-length", nil, nil)
				}
				if out, err := kac.Bytes(); err != nil || !bytes.Equal(out, in) {
					fail("reserialise", out, in)
				}
				// constructor path with independently built key objects
				kc, _ := adapt.ParsedKeyCert(sig, cr, nil)
				lpk, e3 := adapt.CryptoPub(cr, k.Crypto)
				lsk, e4 := adapt.SigningPub(sig, k.Signing)
				if e3 == nil && e4 == nil {
					r.Evaluations.Add(1)
					nk, err := keys_and_cert.NewKeysAndCert(kc, lpk, k.Padding, lsk)
					if err != nil {
						r.Violate("C10|layout|NewKeysAndCert-rejects|"+id, fmt.Sprintf("%s: %v", id, err), core.Case{Kind: "sweep", Args: map[string]string{"pair": id}})
					} else if out, err := nk.Bytes(); err != nil || !bytes.Equal(out, in) {
						fail("constructor-layout", out, in)
					}
				}
				// edits through the exported fields after the value has been serialised once: the block must follow the
				// CURRENT keys and padding (copy-and-edit as the library's own wrappers do, and in place)
				if fill == 0 && e3 == nil && e4 == nil {
					for _, how := range []string{"copy", "in-place"} {
						fresh, _, err := keys_and_cert.ReadKeysAndCert(append([]byte(nil), in...))
						if err != nil || fresh == nil {
							continue
						}
						if _, err := fresh.Bytes(); err != nil {
							continue
						}
						target := fresh
						if how == "copy" {
							cp := *fresh
							target = &cp
						}
						nc := refmodel.Fill("crypto2", uint64(sig*16+cr), cl)
						ns := refmodel.Fill("sign2", uint64(sig*16+cr), si.PubLen)
						np := refmodel.Fill("pad3", uint64(sig*16+cr), 384-cl-si.PubLen)
						if sig == 0 {
							ns = k.Signing // a DSA key must be in range: keep it
						}
						npk, e5 := adapt.CryptoPub(cr, nc)
						nsk, e6 := adapt.SigningPub(sig, ns)
						if e5 != nil || e6 != nil {
							continue
						}
						r.Evaluations.Add(1)
						target.ReceivingPublic, target.SigningPublic, target.Padding = npk, nsk, np
						out, err := target.Bytes()
						if err != nil || len(out) < 384 {
							continue
						}
						if !bytes.Equal(out[:cl], nc) || !bytes.Equal(out[384-si.PubLen:384], ns) || !bytes.Equal(out[cl:384-si.PubLen], np) {
							r.Violate("C10|layout|block-does-not-follow-the-current-fields|"+id, fmt.Sprintf("%s: after the value had been serialised once, its keys and padding were replaced (%s) by others of the same lengths: the block of the next serialisation does not hold the current encryption key at its start, the current signing key at its end and the current padding between", id, how), core.Case{Kind: "sweep", Args: map[string]string{"pair": id, "how": how}})
						}
					}
				}
				// padding of every length 0..400 handed to the constructor: whatever it accepts must store, as the value's
				// padding, exactly the bytes that end up between the two keys of the 384-byte block
				if fill == 0 && e3 == nil && e4 == nil {
					gap := 384 - cl - si.PubLen
					for pl := 0; pl <= 400; pl++ {
						r.Evaluations.Add(1)
						pad := refmodel.Fill("pad2", uint64(pl), pl)
						var nk *keys_and_cert.KeysAndCert
						var err error
						if pan, _ := core.Guard(func() { nk, err = keys_and_cert.NewKeysAndCert(kc, lpk, pad, lsk) }); pan || err != nil || nk == nil {
							continue
						}
						out, berr := nk.Bytes()
						if berr != nil || len(out) < 384 {
							continue // C14's clause
						}
						if len(nk.Padding) != gap || !bytes.Equal(nk.Padding, out[cl:384-si.PubLen]) {
							r.Violate("C10|layout|constructor-padding-is-not-the-bytes-between-the-keys|"+id, fmt.Sprintf("%s: NewKeysAndCert accepts %d bytes of padding (the gap is %d): the value reports %d bytes of padding, its serialisation has %d between the keys", id, pl, gap, len(nk.Padding), gap), core.Case{Kind: "sweep", Args: map[string]string{"pair": id, "padlen": fmt.Sprint(pl)}})
							break
						}
					}
				}
				// values assembled field by field with a key object of an undeclared length: whatever the
				// validator accepts must hold keys of exactly the declared lengths (and serialise to the layout)
				if fill == 0 && e3 == nil && e4 == nil {
					for _, wl := range []int{31, 32, 33, 64, 96, 128, 255, 256, 257, 384} {
						for _, which := range []string{"crypto", "signing"} {
							v := &keys_and_cert.KeysAndCert{KeyCertificate: kc, ReceivingPublic: lpk, Padding: k.Padding, SigningPublic: lsk}
							declared := cl
							if which == "crypto" {
								if wl == cl {
									continue
								}
								wk, _ := adapt.CryptoPub(4, make([]byte, wl)) // slice-backed key object of arbitrary length
								if wl == 256 {
									wk, _ = adapt.CryptoPub(0, make([]byte, 256)) // the ElGamal array type
								}
								v.ReceivingPublic = wk
							} else {
								declared = si.PubLen
								if wl == si.PubLen {
									continue
								}
								wk, _ := adapt.SigningPub(7, make([]byte, wl))
								v.SigningPublic = wk
							}
							r.Evaluations.Add(1)
							var verr error
							var out []byte
							var berr error
							if pan, _ := core.Guard(func() { verr = v.Validate(); out, berr = v.Bytes() }); pan {
								continue // C04/C20's business
							}
							if verr == nil || berr == nil {
								r.Violate("C10|layout|validator-accepts-key-of-undeclared-length|"+which, fmt.Sprintf("%s: a KeysAndCert holding a %d-byte %s key under a certificate declaring %d bytes: Validate err=%v, Bytes err=%v (%d bytes)", id, wl, which, declared, verr, berr, len(out)), core.Case{Kind: "sweep", Args: map[string]string{"pair": id, "which": which, "len": fmt.Sprint(wl)}})
							}
						}
					}
				}
				r.Distinct([]byte("layout"), in)
			}
		}
	}
	// one certificate OBJECT stepped through every code (SpkType / CpkType are exported fields; the sweep above
	// builds a fresh certificate per code, which cannot see sizes remembered from construction time): constructed
	// and parsed certificates, signing axis then crypto axis, sequentially
	for _, origin := range []string{"NewKeyCertificateWithTypes(7,4)", "NewKeyCertificate(bytes)"} {
		var kc *key_certificate.KeyCertificate
		if origin == "NewKeyCertificateWithTypes(7,4)" {
			kc, _ = key_certificate.NewKeyCertificateWithTypes(7, 4)
		} else {
			kc, _ = adapt.ParsedKeyCert(7, 4, nil)
		}
		if kc == nil {
			continue
		}
		for code := 0; code < 65536; code++ {
			r.Evaluations.Add(1)
			si, sKnown := refmodel.SigTable[code]
			kc.SpkType = data.Integer(refmodel.BE(uint64(code), 2))
			var p, sg int
			if pan, msg := core.Guard(func() { p, sg = kc.SigningPublicKeySize(), kc.SignatureSize() }); pan {
				bad("stepped-certificate", "KeyCertificate.SigningPublicKeySize/SignatureSize", code, "panics after SpkType was set to %d on a certificate from %s: %s", code, origin, msg)
				break
			}
			if kc.SigningPublicKeyType() != code || (sKnown && (p != si.PubLen || sg != si.SigLen)) || (!sKnown && (p != 0 || sg != 0)) {
				bad("stepped-certificate", "KeyCertificate.SigningPublicKeySize/SignatureSize", code, "a certificate from %s whose SpkType was set to %d reports type %d, key %d, signature %d bytes; table: known=%v %d/%d", origin, code, kc.SigningPublicKeyType(), p, sg, sKnown, si.PubLen, si.SigLen)
				break
			}
		}
		kc.SpkType = data.Integer(refmodel.BE(7, 2))
		for code := 0; code < 65536; code++ {
			r.Evaluations.Add(1)
			cl, cKnown := refmodel.CryptoTable[code]
			kc.CpkType = data.Integer(refmodel.BE(uint64(code), 2))
			var n int
			if pan, msg := core.Guard(func() { n = kc.CryptoSize() }); pan {
				bad("stepped-certificate", "KeyCertificate.CryptoSize", code, "panics after CpkType was set to %d on a certificate from %s: %s", code, origin, msg)
				break
			}
			if kc.PublicKeyType() != code || (cKnown && n != cl) || (!cKnown && n != 0) {
				bad("stepped-certificate", "KeyCertificate.CryptoSize", code, "a certificate from %s whose CpkType was set to %d reports type %d, key %d bytes; table: known=%v %d", origin, code, kc.PublicKeyType(), n, cKnown, cl)
				break
			}
		}
	}
	// result-independence histories (H1/H2) of the size and type accessors of parsed values
	independencePass(r, "C10", func(family, call string) bool {
		if !containsAny(family, "KeysAndCert", "Destination", "RouterIdentity", "KeyCertificate", "Certificate", "LeaseSet", "OfflineSignature", "Signature") {
			return false
		}
		return call == "" || containsAny(call, "Size", "KeyType", "Len", "Type(")
	})
	r.Sample(map[string]any{"lookup": "signature.SignatureSize", "code": 2, "spec": "96"})
	r.Sample(map[string]any{"lookup": "offline_signature.SigningPublicKeySize", "code": 9, "spec": "unknown"})
	r.Sample(map[string]any{"layout": "sig 1 (P-256, 64) / crypto 4 (X25519, 32)", "crypto": "[0,32)", "padding": "[32,320)", "signing": "[320,384)"})
}
