package checks

import (
	"github.com/go-i2p/common/certificate"
	"github.com/go-i2p/common/key_certificate"
	"strings"
	"time"

	"fmt"

	"verif/internal/adapt"
	"verif/internal/core"
	"verif/internal/gen"
	"verif/internal/refmodel"

	"github.com/go-i2p/common/destination"
	"github.com/go-i2p/common/encrypted_leaseset"
	"github.com/go-i2p/common/keys_and_cert"
	"github.com/go-i2p/common/lease_set"
	"github.com/go-i2p/common/lease_set2"
	"github.com/go-i2p/common/meta_leaseset"
	"github.com/go-i2p/common/router_identity"
	"github.com/go-i2p/common/router_info"
)

func init() { register("C09", runC09, replayBySweep(runC09)) }

// c09Identity builds identity bytes declaring (sig, crypto) with real-looking keys. For codes
// the specification does not know the key lengths default to 32.
func c09Identity(sig, cr int, extra []byte) ([]byte, refmodel.KeysAndCert) {
	sl, cl := 32, 32
	if si, ok := refmodel.SigTable[sig]; ok {
		sl = si.PubLen
	}
	if n, ok := refmodel.CryptoTable[cr]; ok {
		cl = n
	}
	if sl > 128 {
		sl = 128 // oversize keys keep only their inline part; the rest would live in the certificate
	}
	var signing []byte
	if refmodel.Verifiable(sig) {
		signing = gen.Key(sig, 90).Pub
	} else {
		signing = refmodel.Fill("c09s", uint64(sig), sl)
	}
	crypto := refmodel.Fill("c09c", uint64(cr), cl)
	crypto[0] = 0x11
	k := refmodel.NewKAC(sig, cr, false, extra, crypto, refmodel.Fill("c09p", 1, 384-cl-len(signing)), signing)
	return k.Bytes(), k
}

type c09Path struct {
	name string
	kind string // "dest" or "ri"
	// run returns the declared (sig, crypto) of the identity the path yielded, ok=false if the path failed
	run func(id []byte, k refmodel.KeysAndCert, sig, cr int) (int, int, bool)
}

// The types an identity "declares" are what it puts on the wire: the key certificate inside its own
// serialisation. When the accessors say something else, the more dangerous of the two views is returned (a
// prohibited type in either view is a prohibited type).
func wireTypes(b []byte, err error) (int, int, bool) {
	if err != nil || len(b) < 384+7 || b[384] != 5 {
		return 0, 0, false
	}
	return int(b[387])<<8 | int(b[388]), int(b[389])<<8 | int(b[390]), true
}

func worseView(as, ac int, ws, wc int, wok bool, ri bool) (int, int, bool) {
	if !wok {
		return as, ac, true
	}
	bad := func(s, c int) bool {
		if ri {
			return refmodel.ProhibitedRISig(s) || refmodel.ProhibitedRICrypto(c)
		}
		return refmodel.ProhibitedDestSig(s) || refmodel.ProhibitedDestCrypto(c)
	}
	if bad(ws, wc) && !bad(as, ac) {
		return ws, wc, true
	}
	return as, ac, true
}

func destTypes(d destination.Destination) (int, int, bool) {
	if d.KeysAndCert == nil || d.KeyCertificate == nil {
		return 0, 0, false
	}
	var ws, wc int
	var wok bool
	core.Guard(func() { ws, wc, wok = wireTypes(d.Bytes()) })
	return worseView(d.KeyCertificate.SigningPublicKeyType(), d.KeyCertificate.PublicKeyType(), ws, wc, wok, false)
}

func riTypes(r *router_identity.RouterIdentity) (int, int, bool) {
	if r == nil || r.KeysAndCert == nil || r.KeyCertificate == nil {
		return 0, 0, false
	}
	var ws, wc int
	var wok bool
	core.Guard(func() { ws, wc, wok = wireTypes(r.KeysAndCert.Bytes()) })
	return worseView(r.KeyCertificate.SigningPublicKeyType(), r.KeyCertificate.PublicKeyType(), ws, wc, wok, true)
}

// c09Rewritten: a permitted (7,4) identity is parsed; the caller then rewrites the four key-type bytes through
// the payload slice the certificate accessor hands out (where that slice is the certificate's own storage),
// and passes the KeysAndCert to a wrapping constructor. ok=false when the write did not reach the certificate
// (the accessor returned a copy) or the constructor refused.
func c09Rewritten(sig, cr int, wrap func(k *keys_and_cert.KeysAndCert) (int, int, bool)) (int, int, bool) {
	id, _ := c09Identity(7, 4, nil)
	k, _, err := keys_and_cert.ReadKeysAndCert(id)
	if err != nil || k == nil || k.Certificate() == nil {
		return 0, 0, false
	}
	d, err := k.Certificate().Data()
	if err != nil || len(d) < 4 {
		return 0, 0, false
	}
	copy(d[:4], append(refmodel.BE(uint64(sig), 2), refmodel.BE(uint64(cr), 2)...))
	gs, gc, ok := wrap(k)
	if ok && gs == 7 && gc == 4 && (sig != 7 || cr != 4) {
		return 0, 0, false // the write did not reach the certificate: nothing was asked of the policy
	}
	return gs, gc, ok
}

// c09BuilderReuse: an identity is built from a (7,4) certificate made by a CertificateBuilder; the SAME builder is
// then asked for a certificate with other key types; the identity built first is looked at again.
func c09BuilderReuse(sig, cr int, build func(c *certificate.Certificate) (func() (int, int, bool), bool)) (int, int, bool) {
	b := certificate.NewCertificateBuilder()
	if _, err := b.WithKeyTypes(7, 4); err != nil {
		return 0, 0, false
	}
	c1, err := b.Build()
	if err != nil || c1 == nil {
		return 0, 0, false
	}
	look, ok := build(c1)
	if !ok {
		return 0, 0, false
	}
	core.Guard(func() {
		if _, err := b.WithKeyTypes(sig, cr); err == nil {
			b.Build()
		}
	})
	gs, gc, ok := look()
	if ok && gs == 7 && gc == 4 {
		return 0, 0, false // unchanged, as it must be: nothing to report for the pair (sig, cr)
	}
	return gs, gc, ok
}

func siglen(t int) int {
	if si, ok := refmodel.SigTable[t]; ok {
		return si.SigLen
	}
	return 64
}

func publen(t int) int {
	if si, ok := refmodel.SigTable[t]; ok {
		return si.PubLen
	}
	return 32
}

var c09Paths = []c09Path{
	{"destination.ReadDestination", "dest", func(id []byte, _ refmodel.KeysAndCert, _, _ int) (int, int, bool) {
		d, _, err := destination.ReadDestination(id)
		if err != nil {
			return 0, 0, false
		}
		return destTypes(d)
	}},
	{"destination.NewDestinationFromBytes", "dest", func(id []byte, _ refmodel.KeysAndCert, _, _ int) (int, int, bool) {
		d, _, err := destination.NewDestinationFromBytes(id)
		if err != nil || d == nil {
			return 0, 0, false
		}
		return destTypes(*d)
	}},
	{"destination.NewDestination(ReadKeysAndCert)", "dest", func(id []byte, _ refmodel.KeysAndCert, _, _ int) (int, int, bool) {
		k, _, err := keys_and_cert.ReadKeysAndCert(id)
		if err != nil {
			return 0, 0, false
		}
		d, err := destination.NewDestination(k)
		if err != nil || d == nil {
			return 0, 0, false
		}
		return destTypes(*d)
	}},
	{"destination.NewDestination(NewKeysAndCert)", "dest", func(_ []byte, k refmodel.KeysAndCert, _, _ int) (int, int, bool) {
		d, err := adapt.Destination(k)
		if err != nil || d == nil {
			return 0, 0, false
		}
		return destTypes(*d)
	}},
	{"lease_set.ReadDestinationFromLeaseSet", "dest", func(id []byte, _ refmodel.KeysAndCert, _, _ int) (int, int, bool) {
		d, _, err := lease_set.ReadDestinationFromLeaseSet(append(append([]byte(nil), id...), 1, 2, 3))
		if err != nil {
			return 0, 0, false
		}
		return destTypes(d)
	}},
	{"lease_set.ReadLeaseSet.Destination", "dest", func(id []byte, _ refmodel.KeysAndCert, sig, _ int) (int, int, bool) {
		b := append([]byte(nil), id...)
		ek := refmodel.Fill("c09ek", 1, 256)
		ek[0] = 0x11
		b = append(b, ek...)
		if refmodel.Verifiable(sig) {
			b = append(b, gen.Key(sig, 91).Pub...)
		} else {
			b = append(b, refmodel.Fill("c09sk", 1, publen(sig))...)
		}
		b = append(b, 0)
		b = append(b, make([]byte, siglen(sig))...)
		ls, err := lease_set.ReadLeaseSet(b)
		if err != nil {
			return 0, 0, false
		}
		return destTypes(ls.Destination())
	}},
	{"lease_set2.ReadLeaseSet2.Destination", "dest", func(id []byte, _ refmodel.KeysAndCert, sig, _ int) (int, int, bool) {
		b := c09LS2(id, sig)
		ls, _, err := lease_set2.ReadLeaseSet2(b)
		if err != nil {
			return 0, 0, false
		}
		return destTypes(ls.Destination())
	}},
	{"lease_set2.ReadLeaseSet2.Destination[offline keys]", "dest", func(id []byte, _ refmodel.KeysAndCert, sig, _ int) (int, int, bool) {
		ls, _, err := lease_set2.ReadLeaseSet2(c09LS2Flags(id, sig, 1))
		if err != nil {
			return 0, 0, false
		}
		return destTypes(ls.Destination())
	}},
	{"lease_set2.ReadLeaseSet2.Destination[unpublished+blinded]", "dest", func(id []byte, _ refmodel.KeysAndCert, sig, _ int) (int, int, bool) {
		ls, _, err := lease_set2.ReadLeaseSet2(c09LS2Flags(id, sig, 6))
		if err != nil {
			return 0, 0, false
		}
		return destTypes(ls.Destination())
	}},
	{"lease_set2.ReadLeaseSet2.Destination[offline+unpublished+blinded]", "dest", func(id []byte, _ refmodel.KeysAndCert, sig, _ int) (int, int, bool) {
		ls, _, err := lease_set2.ReadLeaseSet2(c09LS2Flags(id, sig, 7))
		if err != nil {
			return 0, 0, false
		}
		return destTypes(ls.Destination())
	}},
	{"meta_leaseset.ReadMetaLeaseSet.Destination[offline keys]", "dest", func(id []byte, _ refmodel.KeysAndCert, sig, _ int) (int, int, bool) {
		b := append([]byte(nil), id...)
		b = append(b, c09Header(sig, 1)...)
		b = append(b, 2)
		for i := 0; i < 2; i++ {
			b = append(b, refmodel.Fill("c09me", uint64(i), 32)...)
			b = append(b, 3)
			b = append(b, refmodel.BE(gen.LeaseEndSec, 4)...)
			b = append(b, 0, 0, 0)
		}
		b = append(b, make([]byte, 64)...)
		m, _, err := meta_leaseset.ReadMetaLeaseSet(b)
		if err != nil {
			return 0, 0, false
		}
		return destTypes(m.Destination())
	}},
	{"meta_leaseset.ReadMetaLeaseSet.Destination", "dest", func(id []byte, _ refmodel.KeysAndCert, sig, _ int) (int, int, bool) {
		b := append([]byte(nil), id...)
		b = append(b, refmodel.BE(gen.Published, 4)...)
		b = append(b, refmodel.BE(600, 2)...)
		b = append(b, 0, 0, 0, 0) // flags, empty options
		b = append(b, 2)
		for i := 0; i < 2; i++ {
			b = append(b, refmodel.Fill("c09me", uint64(i), 32)...)
			b = append(b, 3)
			b = append(b, refmodel.BE(gen.LeaseEndSec, 4)...)
			b = append(b, 0, 0, 0)
		}
		b = append(b, make([]byte, siglen(sig))...)
		m, _, err := meta_leaseset.ReadMetaLeaseSet(b)
		if err != nil {
			return 0, 0, false
		}
		return destTypes(m.Destination())
	}},
	{"router_identity.ReadRouterIdentity", "ri", func(id []byte, _ refmodel.KeysAndCert, _, _ int) (int, int, bool) {
		r, _, err := router_identity.ReadRouterIdentity(id)
		if err != nil {
			return 0, 0, false
		}
		return riTypes(r)
	}},
	{"router_identity.ReadRouterIdentity, re-observed after AsDestination + CreateBlindedDestination", "ri", func(id []byte, _ refmodel.KeysAndCert, _, _ int) (int, int, bool) {
		// history: the identity is obtained, then converted and the conversion blinded (operations that
		// only read it); the types the identity declares AFTERWARDS are what a user relies on
		ri, _, err := router_identity.ReadRouterIdentity(id)
		if err != nil {
			return 0, 0, false
		}
		d := ri.AsDestination()
		core.Guard(func() {
			_, _ = encrypted_leaseset.CreateBlindedDestination(d, make([]byte, 32), time.Unix(int64(gen.Published), 0))
		})
		return riTypes(ri)
	}},
	{"destination.ReadDestination, re-observed after CreateBlindedDestination", "dest", func(id []byte, _ refmodel.KeysAndCert, _, _ int) (int, int, bool) {
		d, _, err := destination.ReadDestination(id)
		if err != nil {
			return 0, 0, false
		}
		core.Guard(func() {
			_, _ = encrypted_leaseset.CreateBlindedDestination(d, make([]byte, 32), time.Unix(int64(gen.Published), 0))
		})
		return destTypes(d)
	}},
	{"keys_and_cert.ReadKeysAndCert(7/4) + type bytes rewritten through Certificate().Data() + destination.NewDestination", "dest", func(_ []byte, _ refmodel.KeysAndCert, sig, cr int) (int, int, bool) {
		return c09Rewritten(sig, cr, func(k *keys_and_cert.KeysAndCert) (int, int, bool) {
			d, err := destination.NewDestination(k)
			if err != nil || d == nil {
				return 0, 0, false
			}
			return destTypes(*d)
		})
	}},
	{"keys_and_cert.ReadKeysAndCert(7/4) + type bytes rewritten through Certificate().Data() + router_identity.NewRouterIdentityFromKeysAndCert", "ri", func(_ []byte, _ refmodel.KeysAndCert, sig, cr int) (int, int, bool) {
		return c09Rewritten(sig, cr, func(k *keys_and_cert.KeysAndCert) (int, int, bool) {
			ri, err := router_identity.NewRouterIdentityFromKeysAndCert(k)
			if err != nil {
				return 0, 0, false
			}
			return riTypes(ri)
		})
	}},
	{"router_identity.NewRouterIdentity(certificate from a CertificateBuilder), re-observed after the builder was reused", "ri", func(_ []byte, _ refmodel.KeysAndCert, sig, cr int) (int, int, bool) {
		return c09BuilderReuse(sig, cr, func(c *certificate.Certificate) (func() (int, int, bool), bool) {
			_, k := c09Identity(7, 4, nil)
			pk, e1 := adapt.CryptoPub(4, k.Crypto)
			sk, e2 := adapt.SigningPub(7, k.Signing)
			if e1 != nil || e2 != nil {
				return nil, false
			}
			ri, err := router_identity.NewRouterIdentity(pk, sk, c, append([]byte(nil), k.Padding...))
			if err != nil || ri == nil {
				return nil, false
			}
			return func() (int, int, bool) { return riTypes(ri) }, true
		})
	}},
	{"destination.NewDestination(NewKeysAndCert(certificate from a CertificateBuilder)), re-observed after the builder was reused", "dest", func(_ []byte, _ refmodel.KeysAndCert, sig, cr int) (int, int, bool) {
		return c09BuilderReuse(sig, cr, func(c *certificate.Certificate) (func() (int, int, bool), bool) {
			_, k := c09Identity(7, 4, nil)
			pk, e1 := adapt.CryptoPub(4, k.Crypto)
			sk, e2 := adapt.SigningPub(7, k.Signing)
			kc, e3 := key_certificate.KeyCertificateFromCertificate(c)
			if e1 != nil || e2 != nil || e3 != nil {
				return nil, false
			}
			kac, err := keys_and_cert.NewKeysAndCert(kc, pk, append([]byte(nil), k.Padding...), sk)
			if err != nil {
				return nil, false
			}
			d, err := destination.NewDestination(kac)
			if err != nil || d == nil {
				return nil, false
			}
			return func() (int, int, bool) { return destTypes(*d) }, true
		})
	}},
	{"router_identity.NewRouterIdentityFromBytes", "ri", func(id []byte, _ refmodel.KeysAndCert, _, _ int) (int, int, bool) {
		r, _, err := router_identity.NewRouterIdentityFromBytes(id)
		if err != nil {
			return 0, 0, false
		}
		return riTypes(r)
	}},
	{"router_identity.NewRouterIdentityFromKeysAndCert(ReadKeysAndCert)", "ri", func(id []byte, _ refmodel.KeysAndCert, _, _ int) (int, int, bool) {
		k, _, err := keys_and_cert.ReadKeysAndCert(id)
		if err != nil {
			return 0, 0, false
		}
		r, err := router_identity.NewRouterIdentityFromKeysAndCert(k)
		if err != nil {
			return 0, 0, false
		}
		return riTypes(r)
	}},
	{"router_identity.NewRouterIdentity", "ri", func(_ []byte, k refmodel.KeysAndCert, _, _ int) (int, int, bool) {
		r, err := adapt.RouterIdentity(k)
		if err != nil {
			return 0, 0, false
		}
		return riTypes(r)
	}},
	{"router_identity.NewRouterIdentityWithCompressiblePadding", "ri", func(_ []byte, k refmodel.KeysAndCert, _, _ int) (int, int, bool) {
		_, c, err := adapt.KeyCert(k)
		if err != nil {
			return 0, 0, false
		}
		pk, e1 := adapt.CryptoPub(k.CryptoType, k.Crypto)
		sk, e2 := adapt.SigningPub(k.SigType, k.Signing)
		if e1 != nil || e2 != nil {
			return 0, 0, false
		}
		r, err := router_identity.NewRouterIdentityWithCompressiblePadding(pk, sk, c)
		if err != nil {
			return 0, 0, false
		}
		return riTypes(r)
	}},
	{"router_identity.RouterIdentity.AsDestination", "dest", func(id []byte, _ refmodel.KeysAndCert, _, _ int) (int, int, bool) {
		r, _, err := router_identity.ReadRouterIdentity(id)
		if err != nil || r == nil {
			return 0, 0, false
		}
		return destTypes(r.AsDestination())
	}},
	{"router_info.ReadRouterInfo.RouterIdentity", "ri", func(id []byte, _ refmodel.KeysAndCert, sig, _ int) (int, int, bool) {
		b := append([]byte(nil), id...)
		b = append(b, refmodel.BE(gen.PublishedMs, 8)...)
		b = append(b, 0, 0, 0, 0) // no addresses, peer_size 0, empty options
		b = append(b, make([]byte, siglen(sig))...)
		ri, _, err := router_info.ReadRouterInfo(b)
		if err != nil {
			return 0, 0, false
		}
		return riTypes(ri.RouterIdentity())
	}},
	{"encrypted_leaseset.DecryptInnerData.Destination", "dest", func(id []byte, _ refmodel.KeysAndCert, sig, _ int) (int, int, bool) {
		inner := c09LS2(id, sig)
		t, c, ok := c09ViaELS(inner)
		return t, c, ok
	}},
}

func c09LS2(id []byte, sig int) []byte { return c09LS2Flags(id, sig, 0) }

// c09Header: published, expires, flags (+ a well-formed-by-length offline block when bit 0 is set), empty options.
func c09Header(sig int, flags uint16) []byte {
	b := refmodel.BE(gen.Published, 4)
	b = append(b, refmodel.BE(600, 2)...)
	b = append(b, refmodel.BE(uint64(flags), 2)...)
	if flags&1 != 0 {
		b = append(b, refmodel.BE(gen.OfflineExp, 4)...)
		b = append(b, 0, 7)
		b = append(b, gen.Key(7, 93).Pub...)
		b = append(b, make([]byte, siglen(sig))...)
	}
	return append(b, 0, 0)
}

func c09LS2Flags(id []byte, sig int, flags uint16) []byte {
	b := append([]byte(nil), id...)
	b = append(b, c09Header(sig, flags)...)
	b = append(b, 1, 0, 4, 0, 32)
	b = append(b, refmodel.Fill("c09k", 1, 32)...)
	b = append(b, 2)
	for i := 0; i < 2; i++ {
		b = append(b, refmodel.Lease2{Hash: [32]byte{1}, TunnelID: 1, EndSec: gen.LeaseEndSec}.Bytes()...)
	}
	if flags&1 != 0 {
		return append(b, make([]byte, 64)...) // signed by the (Ed25519) transient key
	}
	return append(b, make([]byte, siglen(sig))...)
}

func x25519Fixed() (interface{}, interface{}) {
	pub, priv := adapt.X25519Pair(1)
	return pub, priv
}

// c09ViaELS encrypts an LS2 plaintext for a fixed recipient and decrypts it again through the
// library, returning the destination types of the decrypted LeaseSet2.
func c09ViaELS(inner []byte) (int, int, bool) {
	ls, _, err := lease_set2.ReadLeaseSet2(inner)
	if err != nil {
		return 0, 0, false // encryption needs a parsed LeaseSet2; the parse path already refused
	}
	pub, priv := x25519Fixed()
	var cookie [32]byte
	ct, err := encrypted_leaseset.EncryptInnerLeaseSet2(&ls, cookie, pub)
	if err != nil {
		return 0, 0, false
	}
	e := refmodel.EncryptedLeaseSet{SigType: 7, Blinded: gen.Key(7, 92).Pub, Published: gen.Published, Expires: 600, Inner: ct, Sig: make([]byte, 64)}
	els, _, err := encrypted_leaseset.ReadEncryptedLeaseSet(e.Bytes())
	if err != nil {
		return 0, 0, false
	}
	dec, err := els.DecryptInnerData(cookie[:], priv)
	if err != nil || dec == nil {
		return 0, 0, false
	}
	return destTypes(dec.Destination())
}

func runC09(r *core.Run) {
	r.Level = "model_checking"
	r.Rule = "every API path that yields a Destination or RouterIdentity (22 paths: direct readers, pointer wrappers, constructors fed from ReadKeysAndCert and from NewKeysAndCert, the legacy LeaseSet reader, LeaseSet2 (flags 0, offline keys, unpublished+blinded, all three) / MetaLeaseSet (with and without offline keys) / RouterInfo embedding, AsDestination, compressible-padding constructor, decrypted inner LeaseSet2, and identities re-observed after AsDestination / CreateBlindedDestination) x the full product of all known + boundary signing codes (21) and crypto codes (14) x KEY certificates with 0, 1 and 5 extra payload bytes, plus each axis over all 65,536 codes with the other axis at a permitted value for the four cheap reader paths. Oracle: path success => declared types not prohibited for that kind (independent table); every permitted pair the library can represent succeeds on every path. states = (path, pair) combinations, transitions = API calls. non-trivial = distinct (path, pair) on which the path succeeded"
	sigCodes := []int{0, 1, 2, 3, 4, 5, 6, 7, 8, 9, 10, 11, 12, 20, 21, 255, 256, 65280, 65534, 65535}
	crCodes := []int{0, 1, 2, 3, 4, 5, 6, 7, 8, 255, 256, 65280, 65534, 65535}
	check := func(p c09Path, sig, cr int, extra []byte) {
		r.Evaluations.Add(1)
		r.States.Add(1)
		r.Transitions.Add(1)
		id, k := c09Identity(sig, cr, extra)
		var gs, gc int
		var ok bool
		pan, msg := core.Guard(func() { gs, gc, ok = p.run(id, k, sig, cr) })
		args := map[string]string{"path": p.name, "sig": fmt.Sprint(sig), "crypto": fmt.Sprint(cr), "extra_cert_payload": fmt.Sprint(len(extra))}
		if pan {
			r.Violate("C09|panic|"+p.name, fmt.Sprintf("%s panics for types %d/%d: %s", p.name, sig, cr, msg), core.Case{Kind: "pair", Args: args})
			return
		}
		prohibited := refmodel.ProhibitedDestSig(sig) || refmodel.ProhibitedDestCrypto(cr)
		if p.kind == "ri" {
			prohibited = refmodel.ProhibitedRISig(sig) || refmodel.ProhibitedRICrypto(cr)
		}
		if ok {
			r.Traces.Add(1)
			gprohibited := refmodel.ProhibitedDestSig(gs) || refmodel.ProhibitedDestCrypto(gc)
			if p.kind == "ri" {
				gprohibited = refmodel.ProhibitedRISig(gs) || refmodel.ProhibitedRICrypto(gc)
			}
			if prohibited || gprohibited {
				what := "Destination"
				if p.kind == "ri" {
					what = "RouterIdentity"
				}
				r.Violate(fmt.Sprintf("C09|prohibited-type-yielded|%s", p.name), fmt.Sprintf("%s yields a %s declaring signing type %d / crypto type %d (encoded %d/%d), which the specification prohibits for a %s", p.name, what, gs, gc, sig, cr, what), core.Case{Kind: "pair", Args: args})
			} else if gs != sig || gc != cr {
				r.Violate(fmt.Sprintf("C09|types-changed|%s", p.name), fmt.Sprintf("%s: encoded types %d/%d, yielded identity declares %d/%d", p.name, sig, cr, gs, gc), core.Case{Kind: "pair", Args: args})
			}
			r.Distinct([]byte(p.name), []byte{byte(sig >> 8), byte(sig), byte(cr >> 8), byte(cr)})
			return
		}
		// permitted AND representable pairs must succeed on every path
		representable := (cr == 0 || cr == 4) && (sig == 0 || sig == 1 || sig == 2 || sig == 7 || (sig == 11 && p.kind == "dest"))
		if p.name == "router_identity.RouterIdentity.AsDestination" && sig == 11 {
			representable = false // RedDSA cannot be in a RouterIdentity to start from
		}
		if strings.Contains(p.name, "rewritten through") || strings.Contains(p.name, "builder was reused") {
			representable = false // history paths: success is not promised (key sizes no longer fit / nothing changed)
		}
		if representable && !prohibited {
			r.Violate(fmt.Sprintf("C09|permitted-pair-rejected|%s|%d/%d", p.name, sig, cr), fmt.Sprintf("%s fails for the permitted, supported pair signing %d / crypto %d", p.name, sig, cr), core.Case{Kind: "pair", Args: args})
		}
	}
	type job struct {
		p       c09Path
		sig, cr int
	}
	var jobs []job
	for _, p := range c09Paths {
		for _, s := range sigCodes {
			for _, c := range crCodes {
				jobs = append(jobs, job{p, s, c})
			}
		}
	}
	core.ParallelFor(len(jobs), func(_, i int) {
		check(jobs[i].p, jobs[i].sig, jobs[i].cr, nil)
		// the same pair with a KEY certificate carrying extra payload bytes (valid, longer identity)
		check(jobs[i].p, jobs[i].sig, jobs[i].cr, []byte{0xE1})
		check(jobs[i].p, jobs[i].sig, jobs[i].cr, []byte{0xE1, 0xE2, 0xE3, 0xE4, 0xE5})
	})
	// full 16-bit axes for the cheap reader paths
	cheap := []c09Path{c09Paths[0], c09Paths[4], c09Paths[5], c09Paths[8]}
	core.ParallelFor(65536, func(_, code int) {
		for _, p := range cheap {
			check(p, code, 4, nil)
			check(p, 7, code, nil)
		}
	})
	r.Sample(map[string]any{"path": "lease_set.ReadLeaseSet.Destination", "pair": "8/4 (Ed25519ph / X25519)", "expect": "rejected"})
	r.Sample(map[string]any{"path": "router_info.ReadRouterInfo.RouterIdentity", "pair": "11/4 (RedDSA)", "expect": "rejected"})
}
