package checks

import (
	"bytes"
	"errors"
	"fmt"
	"io"

	"verif/internal/core"
	"verif/internal/gen"
	"verif/internal/refmodel"

	"github.com/go-i2p/common/data"
	"github.com/go-i2p/common/destination"
	"github.com/go-i2p/common/router_info"
)

// failingReader delivers n bytes and then a non-EOF error (a connection that drops).
type failingReader struct {
	b []byte
	n int
}

func (f *failingReader) Read(p []byte) (int, error) {
	if f.n <= 0 {
		return 0, errors.New("connection reset")
	}
	k := copy(p, f.b[:min(f.n, len(f.b))])
	f.n -= k
	f.b = f.b[k:]
	if k == 0 {
		return 0, errors.New("connection reset")
	}
	return k, nil
}

// c07History: E4 over the hashing entry points. "Pure function of the wire bytes" is a statement
// about every call history: every sequence of up to depth operations over
// {HashData(x), HashReader(healthy reader), HashReader(reader failing after k bytes), HashReader(empty),
// RouterInfo.IdentHash, Destination.Hash, Destination.Base32Address} runs on one goroutine; every
// result must equal SHA-256 of the bytes (standard library), whatever ran before - also error paths.
func c07History(r *core.Run, depth int) {
	idw := func() []byte {
		kp := gen.Key(7, 71)
		k := refmodel.NewKAC(7, 4, false, nil, refmodel.Fill("c07h.c", 1, 32), refmodel.Fill("c07h.p", 1, 320), kp.Pub)
		return k.Bytes()
	}()
	idk, _, _ := refmodel.DecodeKeysAndCert(idw)
	rib := (refmodel.RouterInfo{Ident: idk, Published: gen.PublishedMs, Sig: make([]byte, 64)}).Bytes()
	ri, _, err := router_info.ReadRouterInfo(append([]byte(nil), rib...))
	if err != nil {
		r.AddNote("c07_history_skipped_routerinfo_does_not_parse", 1)
		return
	}
	d, _, err := destination.ReadDestination(append([]byte(nil), idw...))
	if err != nil {
		r.AddNote("c07_history_skipped_destination_does_not_parse", 1)
		return
	}
	idSum := refmodel.SHA256(idw)
	x1 := refmodel.Fill("c07h.x1", 1, 100)
	x2 := refmodel.Fill("c07h.x2", 1, 5000)
	hx := func(b []byte) string { s := refmodel.SHA256(b); return fmt.Sprintf("%x", s[:]) }
	type op struct {
		name string
		run  func() string
		want string
	}
	ops := []op{
		{"data.HashData(100 bytes)", func() string { h := data.HashData(x1); return fmt.Sprintf("%x", h[:]) }, hx(x1)},
		{"data.HashData(5000 bytes)", func() string { h := data.HashData(x2); return fmt.Sprintf("%x", h[:]) }, hx(x2)},
		{"data.HashData(empty)", func() string { h := data.HashData(nil); return fmt.Sprintf("%x", h[:]) }, hx(nil)},
		{"data.HashReader(healthy, 5000 bytes)", func() string {
			h, err := data.HashReader(bytes.NewReader(x2))
			return fmt.Sprintf("%x %v", h[:], err == nil)
		}, hx(x2) + " true"},
		{"data.HashReader(healthy, empty)", func() string {
			h, err := data.HashReader(bytes.NewReader(nil))
			return fmt.Sprintf("%x %v", h[:], err == nil)
		}, hx(nil) + " true"},
		{"data.HashReader(fails after 37 bytes)", func() string {
			_, err := data.HashReader(&failingReader{b: append([]byte(nil), x2...), n: 37})
			return fmt.Sprint(err != nil)
		}, "true"},
		{"data.HashReader(fails at once)", func() string {
			_, err := data.HashReader(&failingReader{n: 0})
			return fmt.Sprint(err != nil)
		}, "true"},
		{"data.HashReader(io.ErrUnexpectedEOF after 4096 bytes)", func() string {
			_, err := data.HashReader(io.MultiReader(bytes.NewReader(x2[:4096]), &failingReader{n: 0}))
			return fmt.Sprint(err != nil)
		}, "true"},
		{"RouterInfo.IdentHash", func() string {
			h, err := ri.IdentHash()
			return fmt.Sprintf("%x %v", h[:], err == nil)
		}, fmt.Sprintf("%x true", idSum[:])},
		{"Destination.Hash", func() string {
			h, err := d.Hash()
			return fmt.Sprintf("%x %v", h[:], err == nil)
		}, fmt.Sprintf("%x true", idSum[:])},
		{"Destination.Base32Address", func() string {
			a, err := d.Base32Address()
			return fmt.Sprintf("%s %v", a, err == nil)
		}, refmodel.B32Encode(idSum[:], false) + ".b32.i2p true"},
	}
	var seqs int64
	var rec func(seq []int) bool
	rec = func(seq []int) bool {
		seqs++
		for step, oi := range seq {
			var got string
			if pan, msg := core.Guard(func() { got = ops[oi].run() }); pan {
				got = "panic: " + msg
			}
			if got != ops[oi].want {
				names := make([]string, len(seq))
				for i, x := range seq {
					names[i] = ops[x].name
				}
				cl := "result-depends-on-earlier-calls"
				if len(seq) == 1 {
					cl = "result-differs-from-sha256"
				}
				r.Violate("C07|hash-history|"+cl+"|"+ops[oi].name, fmt.Sprintf("sequence %v: step %d (%s) returns %.80s, SHA-256 of the bytes gives %.80s", names, step, ops[oi].name, got, ops[oi].want),
					core.Case{Kind: "hash-history", Args: map[string]string{"seq": fmt.Sprint(seq)}})
				return false
			}
		}
		if len(seq) < depth {
			for o := range ops {
				if !rec(append(append([]int(nil), seq...), o)) && len(seq) > 0 {
					return true // one report per failing prefix family is enough; keep exploring other prefixes
				}
			}
		}
		return true
	}
	for o := range ops { // single goroutine on purpose: pooled state is per-P
		rec([]int{o})
	}
	r.Evaluations.Add(seqs)
	r.Note("hash_history_sequences", seqs)
	r.Note("hash_history_depth", int64(depth))
	r.Note("hash_history_alphabet", int64(len(ops)))
}
