package checks

import (
	"bytes"
	"fmt"
	"strings"

	"verif/internal/adapt"
	"verif/internal/core"
	"verif/internal/refmodel"
)

func init() { register("C03", runC03, replayC03) }

// refExtent: the structure's own declared extent according to the strict reference decoder,
// for the structure a parser family reads. ok=false when the reference does not decode x.
func refExtent(family string, x []byte) (int, bool) {
	var n int
	var err error
	switch {
	case family == "KeysAndCert" || family == "Destination" || family == "RouterIdentity":
		_, n, err = refmodel.DecodeKeysAndCert(x)
	case family == "RouterInfo":
		_, n, err = refmodel.DecodeRouterInfo(x)
	case family == "LeaseSet2":
		_, n, err = refmodel.DecodeLeaseSet2(x)
	case family == "MetaLeaseSet":
		_, n, err = refmodel.DecodeMetaLeaseSet(x)
	case family == "EncryptedLeaseSet":
		_, n, err = refmodel.DecodeEncryptedLeaseSet(x)
	case family == "RouterAddress":
		_, n, err = refmodel.DecodeRouterAddress(x)
	case family == "Certificate":
		_, n, err = refmodel.DecodeCert(x)
	case family == "Mapping":
		_, n, err = refmodel.DecodeMapping(x)
	case strings.HasPrefix(family, "OfflineSignature["):
		var t int
		fmt.Sscanf(family, "OfflineSignature[%d]", &t)
		_, n, err = refmodel.DecodeOffline(x, t)
	case strings.HasPrefix(family, "Signature[") && !strings.HasSuffix(family, "Exact"):
		var t int
		fmt.Sscanf(family, "Signature[%d]", &t)
		n = refmodel.SigTable[t].SigLen
		if len(x) < n {
			return 0, false
		}
	case family == "I2PString":
		// a length byte and that many content bytes
		if len(x) < 1 || len(x) < 1+int(x[0]) {
			return 0, false
		}
		n = 1 + int(x[0])
	default:
		fixed := map[string]int{"Lease": 44, "Lease2": 40, "SessionKey": 32, "SessionTag": 32, "ECIESSessionTag": 8, "Hash": 32, "Date": 8, "Integer[1]": 1, "Integer[2]": 2, "Integer[4]": 4, "Integer[8]": 8}
		f, ok := fixed[family]
		if !ok || len(x) < f {
			return 0, false
		}
		n = f
	}
	return n, err == nil
}

type c03Base struct {
	in          *Input
	consumedAll map[string]bool // parser name -> accepted the base and consumed it completely
}

func c03Parse(r *core.Run, worker int, p adapt.Parser, x []byte) (res adapt.Parsed, ok bool) {
	r.Begin(worker, func() string { return p.Name + " " + core.HexFull(x) })
	panicked, _ := core.Guard(func() { res = p.Fn(x) })
	r.End(worker)
	r.Evaluations.Add(1)
	return res, !panicked
}

// c03Check applies the framing oracles to one (parser, input).
func c03Check(r *core.Run, worker int, p adapt.Parser, in *Input, base *c03Base) {
	res, ok := c03Parse(r, worker, p, in.Bytes)
	if !ok {
		return
	}
	id := fmt.Sprintf("C03|%s|%s|%s", p.Name, in.Family, in.Class)
	x := in.Bytes
	if in.Class == "cut" && base != nil && base.consumedAll[p.Name] && (res.HasRem || p.Family == "LeaseSet") {
		r.Traces.Add(1)
		if res.OK {
			r.Violate(id+"|prefix-accepted", fmt.Sprintf("%s accepts a proper prefix (%d of %d bytes) of an encoding it consumes completely (%s; %s)", p.Name, len(x), in.BaseLen, in.Detail, in.Base), in.Case(p.Name))
		}
		r.Distinct([]byte(p.Name), []byte("cut"), []byte(in.Base), []byte{byte(len(x) >> 8), byte(len(x))})
	}
	if !res.OK {
		return
	}
	if !res.HasRem {
		if in.Class == "base" && base != nil {
			base.consumedAll[p.Name] = true
		}
		return
	}
	r.Traces.Add(1)
	// (1) the remainder is a suffix of the input
	if len(res.Rem) > len(x) || !bytes.Equal(res.Rem, x[len(x)-len(res.Rem):]) {
		r.Violate(id+"|remainder-not-suffix", fmt.Sprintf("%s: remainder (%d bytes) is not the input's suffix (%s; %s)", p.Name, len(res.Rem), in.Detail, in.Base), in.Case(p.Name))
		return
	}
	consumed := len(x) - len(res.Rem)
	if in.Class == "base" && base != nil && len(res.Rem) == 0 {
		base.consumedAll[p.Name] = true
	}
	// (2) consumed == the structure's declared extent (reference decoder)
	if e, ok := refExtent(p.Family, x); ok {
		if consumed != e {
			tag := ""
			if p.Family == "RouterInfo" {
				if ri, _, err := refmodel.DecodeRouterInfo(x); err == nil && ri.PeerSize != 0 {
					tag = "[peer_size!=0]"
				}
			}
			vid := id + "|extent"
			if tag != "" {
				vid = "C03|" + p.Name + "|extent" + tag
			}
			r.Violate(vid, fmt.Sprintf("%s consumed %d bytes, the structure's declared extent is %d (%s; %s)", p.Name, consumed, e, in.Detail, in.Base), in.Case(p.Name))
		}
		r.Distinct([]byte(p.Name), x)
	}
}

// c03Append: for an accepted w, parse(w++x) must be accepted, consume the same number of
// bytes and yield the same value. (Nothing is demanded when w itself is rejected.)
func c03Append(r *core.Run, worker int, p adapt.Parser, in *Input) {
	if in.BaseLen <= 0 || in.BaseLen > len(in.Bytes) {
		return
	}
	w := in.Bytes[:in.BaseLen]
	rw, ok := c03Parse(r, worker, p, w)
	if ok && !rw.OK && len(in.Bytes) > len(w) {
		// the converse direction (seed C03-w): w alone is refused, yet w++x is accepted and the parser consumes
		// exactly w - acceptance of the structure then depends on the bytes that follow it
		if res, ok2 := c03Parse(r, worker, p, in.Bytes); ok2 && res.OK && res.HasRem && len(in.Bytes)-len(res.Rem) == len(w) {
			r.Traces.Add(1)
			r.Violate(fmt.Sprintf("C03|%s|%s|trailing-bytes-change-acceptance", p.Name, in.Family), fmt.Sprintf("%s rejects w (%d bytes: %s) but accepts w++x (%d bytes appended) consuming exactly w (%s)", p.Name, len(w), rw.Err, len(in.Bytes)-len(w), in.Base), in.Case(p.Name))
		}
		return
	}
	if !ok || !rw.OK {
		return
	}
	if !rw.HasRem && p.Family != "LeaseSet" {
		return // exact-length constructors take the whole input as the value: not framing parsers
	}
	if !rw.HasRem {
		// an entry point that reports no remainder but tolerates trailing data (the legacy LeaseSet reader): the
		// VALUE must not depend on what follows the structure
		res, ok := c03Parse(r, worker, p, in.Bytes)
		if !ok || rw.Ser == nil {
			return
		}
		r.Traces.Add(1)
		if !res.OK {
			return // refusing trailing data altogether is a (consistent) policy, not a framing error
		}
		var s1, s2 []byte
		core.Guard(func() {
			if res.Ser != nil {
				s1, _ = rw.Ser()
				s2, _ = res.Ser()
			}
		})
		if !bytes.Equal(s1, s2) {
			r.Violate(fmt.Sprintf("C03|%s|%s|%s|append-changes-result", p.Name, in.Family, in.Class), fmt.Sprintf("%s: the value parsed from w (%d bytes) and from w++x (%d bytes appended) serialise differently (%s)", p.Name, len(w), len(in.Bytes)-len(w), in.Base), in.Case(p.Name))
		}
		return
	}
	res, ok := c03Parse(r, worker, p, in.Bytes)
	if !ok {
		return
	}
	r.Traces.Add(1)
	id := fmt.Sprintf("C03|%s|%s|%s", p.Name, in.Family, in.Class)
	if !res.OK {
		r.Violate(id+"|append-changes-acceptance", fmt.Sprintf("%s accepts w (%d bytes) but rejects w++x (%d bytes appended): %s (%s)", p.Name, len(w), len(in.Bytes)-len(w), res.Err, in.Base), in.Case(p.Name))
		return
	}
	cw, cx := len(w)-len(rw.Rem), len(in.Bytes)-len(res.Rem)
	var s1, s2 []byte
	core.Guard(func() {
		if rw.Ser != nil && res.Ser != nil {
			s1, _ = rw.Ser()
			s2, _ = res.Ser()
		}
	})
	if cw != cx || !bytes.Equal(s1, s2) {
		r.Violate(id+"|append-changes-result", fmt.Sprintf("%s: parse(w) consumes %d, parse(w++x) consumes %d; serialisations equal=%v (%s)", p.Name, cw, cx, bytes.Equal(s1, s2), in.Base), in.Case(p.Name))
	} else if len(in.Devs) <= 1 && (in.Class == "append(00)" || in.Class == "append(self)" || !r.Quick() && in.Class != "append(every-length)" && in.Class != "append(byte)") && rw.Val != nil && res.Val != nil {
		// "the parsed value does not change": not only its serialisation - everything it answers. Every exported
		// non-mutating method (argument menus) on the value parsed from w and on the value parsed from w++x;
		// calls whose answer differs between two parses of w itself (time, randomness) are not judged.
		var w2 adapt.Parsed
		core.Guard(func() { w2 = p.Fn(append([]byte(nil), w...)) })
		if w2.OK && w2.Val != nil {
			a, b2, c := indepCalls(rw.Val), indepCalls(w2.Val), indepCalls(res.Val)
			sa, sb := map[string][32]byte{}, map[string][32]byte{}
			for _, x := range a {
				sa[x.key] = snapLeafOuts(x.out)
			}
			for _, x := range b2 {
				sb[x.key] = snapLeafOuts(x.out)
			}
			for _, x := range c {
				want, has := sa[x.key]
				if !has || sb[x.key] != want {
					continue
				}
				// accessors whose documented purpose is to expose the bytes that FOLLOWED the certificate's declared
				// payload ("excess bytes", "raw bytes"): they answer with the appended bytes by design
				if containsAny(x.key, "ExcessBytes", "RawBytes", "KeyCertificate.Data()") {
					continue
				}
				if snapLeafOuts(x.out) != want {
					r.Violate(id+"|append-changes-what-the-value-answers|"+x.key, fmt.Sprintf("%s: %s answers differently on the value parsed from w and on the value parsed from w++x (same bytes consumed, same serialisation) (%s)", p.Name, x.key, in.Base), in.Case(p.Name))
					break
				}
			}
		}
	}
	r.Distinct([]byte(p.Name), []byte("append"), in.Bytes[:min(len(in.Bytes), 700)], []byte{byte(len(in.Bytes) >> 8), byte(len(in.Bytes))})
}

func runC03(r *core.Run) {
	r.Rule = "inputs as in C01 (E1 bases at bound 2/3, operators on bases with <=1/2 deviations) with truncation at EVERY offset and the append menu; plus, for every accepted base, each single byte value 0..255 appended (small structures) ; E3 byte-walk for mapping/certificate/string. Oracles: remainder is the input's suffix; consumed == reference extent; parse(w++x) == parse(w); no proper prefix of a completely consumed encoding is accepted. non-trivial = distinct (parser,input) with an accepted parse compared against the reference extent, plus distinct (parser, base, cut point) prefix checks"
	o := enumOpts{BaseBound: 2, MutateBound: 1, AllCuts: true}
	if !r.Quick() {
		o = enumOpts{BaseBound: 3, MutateBound: 2, AllCuts: true}
	}
	state := make([]*c03Base, core.Workers()+1)
	enumerateInputs(r, o, func(worker int, in *Input) {
		if in.Class == "base" {
			state[worker] = &c03Base{in: in, consumedAll: map[string]bool{}}
		}
		base := state[worker]
		for _, fam := range parserFamiliesFor(in.Family, in.Aux) {
			for _, p := range adapt.ByFamily(fam) {
				c03Check(r, worker, p, in, base)
				if strings.HasPrefix(in.Class, "append") {
					c03Append(r, worker, p, in)
				}
			}
		}
		// every appended LENGTH 1..300 (two fills) for the all-default base of every family, and for every
		// LeaseSet base: a decision taken from the number of bytes that follow shows at one length only
		if in.Class == "base" && (len(in.Devs) == 0 || in.Family == "LeaseSet") {
			lens := make([]int, 0, 310)
			for n := 1; n <= 300; n++ {
				lens = append(lens, n)
			}
			// and what follows a structure inside a larger buffer (a bundle of records, a reseed file): kilobytes
			if len(in.Devs) == 0 {
				lens = append(lens, 1000, 3000, 4096, 5000, 16384, 65536, 70000)
			}
			for _, n := range lens {
				for _, fill := range []byte{0x00, 0xff} {
					m := *in
					m.Bytes = append(append([]byte(nil), in.Bytes...), bytes.Repeat([]byte{fill}, n)...)
					m.Class = "append(every-length)"
					for _, fam := range parserFamiliesFor(in.Family, in.Aux) {
						for _, p := range adapt.ByFamily(fam) {
							c03Append(r, worker, p, &m)
						}
					}
				}
			}
		}
		// every single appended byte value for small structures
		if in.Class == "base" && len(in.Bytes) <= 64 {
			for c := 0; c < 256; c++ {
				m := *in
				m.Bytes = append(append([]byte(nil), in.Bytes...), byte(c))
				m.Class = "append(byte)"
				for _, fam := range parserFamiliesFor(in.Family, in.Aux) {
					for _, p := range adapt.ByFamily(fam) {
						c03Check(r, worker, p, &m, base)
						c03Append(r, worker, p, &m)
					}
				}
			}
		}
	})
	byteWalk(r, -1, func(worker int, fam string, b []byte) {
		in := &Input{Family: fam, Bytes: b, Class: "bytewalk"}
		for _, p := range adapt.ByFamily(fam) {
			c03Check(r, worker, p, in, nil)
		}
	})
	r.Sample(map[string]any{"oracle": "prefix", "parser": "router_address.ReadRouterAddress", "base": "cost|expiration|style|options", "cuts": "every k < len"})
	r.Sample(map[string]any{"oracle": "append", "w": "0000", "x": "ff", "parser": "data.ReadMapping"})
}

func replayC03(r *core.Run, c core.Case) {
	p, ok := adapt.ByName(c.Args["parser"])
	if !ok {
		return
	}
	in := replayInput(c)
	var base *c03Base
	if in.Class == "cut" {
		base = &c03Base{consumedAll: map[string]bool{p.Name: true}}
	}
	fmt.Sscan(c.Args["baselen"], &in.BaseLen)
	c03Check(r, 0, p, in, base)
	if strings.HasPrefix(in.Class, "append") {
		c03Append(r, 0, p, in)
	}
}
