package checks

import (
	"bytes"
	"crypto/ed25519"
	"errors"
	"fmt"
	"strings"

	"verif/internal/adapt"
	"verif/internal/choose"
	"verif/internal/core"
	"verif/internal/gen"
	"verif/internal/refmodel"

	"github.com/go-i2p/common/data"
	"github.com/go-i2p/common/encrypted_leaseset"
	"github.com/go-i2p/common/lease_set"
	"github.com/go-i2p/common/lease_set2"
	"github.com/go-i2p/common/offline_signature"
	"github.com/go-i2p/common/router_info"
)

func init() { register("C06", runC06, replayC06) }

type c06Built struct {
	value    any // the constructed value (pointer), for the accessor history
	entry    string
	verify   func() error                              // library verification of the constructed value
	bytes    func() ([]byte, error)                    // serialisation
	reparse  func(b []byte) (func() error, int, error) // parse -> (verify of reparsed, remainder length)
	authKind refmodel.AuthKind
}

func boolErr(ok bool, err error) error {
	if err != nil {
		return err
	}
	if !ok {
		return errors.New("verification returned false")
	}
	return nil
}

// c06Build constructs the library value for a generated model value through the signing constructors.
func c06Build(fam string, s gen.Signed, aux int, form adapt.ELSKeyForm) (*c06Built, error) {
	switch fam {
	case "RouterInfo":
		v, err := adapt.RouterInfo(s.Value.(refmodel.RouterInfo), s.IDKey)
		if err != nil {
			return nil, err
		}
		return &c06Built{v, "router_info.NewRouterInfo", func() error { return boolErr(v.VerifySignature()) }, v.Bytes,
			func(b []byte) (func() error, int, error) {
				p, rem, err := router_info.ReadRouterInfo(b)
				return func() error { return boolErr(p.VerifySignature()) }, len(rem), err
			}, refmodel.AuthRouterInfo}, nil
	case "LeaseSet":
		v, err := adapt.LeaseSet(s.Value.(refmodel.LeaseSet), s.IDKey)
		if err != nil {
			return nil, err
		}
		return &c06Built{v, "lease_set.NewLeaseSet", v.Verify, v.Bytes,
			func(b []byte) (func() error, int, error) {
				p, err := lease_set.ReadLeaseSet(b)
				return p.Verify, 0, err
			}, refmodel.AuthLeaseSet}, nil
	case "LeaseSet2":
		v, err := adapt.LeaseSet2(s.Value.(refmodel.LeaseSet2), s.Signer)
		var am adapt.ErrArgumentMutated
		if err != nil && !(errors.As(err, &am) && v != nil) { // (argument mutation is C02's clause; the value is still judged here)
			return nil, err
		}
		return &c06Built{v, "lease_set2.NewLeaseSet2", v.Verify, v.Bytes,
			func(b []byte) (func() error, int, error) {
				p, rem, err := lease_set2.ReadLeaseSet2(b)
				return (&p).Verify, len(rem), err
			}, refmodel.AuthLeaseSet2}, nil
	case "EncryptedLeaseSet":
		v, err := adapt.EncryptedLeaseSet(s.Value.(refmodel.EncryptedLeaseSet), s.Signer, form)
		if err != nil {
			return nil, err
		}
		return &c06Built{v, fmt.Sprintf("encrypted_leaseset.NewEncryptedLeaseSet[keyform=%d]", form), v.Verify, v.Bytes,
			func(b []byte) (func() error, int, error) {
				p, rem, err := encrypted_leaseset.ReadEncryptedLeaseSet(b)
				return (&p).Verify, len(rem), err
			}, refmodel.AuthELS}, nil
	}
	return nil, adapt.ErrNotConstructible{Why: "no signing constructor"}
}

func c06One(r *core.Run, fam string, s gen.Signed, aux int, desc string, vector []int, form adapt.ELSKeyForm) {
	cs := core.Case{Kind: "ctor", Args: map[string]string{"family": fam, "vector": fmt.Sprint(vector), "choices": desc, "form": fmt.Sprint(int(form))}}
	r.Evaluations.Add(1)
	var b *c06Built
	var err error
	pan, msg := core.Guard(func() { b, err = c06Build(fam, s, aux, form) })
	if pan {
		r.Violate("C06|panic|"+fam, "signing constructor panics: "+msg+" ("+desc+")", cs)
		return
	}
	if err != nil {
		var nc adapt.ErrNotConstructible
		if !errors.As(err, &nc) {
			r.AddNote("constructor_refused_"+fam, 1)
		}
		return
	}
	r.Traces.Add(1)
	sigClass := fmt.Sprintf("id=%d|signer=%d", s.IDKey.Type, s.Signer.Type)
	id := "C06|" + b.entry + "|" + sigClass
	isEC := func(t int) bool { return t == refmodel.SigP256 || t == refmodel.SigP384 }
	ecdsaID := isEC(s.IDKey.Type) || isEC(s.Signer.Type)
	entryBase := b.entry
	if i := strings.IndexByte(entryBase, '['); i > 0 {
		entryBase = entryBase[:i]
	}
	var refOK bool
	fail := func(clause, detail string) {
		// the go-i2p/crypto ECDSA verifier cannot be constructed from a 64/96-byte key: when the
		// bytes are right (independent verifier accepts) and only the library's own verification
		// under an ECDSA identity or transient key fails, that is one root cause, identified as such
		if ecdsaID && refOK && (clause == "constructed-value-does-not-verify" || clause == "does-not-verify-after-the-wire") {
			r.Violate("C06|"+entryBase+"|library-cannot-verify-under-an-ecdsa-key", fmt.Sprintf("%s: %s (%s)", b.entry, detail, desc), cs)
			return
		}
		if strings.HasPrefix(clause, "own-bytes-do-not-parse[") {
			r.Violate("C06|"+entryBase+"|"+clause, fmt.Sprintf("%s: %s (%s)", b.entry, detail, desc), cs)
			return
		}
		r.Violate(id+"|"+clause, fmt.Sprintf("%s: %s (%s)", b.entry, detail, desc), cs)
	}
	if out0, err := b.bytes(); err == nil {
		refOK, _ = refmodel.VerifyRaw(b.authKind, out0)
	}
	var verr error
	if pan, msg := core.Guard(func() { verr = b.verify() }); pan {
		fail("verify-panics", msg)
		return
	}
	if verr != nil {
		fail("constructed-value-does-not-verify", "the value returned by the signing constructor fails its own verification: "+errClass(verr.Error()))
	}
	out, err := b.bytes()
	if err != nil {
		fail("serialise-fails", err.Error())
		return
	}
	var rv func() error
	var remLen int
	var perr error
	if pan, msg := core.Guard(func() { rv, remLen, perr = b.reparse(out) }); pan {
		fail("reparse-panics", msg)
		return
	}
	if perr != nil {
		fail("own-bytes-do-not-parse["+rejectClass(fam, out, perr.Error())+"]", "the constructor's Bytes() are rejected by the parser: "+errClass(perr.Error()))
		return
	}
	if remLen != 0 {
		fail("own-bytes-leave-remainder", fmt.Sprintf("%d bytes left", remLen))
	}
	if pan, msg := core.Guard(func() { verr = rv() }); pan {
		fail("verify-panics", msg)
		return
	}
	if verr != nil {
		fail("does-not-verify-after-the-wire", "serialise + parse + verify fails: "+errClass(verr.Error()))
	} else if fam == "LeaseSet" || fam == "EncryptedLeaseSet" {
		// history: the receive buffer is reused for the next frame; a value of a structure that owns its bytes
		// (property C08's list: LeaseSet, EncryptedLeaseSet) keeps verifying
		keep := append([]byte(nil), out...)
		for i := range out {
			out[i] = 0x5a
		}
		var v3 error
		if pan, msg := core.Guard(func() { v3 = rv() }); pan {
			fail("verify-panics", msg)
		} else if v3 != nil {
			fail("does-not-verify-after-the-receive-buffer-was-reused", "parsed back, verified, then the buffer it was parsed from was overwritten: "+errClass(v3.Error()))
		}
		out = keep
	}
	if ok, why := refmodel.VerifyRaw(b.authKind, out); !ok {
		fail("independent-verification-fails", "the independent verifier rejects the constructor's bytes: "+why)
	}
	// history: every exported query on the signed value (all non-mutating methods x the argument menu) and
	// then the same questions again - what was signed must still be what is serialised and verified
	if b.value != nil && verr == nil {
		core.Guard(func() { adapt.CallMethods(b.value, true, mutatorNames, func(adapt.CallOutcome) {}) })
		var out2 []byte
		var e2, v2 error
		if pan, msg := core.Guard(func() { out2, e2 = b.bytes(); v2 = b.verify() }); pan {
			fail("panics-after-read-only-calls", msg)
		} else if e2 != nil || !bytes.Equal(out2, out) {
			fail("serialisation-changes-after-read-only-calls", fmt.Sprintf("after calling the value's exported read-only methods Bytes() differs from what it was (err %v, first difference at %d)", e2, firstDiff(out2, out)))
		} else if v2 != nil && !(ecdsaID && refOK) {
			fail("does-not-verify-after-read-only-calls", "after calling the value's exported read-only methods the signed value no longer verifies: "+errClass(v2.Error()))
		}
	}
	r.Distinct([]byte(b.entry), out[:min(len(out), 900)], []byte(desc))
}

func c06Offline(r *core.Run) {
	for _, destType := range []int{7, 11, 8} {
		dk := gen.Key(7, 300+uint64(destType)) // all three are Ed25519 keys on the wire
		for _, tt := range []int{7, 1, 0, 11, 8, 2, 3, 4} {
			var tpub []byte
			if refmodel.Verifiable(tt) {
				tpub = gen.Key(tt, 310).Pub
			} else {
				tpub = refmodel.Fill("tp", uint64(tt), refmodel.SigTable[tt].PubLen)
			}
			for _, exp := range []uint32{gen.OfflineExp, 1, 1<<32 - 1} {
				r.Evaluations.Add(1)
				cs := core.Case{Kind: "offline", Args: map[string]string{"dest": fmt.Sprint(destType), "transient": fmt.Sprint(tt), "expires": fmt.Sprint(exp)}}
				o, err := offline_signature.CreateOfflineSignature(exp, uint16(tt), tpub, ed25519.PrivateKey(dk.Priv), uint16(destType))
				if err != nil {
					r.AddNote("constructor_refused_CreateOfflineSignature", 1)
					continue
				}
				r.Traces.Add(1)
				id := fmt.Sprintf("C06|offline_signature.CreateOfflineSignature|desttype=%d", destType)
				if ok, err := o.VerifySignature(dk.Pub); err != nil || !ok {
					r.Violate(id+"|constructed-value-does-not-verify", fmt.Sprintf("CreateOfflineSignature(dest %d, transient %d) does not verify under the destination key: ok=%v err=%v", destType, tt, ok, err), cs)
				}
				b := o.Bytes()
				p, rem, err := offline_signature.ReadOfflineSignature(b, uint16(destType))
				if err != nil || len(rem) != 0 {
					r.Violate(id+"|own-bytes-do-not-parse", fmt.Sprintf("dest %d transient %d: %v, remainder %d", destType, tt, err, len(rem)), cs)
					continue
				}
				if ok, err := p.VerifySignature(dk.Pub); err != nil || !ok {
					r.Violate(id+"|does-not-verify-after-the-wire", fmt.Sprintf("dest %d transient %d: ok=%v err=%v", destType, tt, ok, err), cs)
				}
				ro, n, derr := refmodel.DecodeOffline(b, destType)
				if derr != nil || n != len(b) || !refmodel.Verify(destType, dk.Pub, ro.SignedData(), ro.Sig) {
					r.Violate(id+"|independent-verification-fails", fmt.Sprintf("dest %d transient %d: independent verifier rejects the block", destType, tt), cs)
				}
				r.Distinct([]byte("offline"), b)
			}
		}
	}
}

// c06Options: every insertion order of small option sets through NewRouterInfo (mappingOrder decides the signed bytes).
func c06Options(r *core.Run) {
	kp := gen.Key(7, 11)
	id := refmodel.NewKAC(7, 4, false, nil, refmodel.Fill("oc", 1, 32), refmodel.Fill("op", 1, 320), kp.Pub)
	sets := [][]refmodel.Pair{
		{{K: []byte("a"), V: []byte("")}, {K: []byte("b"), V: []byte("x")}, {K: []byte(""), V: []byte("y")}},
		{{K: []byte("caps"), V: []byte("f")}, {K: []byte("router.version"), V: []byte("0.9.67")}, {K: []byte("netId"), V: []byte("2")}, {K: []byte("z"), V: []byte("")}},
	}
	for _, set := range sets {
		keys := make([]string, len(set))
		for i := range set {
			keys[i] = string(set[i].K)
		}
		permutations(keys, func(order []string) {
			var m refmodel.Mapping
			for _, k := range order {
				for _, p := range set {
					if string(p.K) == k {
						m = append(m, p)
					}
				}
			}
			ri := refmodel.RouterInfo{Ident: id, Published: gen.PublishedMs, Addrs: []refmodel.RouterAddress{{Cost: 5, Style: []byte("NTCP2"), Options: m}}, Options: m}
			c06One(r, "RouterInfo", gen.Signed{Kind: "RouterInfo", Value: ri, Signer: kp, IDKey: kp}, 0, "options order "+strings.Join(order, ","), nil, 0)
		})
	}
	_ = data.Mapping{}
	// options at the 16-bit size boundary: every mapping body length 65,500 ... 65,790 (128 pairs, strings <= 255
	// bytes). Whatever NewRouterInfo agrees to sign must come back from the wire and verify; beyond 65,535 it has to
	// refuse (a size field that wrapped produces a RouterInfo that signs, verifies in memory and cannot be parsed)
	var bodies []int
	for b := 65500; b <= 65790; b++ {
		if r.Quick() && !(b >= 65528 && b <= 65542) && b%40 != 0 && b != 65790 {
			continue // quick: every length around the boundary and a coarse grid beyond it
		}
		bodies = append(bodies, b)
	}
	core.ParallelFor(len(bodies), func(_, i int) {
		var m refmodel.Mapping
		for k, v := range c14BigMap(bodies[i]) {
			m = append(m, refmodel.Pair{K: []byte(k), V: []byte(v)})
		}
		ri := refmodel.RouterInfo{Ident: id, Published: gen.PublishedMs, Addrs: []refmodel.RouterAddress{{Cost: 5, Style: []byte("NTCP2"), Options: gen.MappingMenu[1]}}, Options: m.Sorted()}
		c06One(r, "RouterInfo", gen.Signed{Kind: "RouterInfo", Value: ri, Signer: kp, IDKey: kp}, 0, fmt.Sprintf("options body of %d bytes", bodies[i]), nil, 0)
	})
}

func runC06(r *core.Run) {
	r.Rule = "E1 over the generators' model values within 2 (thorough 3) variations, each pushed through the library's signing constructors (NewRouterInfo, NewLeaseSet, NewLeaseSet2, NewEncryptedLeaseSet in all four private-key representations, CreateOfflineSignature for destination types 7/11/8 x 8 transient types x 3 expiries), plus every insertion order of two option sets. Oracle: constructor success => Verify() succeeds; Bytes() parse back with empty remainder; Verify() of the re-parsed value succeeds; the independent verifier (VerifyRaw) accepts the bytes. non-trivial = distinct constructed structures that went through all four oracle steps"
	r.Assume("constructors refusing a model value (their own policy) are counted in constructor_refused_* and are C14's concern", "private keys always match the contained identity (generated together)")
	bound := 2
	if !r.Quick() {
		bound = 3
	}
	for _, fg := range structFamilies {
		fam := fg.Family
		if fam != "RouterInfo" && fam != "LeaseSet" && fam != "LeaseSet2" && fam != "EncryptedLeaseSet" {
			continue
		}
		fg := fg
		st, capped := choose.Explore(bound, core.Workers(), r.Expired, func(c *choose.Ctx) {
			s, aux := fg.Gen(c)
			forms := []adapt.ELSKeyForm{adapt.ELSStdPriv}
			if fam == "EncryptedLeaseSet" {
				forms = []adapt.ELSKeyForm{adapt.ELSStdPriv, adapt.ELSArray, adapt.ELSLibPtr, adapt.ELSBytes}
			}
			for _, f := range forms {
				c06One(r, fam, s, aux, c.Describe(), c.Vector(), f)
			}
		})
		r.States.Add(st.Points)
		r.Transitions.Add(st.Transitions)
		if capped {
			r.Capped.Store(true)
		}
	}
	c06Offline(r)
	c06Options(r)
	c06History(r)
	r.Sample(map[string]any{"constructor": "NewLeaseSet2", "variation": "offline transient P-256 + options a=''", "steps": "Verify, Bytes, ReadLeaseSet2, Verify, VerifyRaw"})
	r.Sample(map[string]any{"constructor": "NewRouterInfo", "variation": "255 addresses"})
}

func replayC06(r *core.Run, c core.Case) {
	switch c.Kind {
	case "ctor":
		fam := c.Args["family"]
		var vec []int
		for _, f := range strings.Fields(strings.Trim(c.Args["vector"], "[]")) {
			var n int
			fmt.Sscan(f, &n)
			vec = append(vec, n)
		}
		var form int
		fmt.Sscan(c.Args["form"], &form)
		if len(vec) == 0 {
			c06Options(r)
			return
		}
		for _, fg := range structFamilies {
			if fg.Family == fam {
				choose.Run(vec, func(cx *choose.Ctx) {
					s, aux := fg.Gen(cx)
					c06One(r, fam, s, aux, cx.Describe(), cx.Vector(), adapt.ELSKeyForm(form))
				})
			}
		}
	case "offline":
		c06Offline(r)
	case "history":
		c06History(r)
	}
}
