package checks

import (
	"fmt"
	"reflect"
	"sync"
	"time"

	"verif/internal/core"

	"github.com/go-i2p/common/data"
)

// Step 0 of C18: first-operation histories on FRESH values. Steps 1 and 2 judge the steady state (every
// operation has been called once before anything is observed, so that initialisation behind sync.Once is not
// mistaken for a mutation). A read-only operation whose write is idempotent - it normalises a field of the
// receiver on first use, sorts shared storage, fills in a default - reaches its fixed point during that
// unjudged call and is invisible afterwards. What such a write changes is what the value ANSWERS, so here, for
// every value and every operation i of its operation set, a freshly built copy of the value runs operation i
// first and then the whole operation set; every answer must equal the answer the same operation gives when IT
// is the first call on a fresh copy ("every call returns the same result it would return alone"). Exhaustive
// over (value, first operation); values whose construction is not reproducible (random padding, ephemeral
// keys: two fresh copies answer differently) are skipped and counted.
func c18FirstOpHistories(r *core.Run) {
	start := time.Now()
	base := c18Values()
	nv := len(base)
	maxOps := 0
	opsN := make([]int, nv)
	names := make([][]string, nv)
	for vi, v := range base {
		ops := c18Ops(v)
		opsN[vi] = len(ops)
		for _, o := range ops {
			names[vi] = append(names[vi], o.name)
		}
		if len(ops) > maxOps {
			maxOps = len(ops)
		}
	}
	// seq[i][vi][j]: answer of operation j on copy i of value vi, on which operation i ran first (j >= 0 in order)
	seq := make([][][]string, maxOps+1)
	core.ParallelFor(maxOps+1, func(_, i int) {
		vals := c18Values()
		if len(vals) != nv {
			return
		}
		seq[i] = make([][]string, nv)
		for vi, v := range vals {
			ops := c18Ops(v)
			if len(ops) != opsN[vi] {
				continue
			}
			out := make([]string, len(ops)+1)
			run := func(k int) string {
				var s string
				if pan, msg := core.Guard(func() { s = ops[k].run() }); pan {
					return "panic: " + msg
				}
				return s
			}
			first := i
			if i >= len(ops) { // copy number maxOps (and copies beyond a value's own set) are the reproducibility twins: operation 0 first
				first = 0
			}
			out[len(ops)] = run(first)
			for j := range ops {
				out[j] = run(j)
				r.Transitions.Add(1)
			}
			seq[i][vi] = out
		}
	})
	skipped := 0
	for vi := 0; vi < nv; vi++ {
		n := opsN[vi]
		if n == 0 || seq[0] == nil || seq[0][vi] == nil || seq[maxOps] == nil || seq[maxOps][vi] == nil {
			continue
		}
		// reproducible construction? copies 0 and maxOps both ran operation 0 first, then the whole set
		same := true
		for j := 0; j <= n; j++ {
			if seq[0][vi][j] != seq[maxOps][vi][j] {
				same = false
			}
		}
		if !same {
			skipped++
			continue
		}
		firstAns := make([]string, n)
		ok := true
		for i := 0; i < n; i++ {
			if seq[i] == nil || seq[i][vi] == nil {
				ok = false
				break
			}
			firstAns[i] = seq[i][vi][n]
		}
		if !ok {
			continue
		}
		reported := map[string]bool{}
		for i := 0; i < n; i++ {
			for j := 0; j < n; j++ {
				r.Evaluations.Add(1)
				r.States.Add(1)
				if seq[i][vi][j] != firstAns[j] {
					// attribute to the earliest operation that ran before j on this copy
					id := "C18|answer-depends-on-earlier-read-only-calls|" + c18TypeName(base[vi].name) + "." + names[vi][j]
					if reported[id] {
						continue
					}
					reported[id] = true
					r.Violate(id, fmt.Sprintf("value %s: %s answers %.120q when it is the first call on a freshly built value, but %.120q on an identically built value on which %s (and the operations listed before %s) had been called first: a read-only operation changes what the shared value answers", base[vi].name, names[vi][j], firstAns[j], seq[i][vi][j], names[vi][i], names[vi][j]),
						core.Case{Kind: "firstop", Args: map[string]string{"value": base[vi].name, "first": names[vi][i], "op": names[vi][j]}})
				}
			}
		}
		r.Distinct([]byte("firstop"), []byte(base[vi].name))
	}
	r.Note("firstop_values", int64(nv))
	r.Note("firstop_values_skipped_not_reproducible", int64(skipped))
	r.Note("firstop_seconds", time.Since(start).Seconds())
}

func c18TypeName(n string) string {
	for i := 0; i < len(n); i++ {
		if n[i] == '(' {
			return n[:i]
		}
	}
	return n
}

// Step 0b: edit histories. The structures export their fields, and the library's own wrappers derive values from values by
// copying structs; a read-only operation that memoises what it computed (a serialisation, a hash, a parsed option) answers
// from the memo after a field has been replaced. Differential oracle without a hand-written expectation: two identically
// built copies A and B of a value, one exported byte-valued field replaced by a clone with one byte changed - on A before
// any call, on B after the whole operation set has run once. Every operation must then answer the same on A and on B
// ("the same result it would return alone"). Exhaustive over (value, editable field reachable through at most one
// embedded pointer, operation).
type c18Edit struct {
	path string
	at   func(root reflect.Value) reflect.Value // the field on a given copy
}

func c18EditableFields(root reflect.Value, prefix string, depth int) []c18Edit {
	var out []c18Edit
	if root.Kind() == reflect.Ptr {
		if root.IsNil() {
			return nil
		}
		root = root.Elem()
	}
	if root.Kind() != reflect.Struct {
		return nil
	}
	t := root.Type()
	for i := 0; i < t.NumField(); i++ {
		f := t.Field(i)
		if f.PkgPath != "" { // unexported
			continue
		}
		idx := i
		fv := root.Field(i)
		name := prefix + f.Name
		get := func(r reflect.Value) reflect.Value {
			if r.Kind() == reflect.Ptr {
				r = r.Elem()
			}
			return r.Field(idx)
		}
		switch {
		case fv.Kind() == reflect.Slice && fv.Type().Elem().Kind() == reflect.Uint8 && fv.Len() > 0:
			out = append(out, c18Edit{name, get})
		case fv.Kind() == reflect.Ptr && !fv.IsNil() && fv.Type().Elem().Kind() == reflect.Array && fv.Type().Elem().Elem().Kind() == reflect.Uint8:
			out = append(out, c18Edit{name, get})
		case fv.Type() == reflect.TypeOf((*data.Mapping)(nil)) && !fv.IsNil():
			out = append(out, c18Edit{name, get})
		case depth > 0 && fv.Kind() == reflect.Ptr && !fv.IsNil() && fv.Type().Elem().Kind() == reflect.Struct && f.Anonymous:
			for _, e := range c18EditableFields(fv, name+".", depth-1) {
				e := e
				out = append(out, c18Edit{e.path, func(r reflect.Value) reflect.Value { return e.at(get(r)) }})
			}
		}
	}
	return out
}

func c18ApplyEdit(f reflect.Value) bool {
	if !f.CanSet() {
		return false
	}
	if f.Type() == reflect.TypeOf((*data.Mapping)(nil)) {
		// another mapping altogether: other host family, other keys
		m, err := data.GoMapToMapping(map[string]string{"host": "2001:db8::7", "port": "7", "caps": "6", "zz": "edited"})
		if err != nil || m == nil {
			return false
		}
		f.Set(reflect.ValueOf(m))
		return true
	}
	switch f.Kind() {
	case reflect.Slice:
		n := f.Len()
		c := reflect.MakeSlice(f.Type(), n, n)
		reflect.Copy(c, f)
		i := n - 1 // the last byte: never a length prefix
		c.Index(i).SetUint(c.Index(i).Uint() ^ 0x04)
		f.Set(c)
		return true
	case reflect.Ptr:
		c := reflect.New(f.Type().Elem())
		c.Elem().Set(f.Elem())
		i := c.Elem().Len() - 1
		c.Elem().Index(i).SetUint(c.Elem().Index(i).Uint() ^ 0x04)
		f.Set(c)
		return true
	}
	return false
}

func c18EditHistories(r *core.Run) {
	base := c18Values()
	type target struct {
		vi   int
		edit c18Edit
	}
	var targets []target
	for vi, v := range base {
		for _, e := range c18EditableFields(reflect.ValueOf(v.v), "", 1) {
			targets = append(targets, target{vi, e})
		}
	}
	answers := func(v c18Value) []string {
		ops := c18Ops(v)
		out := make([]string, len(ops))
		for k := range ops {
			var s string
			if pan, msg := core.Guard(func() { s = ops[k].run() }); pan {
				s = "panic: " + msg
			}
			out[k] = s
		}
		return out
	}
	// reproducibility of each value's construction
	a0, a1 := c18Values(), c18Values()
	repro := make([]bool, len(base))
	for vi := range base {
		if vi < len(a0) && vi < len(a1) {
			x, y := answers(a0[vi]), answers(a1[vi])
			repro[vi] = fmt.Sprint(x) == fmt.Sprint(y)
		}
	}
	reported := map[string]bool{}
	var mu sync.Mutex
	core.ParallelFor(len(targets), func(_, ti int) {
		tg := targets[ti]
		if !repro[tg.vi] {
			return
		}
		va, vb := c18Values(), c18Values()
		if tg.vi >= len(va) || tg.vi >= len(vb) {
			return
		}
		A, B := va[tg.vi], vb[tg.vi]
		var okA, okB bool
		var ansA, ansB []string
		if pan, _ := core.Guard(func() {
			okA = c18ApplyEdit(tg.edit.at(reflect.ValueOf(A.v)))
			ansA = answers(A)
			answers(B) // B is used first ...
			okB = c18ApplyEdit(tg.edit.at(reflect.ValueOf(B.v)))
			ansB = answers(B) // ... and edited afterwards
		}); pan || !okA || !okB || len(ansA) != len(ansB) {
			return
		}
		names := c18Ops(A)
		for k := range ansA {
			r.Evaluations.Add(1)
			r.States.Add(1)
			if ansA[k] != ansB[k] {
				id := "C18|answer-ignores-a-field-edited-after-earlier-calls|" + c18TypeName(base[tg.vi].name) + "." + names[k].name
				mu.Lock()
				dup := reported[id]
				reported[id] = true
				mu.Unlock()
				if !dup {
					r.Violate(id, fmt.Sprintf("value %s, exported field %s replaced by a copy with one byte changed: %s answers %.100q when the edit is made before any call, but %.100q when the operation set had run once before the edit - the value answers from something it remembered", base[tg.vi].name, tg.edit.path, names[k].name, ansA[k], ansB[k]),
						core.Case{Kind: "firstop", Args: map[string]string{"value": base[tg.vi].name, "field": tg.edit.path, "op": names[k].name}})
				}
			}
		}
		r.Distinct([]byte("edit"), []byte(base[tg.vi].name), []byte(tg.edit.path))
	})
	r.Note("edit_history_targets", int64(len(targets)))
}
