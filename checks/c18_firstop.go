package checks

import (
	"fmt"
	"time"

	"verif/internal/core"
)

// Step 0 of C18: first-operation histories on FRESH values. Steps 1 and 2 judge the steady state (every
// operation has been called once before anything is observed, so that initialisation behind sync.Once is not
// mistaken for a mutation). A read-only operation whose write is idempotent - it normalises a field of the
// receiver on first use, sorts shared storage, fills in a default - reaches its fixed point during that
// unjudged call and is invisible afterwards. What such a write changes is what the value ANSWERS, so here, for
// every value and every operation i of its operation set, a freshly built copy of the value runs operation i
// first and then the whole operation set; every answer must equal the answer the same operation gives when IT
// is the first call on a fresh copy ("every call returns the same result it would return alone"). Exhaustive
// over (value, first operation); values whose construction is not reproducible (random padding, ephemeral
// keys: two fresh copies answer differently) are skipped and counted.
func c18FirstOpHistories(r *core.Run) {
	start := time.Now()
	base := c18Values()
	nv := len(base)
	maxOps := 0
	opsN := make([]int, nv)
	names := make([][]string, nv)
	for vi, v := range base {
		ops := c18Ops(v)
		opsN[vi] = len(ops)
		for _, o := range ops {
			names[vi] = append(names[vi], o.name)
		}
		if len(ops) > maxOps {
			maxOps = len(ops)
		}
	}
	// seq[i][vi][j]: answer of operation j on copy i of value vi, on which operation i ran first (j >= 0 in order)
	seq := make([][][]string, maxOps+1)
	core.ParallelFor(maxOps+1, func(_, i int) {
		vals := c18Values()
		if len(vals) != nv {
			return
		}
		seq[i] = make([][]string, nv)
		for vi, v := range vals {
			ops := c18Ops(v)
			if len(ops) != opsN[vi] {
				continue
			}
			out := make([]string, len(ops)+1)
			run := func(k int) string {
				var s string
				if pan, msg := core.Guard(func() { s = ops[k].run() }); pan {
					return "panic: " + msg
				}
				return s
			}
			first := i
			if i >= len(ops) { // copy number maxOps (and copies beyond a value's own set) are the reproducibility twins: operation 0 first
				first = 0
			}
			out[len(ops)] = run(first)
			for j := range ops {
				out[j] = run(j)
				r.Transitions.Add(1)
			}
			seq[i][vi] = out
		}
	})
	skipped := 0
	for vi := 0; vi < nv; vi++ {
		n := opsN[vi]
		if n == 0 || seq[0] == nil || seq[0][vi] == nil || seq[maxOps] == nil || seq[maxOps][vi] == nil {
			continue
		}
		// reproducible construction? copies 0 and maxOps both ran operation 0 first, then the whole set
		same := true
		for j := 0; j <= n; j++ {
			if seq[0][vi][j] != seq[maxOps][vi][j] {
				same = false
			}
		}
		if !same {
			skipped++
			continue
		}
		firstAns := make([]string, n)
		ok := true
		for i := 0; i < n; i++ {
			if seq[i] == nil || seq[i][vi] == nil {
				ok = false
				break
			}
			firstAns[i] = seq[i][vi][n]
		}
		if !ok {
			continue
		}
		reported := map[string]bool{}
		for i := 0; i < n; i++ {
			for j := 0; j < n; j++ {
				r.Evaluations.Add(1)
				r.States.Add(1)
				if seq[i][vi][j] != firstAns[j] {
					// attribute to the earliest operation that ran before j on this copy
					id := "C18|answer-depends-on-earlier-read-only-calls|" + c18TypeName(base[vi].name) + "." + names[vi][j]
					if reported[id] {
						continue
					}
					reported[id] = true
					r.Violate(id, fmt.Sprintf("value %s: %s answers %.120q when it is the first call on a freshly built value, but %.120q on an identically built value on which %s (and the operations listed before %s) had been called first: a read-only operation changes what the shared value answers", base[vi].name, names[vi][j], firstAns[j], seq[i][vi][j], names[vi][i], names[vi][j]),
						core.Case{Kind: "firstop", Args: map[string]string{"value": base[vi].name, "first": names[vi][i], "op": names[vi][j]}})
				}
			}
		}
		r.Distinct([]byte("firstop"), []byte(base[vi].name))
	}
	r.Note("firstop_values", int64(nv))
	r.Note("firstop_values_skipped_not_reproducible", int64(skipped))
	r.Note("firstop_seconds", time.Since(start).Seconds())
}

func c18TypeName(n string) string {
	for i := 0; i < len(n); i++ {
		if n[i] == '(' {
			return n[:i]
		}
	}
	return n
}
