package checks

import (
	"bytes"
	"fmt"
	"reflect"
	"strings"
	"sync"
	"verif/internal/registry"

	"verif/internal/adapt"
	"verif/internal/choose"
	"verif/internal/core"
	"verif/internal/gen"
	"verif/internal/refmodel"

	"github.com/go-i2p/common/destination"
	"github.com/go-i2p/common/keys_and_cert"
	"github.com/go-i2p/common/router_identity"
	"github.com/go-i2p/common/router_info"
)

func init() { register("C07", runC07, replayC07) }

type c07ID struct {
	consumed []byte // the bytes the path consumed (nil: constructed, or exactly the identity's wire bytes)
	path     string
	dest     *destination.Destination // one of the two is set
	ri       *router_identity.RouterIdentity
	buf      []byte // the private buffer the value was parsed from (nil for constructed values)
}

// c07Paths obtains the identity encoded by w through every API path that accepts it.
func c07Paths(w []byte, k refmodel.KeysAndCert, withCtor bool) []c07ID {
	var out []c07ID
	// every parsing path gets a private copy of the bytes: alone, and embedded in a longer buffer
	// (two different continuations), as identities arrive inside RouterInfos, LeaseSets and messages
	tails := map[string][]byte{"": nil, " (embedded, tail ee..)": bytes.Repeat([]byte{0xee}, 7), " (embedded, tail = a second copy)": w}
	for _, tn := range []string{"", " (embedded, tail ee..)", " (embedded, tail = a second copy)"} {
		tail := tails[tn]
		mk := func() []byte { return append(append([]byte(nil), w...), tail...) }
		b := mk()
		if d, rem, err := destination.ReadDestination(b); err == nil && len(rem) <= len(b) {
			d := d
			out = append(out, c07ID{path: "destination.ReadDestination" + tn, dest: &d, buf: b, consumed: append([]byte(nil), b[:len(b)-len(rem)]...)})
		}
		b = mk()
		if d, rem, err := destination.NewDestinationFromBytes(b); err == nil && len(rem) <= len(b) {
			out = append(out, c07ID{path: "destination.NewDestinationFromBytes" + tn, dest: d, buf: b, consumed: append([]byte(nil), b[:len(b)-len(rem)]...)})
		}
		b = mk()
		if ri, rem, err := router_identity.ReadRouterIdentity(b); err == nil && len(rem) <= len(b) {
			out = append(out, c07ID{path: "router_identity.ReadRouterIdentity" + tn, ri: ri, buf: b, consumed: append([]byte(nil), b[:len(b)-len(rem)]...)})
			if tn == "" {
				d := ri.AsDestination()
				out = append(out, c07ID{path: "RouterIdentity.AsDestination", dest: &d})
			}
		}
		b = mk()
		if ri, rem, err := router_identity.NewRouterIdentityFromBytes(b); err == nil && len(rem) <= len(b) {
			out = append(out, c07ID{path: "router_identity.NewRouterIdentityFromBytes" + tn, ri: ri, buf: b, consumed: append([]byte(nil), b[:len(b)-len(rem)]...)})
		}
	}
	// wrapping constructors fed from every KeysAndCert reader (generic and the two type-specific twins)
	type kacReader struct {
		name string
		fn   func([]byte) (*keys_and_cert.KeysAndCert, []byte, error)
	}
	for _, kr := range []kacReader{
		{"ReadKeysAndCert", keys_and_cert.ReadKeysAndCert},
		{"ReadKeysAndCertElgAndEd25519", keys_and_cert.ReadKeysAndCertElgAndEd25519},
		{"ReadKeysAndCertX25519AndEd25519", keys_and_cert.ReadKeysAndCertX25519AndEd25519},
	} {
		b := append([]byte(nil), w...)
		kac, rem, err := kr.fn(b)
		if err != nil || kac == nil || len(rem) != 0 {
			continue
		}
		if d, err := destination.NewDestination(kac); err == nil {
			out = append(out, c07ID{path: "destination.NewDestination(" + kr.name + ")", dest: d, buf: b})
		}
		b2 := append([]byte(nil), w...)
		if kac2, rem2, err := kr.fn(b2); err == nil && len(rem2) == 0 {
			if ri, err := router_identity.NewRouterIdentityFromKeysAndCert(kac2); err == nil {
				out = append(out, c07ID{path: "router_identity.NewRouterIdentityFromKeysAndCert(" + kr.name + ")", ri: ri, buf: b2})
			}
		}
	}
	if withCtor {
		if d, err := adapt.Destination(k); err == nil {
			out = append(out, c07ID{path: "destination.NewDestination", dest: d})
		}
		if ri, err := adapt.RouterIdentity(k); err == nil {
			out = append(out, c07ID{path: "router_identity.NewRouterIdentity", ri: ri})
		}
	}
	return out
}

func (id c07ID) bytes() ([]byte, error) {
	if id.dest != nil {
		return id.dest.Bytes()
	}
	return id.ri.KeysAndCert.Bytes()
}

// c07Base checks hash/address/base64 of every path for one identity encoding.
func c07Base(r *core.Run, w []byte, k refmodel.KeysAndCert, desc string, withCtor bool) []c07ID {
	ids := c07Paths(w, k, withCtor)
	sum := refmodel.SHA256(w)
	wantAddr := refmodel.B32Encode(sum[:], false) + ".b32.i2p"
	cs := core.Case{Kind: "identity", Args: map[string]string{"bytes": core.HexFull(w), "desc": desc}}
	for _, id := range ids {
		r.Evaluations.Add(1)
		b, err := id.bytes()
		if id.consumed != nil && !bytes.Equal(id.consumed, w) {
			// the path consumed something else than the identity's encoding (C03 decides framing); what it yields is
			// judged against the bytes it DID consume: an identity is its wire bytes, whichever they were
			if err != nil || !bytes.Equal(b, id.consumed) {
				r.Violate("C07|serialisation|"+pathClass(id.path)+"|differs-from-the-bytes-it-consumed", fmt.Sprintf("%s consumed %d bytes of a %d-byte identity encoding and yields an identity that serialises to neither (%d bytes, err %v): its hash and addresses are not those of any wire bytes (%s)", id.path, len(id.consumed), len(w), len(b), err, desc), cs)
			}
			continue
		}
		if err != nil || !bytes.Equal(b, w) {
			r.Violate("C07|serialisation|"+id.path, fmt.Sprintf("%s: identity bytes differ from the wire bytes (err %v) (%s)", id.path, err, desc), cs)
			continue
		}
		if id.dest != nil {
			h, err := id.dest.Hash()
			if err != nil || h != sum {
				r.Violate("C07|hash|"+id.path, fmt.Sprintf("%s: Hash() = %x, SHA-256 of the wire bytes = %x (err %v) (%s)", id.path, h, sum, err, desc), cs)
			}
			a, err := id.dest.Base32Address()
			if err != nil || a != wantAddr || len(a) != 60 {
				r.Violate("C07|base32|"+id.path, fmt.Sprintf("%s: Base32Address() = %q (len %d), expected %q (%s)", id.path, a, len(a), wantAddr, desc), cs)
			}
			b64, err := id.dest.Base64()
			dec, v := refmodel.B64Decode(b64)
			if err != nil || v != refmodel.Accept || !bytes.Equal(dec, w) || b64 != refmodel.B64Encode(w) {
				r.Violate("C07|base64|"+id.path, fmt.Sprintf("%s: Base64() does not decode back to the identity bytes (err %v) (%s)", id.path, err, desc), cs)
			}
		}
		r.Traces.Add(1)
	}
	// RouterInfo.IdentHash through a minimal RouterInfo carrying this identity
	if !refmodel.ProhibitedRISig(k.SigType) && len(ids) > 0 {
		ri := refmodel.RouterInfo{Ident: k, Published: gen.PublishedMs, Sig: make([]byte, refmodel.SigTable[k.SigType].SigLen)}
		rib := ri.Bytes()
		if v, _, err := router_info.ReadRouterInfo(rib); err == nil {
			r.Evaluations.Add(1)
			h, err := v.IdentHash()
			if err != nil || [32]byte(h) != sum {
				r.Violate("C07|hash|RouterInfo.IdentHash", fmt.Sprintf("IdentHash() = %x, SHA-256 of the identity's wire bytes = %x (err %v) (%s)", h, sum, err, desc), cs)
			}
			// history: the caller recycles its buffer; the hash is a function of the bytes that were parsed
			for i := range rib {
				rib[i] = 0x5a
			}
			h2, err := v.IdentHash()
			if err != nil || [32]byte(h2) != sum {
				r.Violate("C07|hash|RouterInfo.IdentHash|after-the-input-buffer-was-overwritten", fmt.Sprintf("IdentHash() = %x after the parse buffer was overwritten, %x before (err %v) (%s)", h2, sum, err, desc), cs)
			}
		}
	}
	for _, id := range ids {
		if id.buf == nil {
			continue
		}
		for i := range id.buf {
			id.buf[i] = 0x5a
		}
		r.Evaluations.Add(1)
		if b, err := id.bytes(); err != nil || !bytes.Equal(b, w) {
			r.Violate("C07|serialisation|after-the-input-buffer-was-overwritten|"+pathClass(id.path), fmt.Sprintf("%s: identity bytes change when the parse buffer is overwritten (%s)", id.path, desc), cs)
		}
		if id.dest != nil {
			if h, err := id.dest.Hash(); err != nil || h != sum {
				r.Violate("C07|hash|after-the-input-buffer-was-overwritten|"+pathClass(id.path), fmt.Sprintf("%s: Hash() changes when the parse buffer is overwritten (%s)", id.path, desc), cs)
			}
		}
	}
	// history: the identity is handed to every exported package-level function that takes it (blinding,
	// wrapping constructors, accessor functions - found by the registry scan, argument menus for the other
	// parameters); afterwards it must still be the identity it was parsed as
	for _, id := range ids {
		if id.buf == nil {
			continue // (the parse buffers were overwritten above: only values that own their bytes reach here)
		}
		var v any
		if id.dest != nil {
			v = id.dest
		} else {
			v = id.ri
		}
		n := 0
		core.Guard(func() { n = adapt.CallFuncsWith(v, c07FuncsFor(v), func(adapt.CallOutcome) {}) })
		r.Evaluations.Add(int64(n))
		if b, err := id.bytes(); err != nil || !bytes.Equal(b, w) {
			r.Violate("C07|serialisation|after-being-passed-to-exported-functions|"+pathClass(id.path), fmt.Sprintf("%s: the identity's bytes changed after it was passed as an argument to the exported functions that take it (err %v) (%s)", id.path, err, desc), cs)
			continue
		}
		if id.dest != nil {
			if h, err := id.dest.Hash(); err != nil || h != sum {
				r.Violate("C07|hash|after-being-passed-to-exported-functions|"+pathClass(id.path), fmt.Sprintf("%s: Hash() changed after the identity was passed to the exported functions that take it (%s)", id.path, desc), cs)
			}
		}
	}
	r.Distinct(w)
	return ids
}

var (
	c07FuncOnce  sync.Once
	c07FuncIndex map[reflect.Type][]adapt.FuncInfo
)

// c07FuncsFor: every exported package-level function with a parameter of v's type (constructors included).
func c07FuncsFor(v any) []adapt.FuncInfo {
	c07FuncOnce.Do(func() {
		var all []adapt.FuncInfo
		for _, f := range registry.Funcs {
			fv := reflect.ValueOf(f.Fn)
			if fv.Kind() == reflect.Func {
				all = append(all, adapt.FuncInfo{Name: f.Name, V: fv, T: fv.Type()})
			}
		}
		c07FuncIndex, _ = adapt.FuncsTaking(all)
	})
	t := reflect.TypeOf(v)
	for t != nil && t.Kind() == reflect.Ptr {
		t = t.Elem()
	}
	return c07FuncIndex[t]
}

func pathClass(p string) string {
	if i := strings.Index(p, " ("); i > 0 {
		return p[:i]
	}
	return p
}

func c07One(r *core.Run, s gen.Signed, desc string) {
	w := s.Bytes
	k := s.Value.(refmodel.KeysAndCert)
	base := c07Base(r, w, k, desc, true)
	if len(base) == 0 {
		return
	}
	// equality: every pair of paths of the same identity compares equal
	for _, a := range base {
		for _, b := range base {
			if a.dest != nil && b.dest != nil && !a.dest.Equals(b.dest) {
				r.Violate("C07|equals|same-bytes-unequal", fmt.Sprintf("%s and %s yield byte-identical identities that compare unequal (%s)", a.path, b.path, desc), core.Case{Kind: "identity", Args: map[string]string{"bytes": core.HexFull(w), "desc": desc}})
			}
			if a.ri != nil && b.ri != nil && !a.ri.Equal(b.ri) {
				r.Violate("C07|equal|same-bytes-unequal", fmt.Sprintf("%s and %s yield byte-identical identities that compare unequal (%s)", a.path, b.path, desc), core.Case{Kind: "identity", Args: map[string]string{"bytes": core.HexFull(w), "desc": desc}})
			}
		}
	}
	// every single-byte modification that still parses changes hash and address and breaks equality
	var d0 *destination.Destination
	var r0 *router_identity.RouterIdentity
	for _, id := range base {
		if id.dest != nil && d0 == nil {
			d0 = id.dest
		}
		if id.ri != nil && r0 == nil {
			r0 = id.ri
		}
	}
	h0 := refmodel.SHA256(w)
	for i := 0; i < len(w); i++ {
		for _, delta := range []byte{0x01, 0xff} {
			v := append([]byte(nil), w...)
			v[i] ^= delta
			r.Evaluations.Add(1)
			cs := core.Case{Kind: "variant", Args: map[string]string{"bytes": core.HexFull(w), "pos": fmt.Sprint(i), "xor": fmt.Sprint(delta), "desc": desc}}
			region := gen.ClassOf(gen.RegionAt(s.Regions, i))
			if d, rem, err := destination.ReadDestination(v); err == nil && len(rem) == 0 {
				vb, _ := d.Bytes()
				if !bytes.Equal(vb, v) {
					continue // C01's business
				}
				h, _ := d.Hash()
				a, _ := d.Base32Address()
				a0, _ := d0.Base32Address()
				if d0 != nil && (h == h0 || a == a0) {
					r.Violate("C07|variant-same-hash|"+region, fmt.Sprintf("changing byte %d (%s) of the identity leaves Hash()/Base32Address() unchanged (%s)", i, region, desc), cs)
				}
				if d0 != nil && (d0.Equals(&d) || d.Equals(d0)) {
					r.Violate("C07|variant-equals|"+region, fmt.Sprintf("identities differing in byte %d (%s) compare equal via Destination.Equals (%s)", i, region, desc), cs)
				}
				want := refmodel.SHA256(v)
				if h != want {
					r.Violate("C07|hash|variant|"+region, fmt.Sprintf("variant at byte %d (%s): Hash() is not SHA-256 of its wire bytes (%s)", i, region, desc), cs)
				}
				r.Traces.Add(1)
			}
			if ri, rem, err := router_identity.ReadRouterIdentity(v); err == nil && len(rem) == 0 && r0 != nil {
				vb, _ := ri.KeysAndCert.Bytes()
				if bytes.Equal(vb, v) && (r0.Equal(ri) || ri.Equal(r0)) {
					r.Violate("C07|variant-equal|"+region, fmt.Sprintf("router identities differing in byte %d (%s) compare equal via RouterIdentity.Equal (%s)", i, region, desc), cs)
				}
			}
		}
	}
}

func runC07(r *core.Run) {
	r.Rule = "E1: every identity of the KeysAndCert generator within 2 (thorough 3) variations (every supported signing/crypto pair, NULL / KEY / KEY+extra-payload certificates, marker/zero/ff padding and key fills) through ReadDestination, NewDestinationFromBytes, ReadRouterIdentity, NewRouterIdentityFromBytes, AsDestination, NewDestination / NewRouterIdentityFromKeysAndCert over the generic and both type-specific KeysAndCert readers, NewRouterIdentity and RouterInfo.IdentHash, each parser on the exact bytes AND embedded in two longer buffers (all resulting values must compare equal), and again after the parse buffers were overwritten; for each base EVERY byte position x {^01, ^ff}. Oracle: Hash == SHA-256(wire bytes) (standard library), Base32Address == independent bit-level base32 + suffix (60 chars), Base64 decodes back, Equals/Equal <=> byte equality. non-trivial = distinct identity encodings whose hash/address were compared"
	bound := 2
	if !r.Quick() {
		bound = 3
	}
	st, capped := choose.Explore(bound, core.Workers(), r.Expired, func(c *choose.Ctx) {
		s := gen.Identity(c, gen.RoleDest)
		c07One(r, s, c.Describe())
	})
	r.States.Add(st.Points)
	r.Transitions.Add(st.Transitions)
	if capped {
		r.Capped.Store(true)
	}
	// result-independence histories (H1/H2) of the identity accessors: hashes, addresses and serialisations of a
	// freshly parsed identity do not depend on what earlier callers did with the values and results they were handed
	independencePass(r, "C07", func(family, call string) bool {
		if !containsAny(family, "KeysAndCert", "Destination", "RouterIdentity", "RouterInfo", "KeyCertificate", "Certificate") {
			return false
		}
		return call == "" || containsAny(call, "Hash", "Base32", "Base64", "Bytes", "Equal")
	})
	c07Constructed(r)
	hd := 3
	if !r.Quick() {
		hd = 5
	}
	c07History(r, hd)
	c07FieldEdits(r)
	// identities whose Ed25519 / RedDSA signing key is a degenerate or NON-CANONICAL point encoding (sign bit set on x = 0,
	// unreduced y, p itself, all ones, zero): key material is opaque to an identity - whatever bytes were parsed are the
	// bytes that are hashed
	for _, sig := range []int{7, 11} {
		for _, cr := range []int{4, 0} {
			encs := [][]byte{
				append(append([]byte{0x01}, make([]byte, 30)...), 0x80),
				append(append([]byte{0xee}, bytes.Repeat([]byte{0xff}, 30)...), 0x7f),
				append(append([]byte{0xed}, bytes.Repeat([]byte{0xff}, 30)...), 0x7f),
				append(append([]byte{0xec}, bytes.Repeat([]byte{0xff}, 30)...), 0xff),
				bytes.Repeat([]byte{0xff}, 32), make([]byte, 32), append([]byte{0x01}, make([]byte, 31)...),
			}
			for i, key := range encs {
				cl := refmodel.CryptoTable[cr]
				k := refmodel.NewKAC(sig, cr, false, nil, refmodel.Fill("nc-c", uint64(i), cl), refmodel.Fill("nc-p", uint64(i), 384-cl-32), key)
				var b refmodel.Buf
				k.Emit(&b, "id")
				c07One(r, gen.Signed{Bytes: b.B, Regions: b.R, Value: k}, fmt.Sprintf("signing key encoding #%d (%x...%x), sig %d crypto %d", i, key[0], key[31], sig, cr))
			}
		}
	}
	r.Sample(map[string]any{"identity": "P-256 / ElGamal, KEY certificate + 5 extra payload bytes", "variants": "every byte ^01 and ^ff"})
	r.Sample(map[string]any{"paths": []string{"ReadDestination", "NewDestinationFromBytes", "ReadRouterIdentity", "AsDestination", "NewDestination", "NewRouterIdentity", "RouterInfo.IdentHash"}})
}

func replayC07(r *core.Run, c core.Case) {
	if c.Kind == "hash-history" {
		c07History(r, 3)
		return
	}
	if c.Kind == "fieldedit" {
		c07FieldEdits(r)
		return
	}
	if c.Kind == "constructed" {
		c07Constructed(r)
		return
	}
	w := core.UnHex(c.Args["bytes"])
	k, _, err := refmodel.DecodeKeysAndCert(w)
	if err != nil {
		return
	}
	var b refmodel.Buf
	k.Emit(&b, "id")
	c07One(r, gen.Signed{Bytes: w, Regions: b.R, Value: k}, strings.TrimSpace(c.Args["desc"]))
}
