package checks

import (
	"bytes"
	"fmt"

	"verif/internal/core"
	"verif/internal/refmodel"

	"github.com/go-i2p/common/data"
)

// c11Derived: histories in which strings obtained from one parsed mapping are used to BUILD other
// mappings (what a router does when it copies options from a received structure into its own). The
// strings of a parsed mapping are windows into the buffer it was parsed from, with capacity to the end of
// that buffer; an encoder that appends to such a string writes into the buffer. For every wire form of the
// menu (every wire order of 2-4 pairs): parse A from a private buffer; for every ordered pair (i, j) build
// B from A's key i and A's value j through ValuesToMapping, serialise B; invariant after every step:
// B.Data() equals the independent reference encoding of {key_i: value_j}; the buffer A was parsed from is
// unchanged; A.Data() still equals the bytes A was read from and A.ToGoMap() the original map. Also: two
// strings read back to back by ReadI2PString, used as key and value.
func c11Derived(r *core.Run) {
	menus := [][]refmodel.Pair{
		{{K: []byte("a"), V: []byte("1")}, {K: []byte("b"), V: []byte("2")}},
		{{K: []byte("host"), V: []byte("127.0.0.1")}, {K: []byte("port"), V: []byte("4567")}, {K: []byte("caps"), V: []byte("BC")}},
		{{K: []byte("k"), V: []byte("")}, {K: []byte(""), V: []byte("v")}, {K: []byte("kk"), V: []byte("vv")}},
		{{K: []byte("x"), V: bytes.Repeat([]byte("V"), 255)}, {K: bytes.Repeat([]byte("K"), 255), V: []byte("y")}},
		{{K: []byte("a"), V: []byte("=;")}, {K: []byte("b"), V: []byte{0, 0xff}}, {K: []byte("c"), V: []byte("3")}, {K: []byte("d"), V: []byte("4")}},
	}
	var n int64
	for mi, menu := range menus {
		idx := make([]string, len(menu))
		for i := range idx {
			idx[i] = fmt.Sprint(i)
		}
		permutations(idx, func(order []string) {
			var wireM refmodel.Mapping
			want := map[string]string{}
			for _, o := range order {
				var k int
				fmt.Sscan(o, &k)
				wireM = append(wireM, menu[k])
				want[string(menu[k].K)] = string(menu[k].V)
			}
			wire := refmodel.MappingBytes(wireM)
			buf := append(append([]byte(nil), wire...), 0xEE, 0xEE, 0xEE, 0xEE, 0xEE, 0xEE, 0xEE, 0xEE) // the buffer continues after the mapping
			buf = buf[: len(wire)+8 : len(wire)+8]
			a, _, errs := data.ReadMapping(buf[:len(wire)])
			cs := core.Case{Kind: "derived", Args: map[string]string{"menu": fmt.Sprint(mi), "wire": core.HexFull(wire)}}
			if len(errs) != 0 {
				return
			}
			vals := a.Values()
			holds := func(step string) bool {
				if !bytes.Equal(buf[:len(wire)], wire) || !bytes.Equal(buf[len(wire):], bytes.Repeat([]byte{0xEE}, 8)) {
					r.Violate("C11|derived-mapping|callers-buffer-was-written", fmt.Sprintf("after %s the buffer the first mapping was parsed from has changed: %s, was %s", step, core.Hex(buf), core.Hex(wire)), cs)
					return false
				}
				if d := a.Data(); !bytes.Equal(d, wire) {
					r.Violate("C11|derived-mapping|parsed-mapping-changed", fmt.Sprintf("after %s the first mapping re-serialises to %s, it was read from %s", step, core.Hex(d), core.Hex(wire)), cs)
					return false
				}
				if g, err := a.ToGoMap(); err != nil || len(g) != len(want) {
					r.Violate("C11|derived-mapping|parsed-mapping-changed", fmt.Sprintf("after %s the first mapping's ToGoMap gives %d entries, err %v (expected %d)", step, len(g), err, len(want)), cs)
					return false
				}
				return true
			}
			if !holds("parsing") {
				return
			}
			for i := range vals {
				for j := range vals {
					n++
					r.Evaluations.Add(1)
					b, err := data.ValuesToMapping(data.MappingValues{{vals[i][0], vals[j][1]}})
					if err != nil || b == nil {
						continue
					}
					k, _ := vals[i][0].Data()
					v, _ := vals[j][1].Data()
					ref := refmodel.MappingBytes(refmodel.Mapping{{K: []byte(k), V: []byte(v)}})
					if d := b.Data(); !bytes.Equal(d, ref) {
						r.Violate("C11|derived-mapping|encoding-differs-from-reference", fmt.Sprintf("a mapping built from key %d and value %d of a parsed mapping encodes to %s, reference %s", i, j, core.Hex(d), core.Hex(ref)), cs)
						return
					}
					if !holds(fmt.Sprintf("building and serialising a mapping from its key %d and value %d", i, j)) {
						return
					}
				}
			}
			r.Traces.Add(1)
			r.Distinct([]byte("derived"), wire[:min(len(wire), 300)])
		})
	}
	// two strings read back to back, used as key and value
	for _, kv := range [][2]string{{"a", "b"}, {"host", "1.2.3.4"}, {"", ""}, {"k", ""}, {string(bytes.Repeat([]byte("K"), 255)), "v"}} {
		in := append(append([]byte{byte(len(kv[0]))}, kv[0]...), append([]byte{byte(len(kv[1]))}, kv[1]...)...)
		in = append(in, 0xEE, 0xEE)
		orig := append([]byte(nil), in...)
		s1, rem, e1 := data.ReadI2PString(in)
		s2, _, e2 := data.ReadI2PString(rem)
		if e1 != nil || e2 != nil {
			continue
		}
		n++
		r.Evaluations.Add(1)
		cs := core.Case{Kind: "derived", Args: map[string]string{"adjacent": core.HexFull(orig)}}
		b, err := data.ValuesToMapping(data.MappingValues{{s1, s2}})
		if err != nil || b == nil {
			continue
		}
		ref := refmodel.MappingBytes(refmodel.Mapping{{K: []byte(kv[0]), V: []byte(kv[1])}})
		if d := b.Data(); !bytes.Equal(d, ref) {
			r.Violate("C11|derived-mapping|encoding-differs-from-reference", fmt.Sprintf("a mapping built from two strings read back to back encodes to %s, reference %s", core.Hex(d), core.Hex(ref)), cs)
		}
		if !bytes.Equal(in, orig) {
			r.Violate("C11|derived-mapping|callers-buffer-was-written", fmt.Sprintf("serialising a mapping built from strings read from a buffer changed that buffer: %s, was %s", core.Hex(in), core.Hex(orig)), cs)
		}
	}
	r.Note("derived_mapping_steps", n)
}
