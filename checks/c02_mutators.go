package checks

import (
	"bytes"
	"fmt"

	"verif/internal/adapt"
	"verif/internal/choose"
	"verif/internal/core"
	"verif/internal/gen"
	"verif/internal/refmodel"

	"github.com/go-i2p/common/router_address"
	"github.com/go-i2p/common/router_info"
)

// c02Mutators: E4 over the documented mutator of a RouterInfo. A value is built (NewRouterInfo) or received
// (ReadRouterInfo) and then grown with AddAddress; after every step the independent decoder must read back from
// Bytes() exactly the addresses the value exposes through RouterAddressCount / RouterAddresses (a serialiser
// that answers from a retained encoding, or an accessor that answers from a stale count, disagree here and
// nowhere else). Every sequence of up to 3 additions over a menu of 3 addresses, on bases with 0, 1 and 2
// addresses, through both origins.
func c02Mutators(r *core.Run) {
	var menu []*router_address.RouterAddress
	for _, m := range []refmodel.RouterAddress{
		{Cost: 3, Style: []byte("NTCP2"), Options: gen.MappingMenu[8]},
		{Cost: 9, Style: []byte("SSU2"), Options: gen.MappingMenu[1]},
		{Cost: 0, Style: []byte("x"), Options: refmodel.Mapping{}},
	} {
		if a, err := adapt.RouterAddress(m); err == nil && a != nil {
			menu = append(menu, a)
		}
	}
	type origin struct {
		name string
		mk   func(ri refmodel.RouterInfo, kp refmodel.KeyPair, wire []byte) *router_info.RouterInfo
	}
	origins := []origin{
		{"ReadRouterInfo", func(_ refmodel.RouterInfo, _ refmodel.KeyPair, wire []byte) *router_info.RouterInfo {
			v, rem, err := router_info.ReadRouterInfo(append([]byte(nil), wire...))
			if err != nil || len(rem) != 0 {
				return nil
			}
			return &v
		}},
		{"NewRouterInfo", func(ri refmodel.RouterInfo, kp refmodel.KeyPair, _ []byte) *router_info.RouterInfo {
			v, err := adapt.RouterInfo(ri, kp)
			if err != nil {
				return nil
			}
			return v
		}},
	}
	var seqs int64
	choose.Explore(1, 1, r.Expired, func(c *choose.Ctx) {
		s := gen.RouterInfo(c)
		ri := s.Value.(refmodel.RouterInfo)
		if len(ri.Addrs) > 2 {
			return
		}
		for _, o := range origins {
			var rec func(seq []int)
			rec = func(seq []int) {
				v := o.mk(ri, s.IDKey, s.Bytes)
				if v == nil {
					return
				}
				seqs++
				r.Evaluations.Add(1)
				cs := core.Case{Kind: "mutators", Args: map[string]string{"origin": o.name, "base": c.Describe(), "seq": fmt.Sprint(seq)}}
				for step, ai := range seq {
					if err := v.AddAddress(menu[ai]); err != nil {
						return // a refusal (e.g. count limit) ends the sequence; nothing to compare
					}
					r.Transitions.Add(1)
					out, err := v.Bytes()
					if err != nil {
						r.Violate("C02|encode|router_info.RouterInfo.AddAddress|"+o.name+"|serialise-fails", fmt.Sprintf("after %d AddAddress calls on a value from %s Bytes() fails: %v", step+1, o.name, err), cs)
						return
					}
					d, n, derr := refmodel.DecodeRouterInfo(out)
					cnt := v.RouterAddressCount()
					addrs := v.RouterAddresses()
					if derr != nil || n != len(out) {
						r.Violate("C02|encode|router_info.RouterInfo.AddAddress|"+o.name+"|reference-decoder-rejects", fmt.Sprintf("after %d AddAddress calls on a value from %s the independent decoder rejects Bytes(): %v", step+1, o.name, derr), cs)
						return
					}
					want := len(ri.Addrs) + step + 1
					if len(d.Addrs) != want || cnt != want || len(addrs) != want {
						r.Violate("C02|encode|router_info.RouterInfo.AddAddress|"+o.name+"|field:address-count", fmt.Sprintf("%s value with %d addresses + %d AddAddress calls: the wire form carries %d addresses, RouterAddressCount() = %d, RouterAddresses() has %d", o.name, len(ri.Addrs), step+1, len(d.Addrs), cnt, len(addrs)), cs)
						return
					}
					for i := range addrs {
						if addrs[i] == nil || !bytes.Equal(addrs[i].Bytes(), d.Addrs[i].Bytes()) {
							r.Violate("C02|encode|router_info.RouterInfo.AddAddress|"+o.name+"|field:address", fmt.Sprintf("%s value after %d AddAddress calls: address %d on the wire differs from RouterAddresses()[%d]", o.name, step+1, i, i), cs)
							return
						}
					}
					r.States.Add(1)
				}
				r.Traces.Add(1)
				if len(seq) < 3 {
					for a := range menu {
						rec(append(append([]int(nil), seq...), a))
					}
				}
			}
			rec(nil)
		}
	})
	r.Note("mutator_sequences", seqs)
}
