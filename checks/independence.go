package checks

import (
	"fmt"
	"reflect"
	"strings"
	"sync"

	"verif/internal/adapt"
	"verif/internal/core"
	"verif/internal/snap"
)

// Result-independence histories (E4, depth 4) over the exported accessors of parsed values.
//
// The single-call oracles compare an accessor's result with the model at the moment it is
// returned. Two kinds of shared state are invisible to them and are exactly what an "allocation
// optimisation" introduces:
//
//	H1  a result handed out earlier is overwritten by a LATER call on another value
//	    (pooled / package-level output buffer whose backing array is returned to the caller);
//	H2  a LATER, independent call returns what an earlier caller did to ITS result
//	    (memo / interned object handed out without a copy).
//
// History explored for every item (entry point x base encoding with <= 1 deviation) and every
// exported non-mutating method with every argument tuple of the menu:
//
//	v0 := parse(x); o0 := calls(v0)            control: which results are deterministic at all
//	v1 := parse(x); o1 := calls(v1); s1 := snapshot(o1)
//	v2 := parse(y); o2 := calls(v2)            y: another encoding for the same entry point
//	H1: snapshot(o1) == s1
//	scribble(o0, o1, o2)                       the callers do what they like with their results
//	v3 := parse(x); o3 := calls(v3)
//	H2: snapshot(o3) == s1 for every deterministic result
//
// Scribbling only writes where a caller can (snap.Scribble): byte slices, map entries, exported
// fields - never unexported state.
type indepCall struct {
	key string
	out []reflect.Value
}

func indepCalls(v any) []indepCall {
	var out []indepCall
	core.Guard(func() {
		adapt.CallMethods(v, true, mutatorNames, func(o adapt.CallOutcome) {
			if o.Panicked {
				return
			}
			key := o.Type + "." + o.Method + "(" + o.Args + ")"
			out = append(out, indepCall{key, o.Out})
			// one level down: the argument-free accessors of library-typed results (Certificate().Data(),
			// Destination().Bytes(), ...): what a caller reaches in two steps is its to overwrite, too
			for _, res := range o.Out {
				if !res.IsValid() || !res.CanInterface() || !adapt.IsLibraryType(res.Type()) {
					continue
				}
				if res.Kind() == reflect.Ptr && res.IsNil() {
					continue
				}
				if k := res.Kind(); k == reflect.Slice || k == reflect.Array || k == reflect.Map || k == reflect.String {
					continue
				}
				adapt.CallMethods(res.Interface(), false, mutatorNames, func(o2 adapt.CallOutcome) {
					if !o2.Panicked {
						out = append(out, indepCall{key + "." + o2.Method + "()", o2.Out})
					}
				})
			}
		})
	})
	return out
}

func snapOuts(out []reflect.Value) [32]byte {
	vals := make([]any, 0, len(out))
	for _, o := range out {
		if o.IsValid() && o.CanInterface() {
			if e, isErr := o.Interface().(error); isErr && e != nil {
				// error values carry timestamps / trace ids (oops): only the message is a result
				vals = append(vals, "error:"+e.Error())
				continue
			}
			vals = append(vals, o.Interface())
		}
	}
	return snap.Hash(vals, snap.Options{SkipTypes: skipLoggerTypes})
}

var skipLoggerTypes = map[reflect.Type]bool{}

// indepFilter restricts the pass to some entry-point families / calls (nil = everything).
type indepFilter func(family, callKey string) bool

func independencePass(r *core.Run, prop string, filters ...indepFilter) {
	var keep indepFilter
	if len(filters) > 0 {
		keep = filters[0]
	}
	all := collectLifetimeItems(r, 1)
	var items []*ltItem
	for _, it := range all {
		if keep == nil || keep(it.p.Family, "") {
			items = append(items, it)
		}
	}
	byParser := map[string][]*ltItem{}
	for _, it := range items {
		byParser[it.p.Name] = append(byParser[it.p.Name], it)
	}
	var unstable, compared sync.Map
	var nH1, nH2 int64
	var mu sync.Mutex
	core.ParallelFor(len(items), func(worker, i int) {
		if r.Expired() {
			return
		}
		it := items[i]
		peers := byParser[it.p.Name]
		other := it
		for k, p := range peers { // the next encoding for the same entry point (cyclic)
			if p == it {
				other = peers[(k+1)%len(peers)]
				break
			}
		}
		l0, ok0 := ltParse(it)
		l1, ok1 := ltParse(it)
		if !ok0 || !ok1 || l0.res.Val == nil || l1.res.Val == nil {
			return
		}
		o0 := indepCalls(l0.res.Val)
		o1 := indepCalls(l1.res.Val)
		s0 := map[string][32]byte{}
		for _, c := range o0 {
			s0[c.key] = snapOuts(c.out)
		}
		s1 := map[string][32]byte{}
		for _, c := range o1 {
			s1[c.key] = snapOuts(c.out)
		}
		l2, ok2 := ltParse(other)
		var o2 []indepCall
		if ok2 && l2.res.Val != nil {
			o2 = indepCalls(l2.res.Val)
		}
		r.Transitions.Add(3)
		// H1
		for _, c := range o1 {
			if keep != nil && !keep(it.p.Family, c.key) {
				continue
			}
			r.States.Add(1)
			if snapOuts(c.out) != s1[c.key] {
				r.Violate(fmt.Sprintf("%s|decode|%s|%s|result-handed-out-earlier-changed-after-later-calls", prop, it.p.Name, c.key),
					fmt.Sprintf("%s: the result of %s on a parsed value changed after the same accessors were called on another value parsed from a different encoding (results share a buffer across calls); input %s, other input %s", it.p.Name, c.key, core.Hex(it.in), core.Hex(other.in)),
					core.Case{Kind: "independence", Args: map[string]string{"parser": it.p.Name, "input": core.HexFull(it.in), "other": core.HexFull(other.in), "call": c.key}})
			}
		}
		n1 := int64(len(o1))
		// scribble: every result, and the values themselves through their exported fields
		for _, cs := range [][]indepCall{o0, o1, o2} {
			for _, c := range cs {
				core.Guard(func() { snap.ScribbleValues(c.out) })
			}
		}
		for _, l := range []*ltLive{l0, l1, l2} {
			if l != nil && l.res.Val != nil {
				core.Guard(func() { snap.Scribble(l.res.Val) })
			}
		}
		l3, ok3 := ltParse(it)
		r.Transitions.Add(1)
		if !ok3 || l3.res.Val == nil {
			r.Violate(fmt.Sprintf("%s|decode|%s|rejected-after-earlier-callers-overwrote-their-results", prop, it.p.Name),
				fmt.Sprintf("%s accepts input %s when run first but not after earlier callers overwrote the results they had been given", it.p.Name, core.Hex(it.in)),
				core.Case{Kind: "independence", Args: map[string]string{"parser": it.p.Name, "input": core.HexFull(it.in), "other": core.HexFull(other.in), "call": ""}})
			return
		}
		var n2 int64
		for _, c := range indepCalls(l3.res.Val) {
			want, has := s1[c.key]
			if !has || (keep != nil && !keep(it.p.Family, c.key)) {
				continue
			}
			if s0[c.key] != want { // not a deterministic function of the input (time, randomness): not judged
				unstable.Store(c.key, true)
				continue
			}
			compared.Store(c.key, true)
			n2++
			r.States.Add(1)
			if snapOuts(c.out) != want {
				r.Violate(fmt.Sprintf("%s|decode|%s|%s|result-depends-on-what-earlier-callers-did-with-theirs", prop, it.p.Name, c.key),
					fmt.Sprintf("%s: %s on a freshly parsed value returns something else after earlier callers overwrote the results they had been given for the same encoding (a cached object is handed out without a copy); input %s", it.p.Name, c.key, core.Hex(it.in)),
					core.Case{Kind: "independence", Args: map[string]string{"parser": it.p.Name, "input": core.HexFull(it.in), "other": core.HexFull(other.in), "call": c.key}})
			}
		}
		r.Traces.Add(1)
		r.Evaluations.Add(1)
		mu.Lock()
		nH1 += n1
		nH2 += n2
		mu.Unlock()
	})
	var us []string
	unstable.Range(func(k, _ any) bool { us = append(us, k.(string)); return true })
	nc := 0
	compared.Range(func(_, _ any) bool { nc++; return true })
	r.Note("independence_items", int64(len(items)))
	r.Note("independence_H1_results_rechecked", nH1)
	r.Note("independence_H2_results_rechecked", nH2)
	r.Note("independence_distinct_calls_compared", int64(nc))
	if len(us) > 20 {
		us = us[:20]
	}
	r.Note("independence_nondeterministic_calls_not_judged", us)
}

// replayIndependence re-runs the history of one recorded case (all accessors; the recorded call
// is what the violation identity names).
func replayIndependence(r *core.Run, prop string, c core.Case) {
	p, ok := adapt.ByName(c.Args["parser"])
	if !ok {
		return
	}
	it := &ltItem{p: p, in: core.UnHex(c.Args["input"]), fam: p.Family}
	other := &ltItem{p: p, in: core.UnHex(c.Args["other"]), fam: p.Family}
	l0, ok0 := ltParse(it)
	l1, ok1 := ltParse(it)
	if !ok0 || !ok1 {
		return
	}
	o0 := indepCalls(l0.res.Val)
	o1 := indepCalls(l1.res.Val)
	s0, s1 := map[string][32]byte{}, map[string][32]byte{}
	for _, x := range o0 {
		s0[x.key] = snapOuts(x.out)
	}
	for _, x := range o1 {
		s1[x.key] = snapOuts(x.out)
	}
	var o2 []indepCall
	if l2, ok2 := ltParse(other); ok2 && l2.res.Val != nil {
		o2 = indepCalls(l2.res.Val)
	}
	for _, x := range o1 {
		if snapOuts(x.out) != s1[x.key] {
			r.Violate(fmt.Sprintf("%s|decode|%s|%s|result-handed-out-earlier-changed-after-later-calls", prop, p.Name, x.key), "replay", c)
		}
	}
	for _, cs := range [][]indepCall{o0, o1, o2} {
		for _, x := range cs {
			core.Guard(func() { snap.ScribbleValues(x.out) })
		}
	}
	core.Guard(func() { snap.Scribble(l0.res.Val); snap.Scribble(l1.res.Val) })
	l3, ok3 := ltParse(it)
	if !ok3 || l3.res.Val == nil {
		r.Violate(fmt.Sprintf("%s|decode|%s|rejected-after-earlier-callers-overwrote-their-results", prop, p.Name), "replay", c)
		return
	}
	for _, x := range indepCalls(l3.res.Val) {
		if want, has := s1[x.key]; has && s0[x.key] == want && snapOuts(x.out) != want {
			r.Violate(fmt.Sprintf("%s|decode|%s|%s|result-depends-on-what-earlier-callers-did-with-theirs", prop, p.Name, x.key), "replay", c)
		}
	}
}

// containsAny reports whether s contains one of the substrings.
func containsAny(s string, subs ...string) bool {
	for _, x := range subs {
		if strings.Contains(s, x) {
			return true
		}
	}
	return false
}

// snapLeafOuts is snapOuts restricted to what a result SAYS: scalars, strings, byte strings, errors, times.
// Results that are library structures (or pointers to them) are not rendered - their unexported fields are not
// answers; what they say is reached through their own accessors, which indepCalls invokes one level down.
func snapLeafOuts(out []reflect.Value) [32]byte {
	vals := make([]any, 0, len(out))
	for _, o := range out {
		if !o.IsValid() || !o.CanInterface() {
			continue
		}
		if e, isErr := o.Interface().(error); isErr && e != nil {
			vals = append(vals, "error:"+e.Error())
			continue
		}
		t := o.Type()
		for t.Kind() == reflect.Ptr {
			t = t.Elem()
		}
		if adapt.IsLibraryType(o.Type()) {
			switch t.Kind() {
			case reflect.Struct, reflect.Interface, reflect.Map:
				continue
			case reflect.Slice, reflect.Array:
				if k := t.Elem().Kind(); k == reflect.Struct || k == reflect.Ptr || k == reflect.Interface || k == reflect.Slice {
					continue
				}
			}
		}
		if t.Kind() == reflect.Interface || (t.Kind() == reflect.Slice && t.Elem().Kind() == reflect.Ptr) {
			continue
		}
		vals = append(vals, o.Interface())
	}
	return snap.Hash(vals, snap.Options{})
}
