package checks

import (
	"bytes"
	"fmt"
	"sort"
	"strings"

	"verif/internal/adapt"
	"verif/internal/core"
	"verif/internal/refmodel"

	"github.com/go-i2p/common/certificate"
	"github.com/go-i2p/common/data"
	"github.com/go-i2p/common/key_certificate"
)

func init() { register("C19", runC19, replayC19) }

type c19Pair struct {
	A, B string
	// domain decides whether the pair's agreement is demanded on this input
	Domain func(x []byte) bool
}

func anyInput([]byte) bool { return true }

// declared returns the key types an identity encoding declares (ok=false if not decodable that far).
func declaredTypes(x []byte) (sig, crypto int, ok bool) {
	if len(x) < 387 {
		return 0, 0, false
	}
	switch x[384] {
	case refmodel.CertNull:
		return 0, 0, true
	case refmodel.CertKey:
		if len(x) < 391 || int(refmodel.U(x[385:387])) < 4 {
			return 0, 0, false
		}
		return int(refmodel.U(x[387:389])), int(refmodel.U(x[389:391])), true
	}
	return 0, 0, false
}

func typesAre(sig, crypto int) func([]byte) bool {
	return func(x []byte) bool {
		s, c, ok := declaredTypes(x)
		return ok && s == sig && c == crypto && x[384] == refmodel.CertKey
	}
}

func destPermitted(x []byte) bool {
	s, c, ok := declaredTypes(x)
	return ok && !refmodel.ProhibitedDestSig(s) && !refmodel.ProhibitedDestCrypto(c)
}

func riPermitted(x []byte) bool {
	s, c, ok := declaredTypes(x)
	return ok && !refmodel.ProhibitedRISig(s) && !refmodel.ProhibitedRICrypto(c)
}

var c19ParserPairs = []c19Pair{
	{"keys_and_cert.ReadKeysAndCert", "keys_and_cert.ReadKeysAndCertElgAndEd25519", typesAre(7, 0)},
	{"keys_and_cert.ReadKeysAndCert", "keys_and_cert.ReadKeysAndCertX25519AndEd25519", typesAre(7, 4)},
	{"keys_and_cert.ReadKeysAndCert", "destination.ReadDestination", destPermitted},
	{"keys_and_cert.ReadKeysAndCert", "lease_set.ReadDestinationFromLeaseSet", destPermitted},
	{"keys_and_cert.ReadKeysAndCert", "router_identity.ReadRouterIdentity", riPermitted},
	{"destination.ReadDestination", "destination.NewDestinationFromBytes", anyInput},
	{"destination.ReadDestination", "router_identity.ReadRouterIdentity+AsDestination", func(x []byte) bool { return destPermitted(x) && riPermitted(x) }},
	{"destination.ReadDestination", "destination.NewDestination(ReadKeysAndCert)", destPermitted},
	{"router_identity.ReadRouterIdentity", "router_identity.NewRouterIdentityFromKeysAndCert(ReadKeysAndCert)", riPermitted},
	// the assemble-from-parts constructors take a KEY certificate by contract: their domain is KEY-certificate identities
	{"router_identity.ReadRouterIdentity", "router_identity.NewRouterIdentity(parts of ReadKeysAndCert)", func(x []byte) bool { return riPermitted(x) && len(x) > 384 && x[384] == refmodel.CertKey }},
	{"keys_and_cert.ReadKeysAndCert", "keys_and_cert.NewKeysAndCert(parts of ReadKeysAndCert)", func(x []byte) bool { return len(x) > 384 && x[384] == refmodel.CertKey }},
	{"router_identity.ReadRouterIdentity", "router_identity.NewRouterIdentityFromBytes", anyInput},
	{"lease.ReadLease", "lease.NewLeaseFromBytes", anyInput},
	{"lease.ReadLease2", "lease.NewLease2FromBytes", anyInput},
	{"data.ReadDate", "data.NewDate", anyInput},
	{"data.ReadMapping", "data.NewMapping", anyInput},
	{"data.ReadInteger[1]", "data.NewInteger[1]", anyInput},
	{"data.ReadInteger[2]", "data.NewInteger[2]", anyInput},
	{"data.ReadInteger[4]", "data.NewInteger[4]", anyInput},
	{"data.ReadInteger[8]", "data.NewInteger[8]", anyInput},
	{"session_key.ReadSessionKey", "session_key.NewSessionKey", anyInput},
	{"session_tag.ReadSessionTag", "session_tag.NewSessionTag", anyInput},
	{"session_tag.ReadECIESSessionTag", "session_tag.NewECIESSessionTag", anyInput},
	{"signature.ReadSignature[7]", "signature.NewSignature[7]", anyInput},
	{"signature.ReadSignature[0]", "signature.NewSignature[0]", anyInput},
	{"signature.ReadSignature[1]", "signature.NewSignature[1]", anyInput},
	{"signature.ReadSignature[2]", "signature.NewSignature[2]", anyInput},
	{"signature.ReadSignature[3]", "signature.NewSignature[3]", anyInput},
	{"signature.ReadSignature[4]", "signature.NewSignature[4]", anyInput},
	{"signature.ReadSignature[8]", "signature.NewSignature[8]", anyInput},
	{"signature.ReadSignature[11]", "signature.NewSignature[11]", anyInput},
}

type c19Out struct {
	ok      bool
	ser     []byte
	rem     []byte
	pan     bool
	changed bool // the value's serialisation changed when the buffer it was parsed from was overwritten
}

// c19Run feeds the entry point a PRIVATE copy of x, records serialisation and remainder, then
// overwrites that copy and serialises again (history step: callers recycle their buffers).
func c19Run(p adapt.Parser, x []byte) c19Out {
	var res adapt.Parsed
	buf := append([]byte(nil), x...)
	pan, _ := core.Guard(func() { res = p.Fn(buf) })
	o := c19Out{ok: res.OK, pan: pan}
	if pan || !res.OK {
		o.ok = false
		return o
	}
	o.rem = append([]byte(nil), res.Rem...)
	if res.Ser != nil {
		core.Guard(func() {
			s1, _ := res.Ser()
			o.ser = append([]byte(nil), s1...)
		})
		for i := range buf {
			buf[i] ^= 0x5a
		}
		core.Guard(func() {
			s2, _ := res.Ser()
			o.changed = !bytes.Equal(s2, o.ser)
		})
	}
	return o
}

func c19Compare(r *core.Run, pr c19Pair, in *Input) {
	if !pr.Domain(in.Bytes) {
		return
	}
	pa, ok1 := adapt.ByName(pr.A)
	pb, ok2 := adapt.ByName(pr.B)
	if !ok1 || !ok2 {
		return
	}
	r.Evaluations.Add(1)
	a, b := c19Run(pa, in.Bytes), c19Run(pb, in.Bytes)
	if a.pan || b.pan {
		return // C04's business
	}
	id := fmt.Sprintf("C19|%s~%s|%s|%s", pr.A, pr.B, in.Family, in.Class)
	cs := in.Case(pr.A + "~" + pr.B)
	if a.ok != b.ok {
		r.Violate(id+"|acceptance", fmt.Sprintf("%s accept=%v but %s accept=%v on the same input (%s %s; %s)", pr.A, a.ok, pr.B, b.ok, in.Class, in.Detail, in.Base), cs)
		return
	}
	if !a.ok {
		return
	}
	r.Traces.Add(1)
	if !bytes.Equal(a.ser, b.ser) {
		r.Violate(id+"|serialisation", fmt.Sprintf("%s and %s accept the same input but serialise differently (first difference at %d) (%s %s; %s)", pr.A, pr.B, firstDiff(a.ser, b.ser), in.Class, in.Detail, in.Base), cs)
	}
	if a.changed != b.changed {
		r.Violate(id+"|serialisation-after-the-input-was-overwritten", fmt.Sprintf("after the caller overwrites its buffer the value from %s changed=%v, from %s changed=%v: the two entry points no longer give identical serialisations (%s %s; %s)", pr.A, a.changed, pr.B, b.changed, in.Class, in.Detail, in.Base), cs)
	}
	if !bytes.Equal(a.rem, b.rem) {
		r.Violate(id+"|remainder", fmt.Sprintf("%s leaves %d bytes, %s leaves %d bytes (%s %s; %s)", pr.A, len(a.rem), pr.B, len(b.rem), in.Class, in.Detail, in.Base), cs)
	}
	r.Distinct([]byte(pr.A+pr.B), in.Bytes[:min(len(in.Bytes), 700)], []byte(in.Class), []byte(in.Detail))
}

// c19Signature: ReadSignature(data,t) and NewSignatureFromBytes(data[:len],t) agree.
func c19Signature(r *core.Run, in *Input) {
	t := in.Aux
	rd, _ := adapt.ByName(fmt.Sprintf("signature.ReadSignature[%d]", t))
	ex, ok := adapt.ByName(fmt.Sprintf("signature.NewSignatureFromBytes[%d]", t))
	if !ok {
		return
	}
	a := c19Run(rd, in.Bytes)
	if !a.ok {
		// exact constructor must reject what is shorter than a signature, too
		if len(in.Bytes) < refmodel.SigTable[t].SigLen {
			if b := c19Run(ex, in.Bytes); b.ok {
				r.Violate(fmt.Sprintf("C19|signature.ReadSignature~NewSignatureFromBytes|type=%d|acceptance", t), "NewSignatureFromBytes accepts data the reader rejects as too short", in.Case("sig"))
			}
		}
		return
	}
	consumed := in.Bytes[:len(in.Bytes)-len(a.rem)]
	b := c19Run(ex, consumed)
	r.Evaluations.Add(1)
	if b.ok && a.changed != b.changed {
		r.Violate(fmt.Sprintf("C19|signature.ReadSignature~NewSignatureFromBytes|type=%d|serialisation-after-the-input-was-overwritten", t), fmt.Sprintf("after the caller overwrites its buffer: ReadSignature value changed=%v, NewSignatureFromBytes value changed=%v", a.changed, b.changed), in.Case("sig"))
	}
	if !b.ok || !bytes.Equal(a.ser, b.ser) {
		r.Violate(fmt.Sprintf("C19|signature.ReadSignature~NewSignatureFromBytes|type=%d|serialisation", t), fmt.Sprintf("ReadSignature consumed %d bytes; NewSignatureFromBytes on exactly those bytes: ok=%v, equal=%v", len(consumed), b.ok, bytes.Equal(a.ser, b.ser)), in.Case("sig"))
	}
}

// c19KeyCert: NewKeyCertificate(bytes) vs KeyCertificateFromCertificate(ReadCertificate(bytes)).
func c19KeyCert(r *core.Run, in *Input) {
	x := in.Bytes
	r.Evaluations.Add(1)
	var kc1, kc2 *key_certificate.KeyCertificate
	var rem1, rem2 []byte
	var err1, err2 error
	pan, _ := core.Guard(func() {
		kc1, rem1, err1 = key_certificate.NewKeyCertificate(x)
		var c *certificate.Certificate
		c, rem2, err2 = certificate.ReadCertificate(x)
		if err2 == nil {
			kc2, err2 = key_certificate.KeyCertificateFromCertificate(c)
		}
	})
	if pan {
		return
	}
	id := "C19|key_certificate.NewKeyCertificate~KeyCertificateFromCertificate(ReadCertificate)|" + in.Class
	if (err1 == nil) != (err2 == nil) {
		r.Violate(id+"|acceptance", fmt.Sprintf("NewKeyCertificate err=%v, KeyCertificateFromCertificate(ReadCertificate) err=%v (%s %s; %s)", err1, err2, in.Class, in.Detail, in.Base), in.Case("keycert"))
		return
	}
	if err1 != nil {
		return
	}
	r.Traces.Add(1)
	if !bytes.Equal(kc1.Bytes(), kc2.Bytes()) || !bytes.Equal(rem1, rem2) || kc1.SigningPublicKeyType() != kc2.SigningPublicKeyType() || kc1.PublicKeyType() != kc2.PublicKeyType() {
		r.Violate(id+"|result", fmt.Sprintf("the two routes give different key certificates: bytes %s vs %s, remainder %d vs %d, types %d/%d vs %d/%d", core.Hex(kc1.Bytes()), core.Hex(kc2.Bytes()), len(rem1), len(rem2), kc1.SigningPublicKeyType(), kc1.PublicKeyType(), kc2.SigningPublicKeyType(), kc2.PublicKeyType()), in.Case("keycert"))
	}
	r.Distinct([]byte("keycert"), x[:min(len(x), 64)])
}

// c19Constructors: certificate builder vs direct constructors; strings; integers.
func c19Constructors(r *core.Run) {
	bad := func(pair, clause, detail string, args map[string]string) {
		r.Violate("C19|"+pair+"|"+clause, detail, core.Case{Kind: "ctor", Args: args})
	}
	codes := []int{0, 1, 2, 3, 4, 5, 6, 7, 8, 9, 10, 11, 12, 20, 21, 255, 256, 65279, 65280, 65534, 65535, 65536, 65543, 1 << 31, -1}
	for _, s := range codes {
		for _, c := range codes {
			r.Evaluations.Add(1)
			args := map[string]string{"sig": fmt.Sprint(s), "crypto": fmt.Sprint(c)}
			if s < 0 || c < 0 || s > 65535 || c > 65535 {
				// outside the 16-bit fields: every entry point must refuse (none may store a wrapped value)
				_, e1 := certificate.BuildKeyTypePayload(s, c)
				_, e2 := key_certificate.NewKeyCertificateWithTypes(s, c)
				_, e3 := certificate.NewCertificateBuilder().WithKeyTypes(s, c)
				if e1 == nil || e2 == nil {
					bad("BuildKeyTypePayload~NewKeyCertificateWithTypes", "acceptance[key-type-range]", fmt.Sprintf("types %d/%d outside the 16-bit fields: BuildKeyTypePayload err=%v NewKeyCertificateWithTypes err=%v", s, c, e1, e2), args)
				}
				if e3 == nil {
					bad("CertificateBuilder(sequence)~direct", "acceptance[key-type-range]", fmt.Sprintf("types %d/%d outside the 16-bit fields: CertificateBuilder.WithKeyTypes accepts them, BuildKeyTypePayload err=%v NewKeyCertificateWithTypes err=%v", s, c, e1, e2), args)
				}
				continue
			}
			want := refmodel.Cert{Type: refmodel.CertKey, Payload: refmodel.KeyCertPayload(s, c, nil)}.Bytes()
			// BuildKeyTypePayload + NewCertificateWithType
			var viaPayload []byte
			if p, err := certificate.BuildKeyTypePayload(s, c); err == nil {
				if ct, err := certificate.NewCertificateWithType(certificate.CERT_KEY, p); err == nil {
					viaPayload = ct.Bytes()
				}
			}
			if !bytes.Equal(viaPayload, want) {
				bad("BuildKeyTypePayload+NewCertificateWithType~reference", "bytes", fmt.Sprintf("types %d/%d: %s, reference %s", s, c, core.Hex(viaPayload), core.Hex(want)), args)
			}
			// builder, three call orders
			seqs := map[string]func() (*certificate.Certificate, error){
				"WithKeyTypes,Build": func() (*certificate.Certificate, error) {
					b := certificate.NewCertificateBuilder()
					if _, err := b.WithKeyTypes(s, c); err != nil {
						return nil, err
					}
					return b.Build()
				},
				"WithType(NULL),WithKeyTypes,Build": func() (*certificate.Certificate, error) {
					b := certificate.NewCertificateBuilder()
					b.WithType(certificate.CERT_NULL)
					if _, err := b.WithKeyTypes(s, c); err != nil {
						return nil, err
					}
					return b.Build()
				},
				"WithType(KEY),WithPayload(types),Build": func() (*certificate.Certificate, error) {
					b := certificate.NewCertificateBuilder()
					b.WithType(certificate.CERT_KEY)
					b.WithPayload(refmodel.KeyCertPayload(s, c, nil))
					return b.Build()
				},
				"WithPayload(types),WithType(KEY),Build": func() (*certificate.Certificate, error) {
					b := certificate.NewCertificateBuilder()
					b.WithPayload(refmodel.KeyCertPayload(s, c, nil))
					b.WithType(certificate.CERT_KEY)
					return b.Build()
				},
				"WithPayload(junk),WithKeyTypes,Build": func() (*certificate.Certificate, error) {
					b := certificate.NewCertificateBuilder()
					b.WithPayload([]byte{9, 9})
					if _, err := b.WithKeyTypes(s, c); err != nil {
						return nil, err
					}
					return b.Build()
				},
			}
			for name, f := range seqs {
				ct, err := f()
				r.Evaluations.Add(1)
				if err != nil || ct == nil || !bytes.Equal(ct.Bytes(), want) {
					var got []byte
					if ct != nil {
						got = ct.Bytes()
					}
					bad("CertificateBuilder("+name+")~direct", "bytes", fmt.Sprintf("types %d/%d: builder gives %s (err %v), direct construction %s", s, c, core.Hex(got), err, core.Hex(want)), args)
				}
			}
			// the same call history on the certificate obtained through every entry point - serialise, let the
			// caller overwrite what it was handed, serialise again - must leave them in agreement
			{
				obs := map[string]string{}
				add := func(name string, ct *certificate.Certificate, err error) {
					if err == nil && ct != nil {
						obs[name] = c19CertHistory(ct)
					}
				}
				if p, err := certificate.BuildKeyTypePayload(s, c); err == nil {
					ct, err := certificate.NewCertificateWithType(certificate.CERT_KEY, p)
					add("NewCertificateWithType", ct, err)
				}
				for name, f := range seqs {
					ct, err := f()
					add("CertificateBuilder("+name+")", ct, err)
				}
				if ct, _, err := certificate.ReadCertificate(append(append([]byte(nil), want...), 0xEE, 0xEE, 0xEE)); err == nil {
					add("ReadCertificate", ct, nil)
				}
				if kc, _, err := key_certificate.NewKeyCertificate(append(append([]byte(nil), want...), 0xEE, 0xEE, 0xEE)); err == nil && kc != nil {
					add("NewKeyCertificate", &kc.Certificate, nil)
				}
				if kc, err := key_certificate.NewKeyCertificateWithTypes(s, c); err == nil && kc != nil {
					add("NewKeyCertificateWithTypes", &kc.Certificate, nil)
				}
				ref, refName := "", ""
				for _, name := range sortedStringKeys(obs) {
					if ref == "" {
						ref, refName = obs[name], name
					} else if obs[name] != ref {
						bad(refName+"~"+name, "after-identical-call-history", fmt.Sprintf("types %d/%d: after Bytes(), RawBytes(), the caller overwriting both results, and Bytes() again: %s observes %s, %s observes %s", s, c, refName, ref, name, obs[name]), args)
						break
					}
				}
			}
			// typed constructor (known codes and experimental range only)
			if kc, err := key_certificate.NewKeyCertificateWithTypes(s, c); err == nil {
				r.Traces.Add(1)
				if !bytes.Equal(kc.Bytes(), want) || kc.SigningPublicKeyType() != s || kc.PublicKeyType() != c {
					bad("NewKeyCertificateWithTypes~direct", "bytes", fmt.Sprintf("types %d/%d: %s, direct %s", s, c, core.Hex(kc.Bytes()), core.Hex(want)), args)
				}
				// and back through the byte parser
				if kc2, rem, err := key_certificate.NewKeyCertificate(kc.Bytes()); err != nil || len(rem) != 0 || !bytes.Equal(kc2.Bytes(), want) {
					bad("NewKeyCertificateWithTypes~NewKeyCertificate", "bytes", fmt.Sprintf("types %d/%d do not survive the byte parser: %v", s, c, err), args)
				}
				r.Distinct([]byte("kcwt"), want)
			} else if refmodel.SigKnown(s) && refmodel.CryptoKnown(c) {
				bad("NewKeyCertificateWithTypes~direct", "acceptance", fmt.Sprintf("known types %d/%d rejected: %v", s, c, err), args)
			}
		}
	}
	// generic certificates: builder vs NewCertificateWithType for every type x payload menu
	payloads := [][]byte{nil, {}, {1}, {0, 7, 0, 4}, refmodel.Fill("p", 1, 40), refmodel.Fill("p", 2, 41), refmodel.Fill("p", 3, 72), refmodel.Fill("p", 4, 300)}
	for t := 0; t < 256; t++ {
		for pi, pl := range payloads {
			r.Evaluations.Add(1)
			direct, e1 := certificate.NewCertificateWithType(uint8(t), pl)
			b := certificate.NewCertificateBuilder()
			_, eT := b.WithType(uint8(t))
			b.WithPayload(pl)
			built, e2 := b.Build()
			if eT != nil {
				e2 = eT
			}
			args := map[string]string{"type": fmt.Sprint(t), "payload": core.Hex(pl)}
			if (e1 == nil) != (e2 == nil) {
				bad("CertificateBuilder(WithType,WithPayload,Build)~NewCertificateWithType", "acceptance", fmt.Sprintf("type %d payload #%d (%d bytes): direct err=%v builder err=%v", t, pi, len(pl), e1, e2), args)
			} else if e1 == nil {
				r.Traces.Add(1)
				want := refmodel.Cert{Type: t, Payload: pl}.Bytes()
				if !bytes.Equal(direct.Bytes(), built.Bytes()) || !bytes.Equal(direct.Bytes(), want) {
					bad("CertificateBuilder(WithType,WithPayload,Build)~NewCertificateWithType", "bytes", fmt.Sprintf("type %d payload %d bytes: direct %s builder %s reference %s", t, len(pl), core.Hex(direct.Bytes()), core.Hex(built.Bytes()), core.Hex(want)), args)
				}
				r.Distinct([]byte("cert"), want)
			}
		}
	}
	// strings
	for L := 0; L <= 300; L++ {
		for _, unit := range []string{"x", "é", "K", "\U0001F600", "\xff"} {
			s := strings.Repeat(unit, L/len(unit))
			r.Evaluations.Add(1)
			a, e1 := data.NewI2PString(s)
			b, e2 := data.ToI2PString(s)
			if (e1 == nil) != (e2 == nil) || !bytes.Equal(a, b) {
				bad("NewI2PString~ToI2PString", "result", fmt.Sprintf("content of %d bytes (unit %q): NewI2PString -> %d bytes err=%v, ToI2PString -> %d bytes err=%v", len(s), unit, len(a), e1, len(b), e2), map[string]string{"len": fmt.Sprint(len(s)), "unit": unit})
			}
			if e1 == nil {
				r.Distinct([]byte("str"), a)
			}
		}
	}
	// integers
	for size := -1; size <= 9; size++ {
		for _, v := range []int{-1, 0, 1, 127, 128, 255, 256, 65535, 65536, 1<<24 - 1, 1 << 24, 1<<32 - 1, 1 << 32, 1<<40 - 1, 1 << 40, 1<<48 - 1, 1 << 48, 1<<52 - 1, 1 << 52, 1<<56 - 1, 1 << 56, 1<<62 + 5, int(^uint(0) >> 1)} {
			r.Evaluations.Add(1)
			a, e1 := data.NewIntegerFromInt(v, size)
			b, e2 := data.EncodeIntN(v, size)
			var ab []byte
			if a != nil {
				ab = a.Bytes()
			}
			if (e1 == nil) != (e2 == nil) || !bytes.Equal(ab, b) {
				bad("NewIntegerFromInt~EncodeIntN", "result", fmt.Sprintf("value %d size %d: NewIntegerFromInt -> %x err=%v, EncodeIntN -> %x err=%v", v, size, ab, e1, b, e2), map[string]string{"value": fmt.Sprint(v), "size": fmt.Sprint(size)})
			}
			if e1 == nil {
				r.Distinct([]byte("int"), ab, []byte{byte(size)})
			}
		}
	}
}

func runC19(r *core.Run) {
	r.Rule = "every pair of equivalent entry points on the full C01 input space of its structure (E1 bases at bound 2/3 + operator menu + byte-walk), restricted to the pair's stated domain (declared key types for the type-specific readers, permitted types for the Destination/RouterIdentity wrappers); constructor pairs on the full product of a 21-code menu per axis, 256 certificate types x 8 payloads, every string length 0..300 x 5 character widths, integer boundary values x sizes -1..9; E4: every sequence of <= 4 (thorough 5) CertificateBuilder operations over a 15-operation alphabet (WithType x 5, WithPayload x 4, WithKeyTypes x 4 incl. negative and > 65535, Build, Validate) on a fresh builder against a last-writer-wins reference model, judged after every sequence by the direct constructor on the model's (type, payload) and by 'certificates handed out earlier do not change'. Oracle: same accept/reject, byte-identical serialisation and remainder - also after the caller's buffer has been overwritten. non-trivial = distinct inputs both entry points accepted and whose results were compared"
	o := enumOpts{BaseBound: 2, MutateBound: 1, Families: []string{"KeysAndCert", "RouterInfo", "LeaseSet", "LeaseSet2", "Certificate", "Mapping", "Lease", "Lease2", "Signature", "Fixed"}}
	if !r.Quick() {
		o.BaseBound, o.MutateBound, o.AllCuts = 3, 2, true
	}
	enumerateInputs(r, o, func(worker int, in *Input) {
		fams := map[string]bool{}
		for _, f := range parserFamiliesFor(in.Family, in.Aux) {
			fams[f] = true
		}
		for _, pr := range c19ParserPairs {
			pa, _ := adapt.ByName(pr.A)
			if fams[pa.Family] {
				c19Compare(r, pr, in)
			}
		}
		switch in.Family {
		case "Signature":
			c19Signature(r, in)
		case "Certificate":
			c19KeyCert(r, in)
		case "KeysAndCert":
			if len(in.Bytes) > 384 {
				m := *in
				m.Bytes = in.Bytes[384:]
				c19KeyCert(r, &m)
			}
		}
	})
	byteWalk(r, -1, func(worker int, fam string, b []byte) {
		in := &Input{Family: fam, Bytes: b, Class: "bytewalk"}
		switch fam {
		case "Mapping":
			c19Compare(r, c19Pair{"data.ReadMapping", "data.NewMapping", anyInput}, in)
		case "Certificate":
			c19KeyCert(r, in)
		}
	})
	c19Constructors(r)
	c19SignatureSweep(r)
	c19IntegerTwins(r)
	bd := 4
	if !r.Quick() {
		bd = 5
	}
	c19BuilderSequences(r, bd)
	r.Sample(map[string]any{"pair": "ReadKeysAndCert ~ ReadKeysAndCertX25519AndEd25519", "domain": "KEY certificate declaring 7/4"})
	r.Sample(map[string]any{"pair": "CertificateBuilder(WithPayload(junk),WithKeyTypes(7,4),Build) ~ NewKeyCertificateWithTypes(7,4)"})
}

func replayC19(r *core.Run, c core.Case) {
	switch c.Kind {
	case "parse":
		in := replayInput(c)
		name := c.Args["parser"]
		if i := strings.IndexByte(name, '~'); i > 0 {
			for _, pr := range c19ParserPairs {
				if pr.A == name[:i] && pr.B == name[i+1:] {
					c19Compare(r, pr, in)
				}
			}
		}
		if name == "keycert" {
			c19KeyCert(r, in)
		}
		if name == "sig" {
			c19Signature(r, in)
		}
	case "builderseq":
		var seq []int
		for _, f := range strings.Fields(strings.Trim(c.Args["seq"], "[]")) {
			var n int
			fmt.Sscan(f, &n)
			seq = append(seq, n)
		}
		if cl, detail := c19RunBuilderSeq(c19BuilderOps(), seq); cl != "" {
			r.Violate("C19|CertificateBuilder(sequence)~direct|"+cl, detail, c)
		}
	case "sigsweep":
		c19SignatureSweep(r)
	case "inttwins":
		c19IntegerTwins(r)
	default:
		c19Constructors(r)
	}
}

// c19CertHistory applies one fixed call history to a certificate and renders what is observable afterwards.
func c19CertHistory(ct *certificate.Certificate) (out string) {
	defer func() {
		if x := recover(); x != nil {
			out = fmt.Sprint("panic: ", x)
		}
	}()
	b1 := ct.Bytes()
	r1 := ct.RawBytes()
	for i := range b1 {
		b1[i] = 0xA5
	}
	for i := range r1 {
		r1[i] = 0xA5
	}
	t, _ := ct.Type()
	l, _ := ct.Length()
	return fmt.Sprintf("bytes=%x type=%d length=%d", ct.Bytes(), t, l)
}

func sortedStringKeys(m map[string]string) []string {
	out := make([]string, 0, len(m))
	for k := range m {
		out = append(out, k)
	}
	sort.Strings(out)
	return out
}
