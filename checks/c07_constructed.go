package checks

import (
	"bytes"
	"fmt"

	"verif/internal/adapt"
	"verif/internal/core"
	"verif/internal/gen"
	"verif/internal/refmodel"

	"github.com/go-i2p/common/destination"
	"github.com/go-i2p/common/key_certificate"
	"github.com/go-i2p/common/keys_and_cert"
	"github.com/go-i2p/common/router_identity"
	"github.com/go-i2p/crypto/ecdsa"
	"github.com/go-i2p/crypto/types"
)

// c07Constructed: identities that only the constructors can produce and the reference model's wire
// grammar cannot (a 132-byte ECDSA-P521 signing key; KeysAndCert values assembled field by field
// with missing, short or over-long padding). There is no independent encoding to compare with, so the
// oracle is the property's own equation on the library's serialisation: Hash() == SHA-256(Bytes()),
// Base32Address() == base32(SHA-256(Bytes())) + ".b32.i2p" (60 chars), Base64() decodes to Bytes(),
// and Equals / Equal <=> equal Bytes() over all pairs. SHA-256 and the codecs are refmodel's.
func c07Constructed(r *core.Run) {
	type built struct {
		name string
		dest *destination.Destination
		ri   *router_identity.RouterIdentity
	}
	var all []built
	try := func(name string, kac *keys_and_cert.KeysAndCert) {
		if kac == nil {
			return
		}
		var d *destination.Destination
		var ri *router_identity.RouterIdentity
		core.Guard(func() {
			if x, err := destination.NewDestination(kac); err == nil && x != nil {
				d = x
			}
		})
		core.Guard(func() {
			if x, err := router_identity.NewRouterIdentityFromKeysAndCert(kac); err == nil && x != nil {
				ri = x
			}
		})
		if d != nil {
			all = append(all, built{name + " -> NewDestination", d, nil})
		}
		if ri != nil {
			all = append(all, built{name + " -> NewRouterIdentityFromKeysAndCert", nil, ri})
			core.Guard(func() {
				x := ri.AsDestination()
				all = append(all, built{name + " -> NewRouterIdentityFromKeysAndCert -> AsDestination", &x, nil})
			})
		}
	}
	cryptoKeys := map[int][]byte{4: refmodel.Fill("c07c.x", 1, 32), 0: func() []byte { b := refmodel.Fill("c07c.e", 1, 256); b[0] = 0x11; return b }()}
	// (1) every signing type the crypto module has a key object for, plus P521, through NewKeysAndCert with exact padding
	sigKeys := map[int]types.SigningPublicKey{}
	for _, st := range []int{0, 1, 2, 7, 11} {
		if k, err := adapt.SigningPub(st, gen.Key(st, 771).Pub); err == nil {
			sigKeys[st] = k
		}
	}
	var p521 ecdsa.ECP521PublicKey
	copy(p521[:], refmodel.Fill("c07c.p521", 1, len(p521)))
	sigKeys[3] = p521
	for _, st := range []int{7, 0, 1, 2, 3, 11} {
		for _, ct := range []int{4, 0} {
			kc, err := key_certificate.NewKeyCertificateWithTypes(st, ct)
			if err != nil || kc == nil {
				continue
			}
			sk := sigKeys[st]
			pk, err := adapt.CryptoPub(ct, cryptoKeys[ct])
			if err != nil || sk == nil {
				continue
			}
			gap := 384 - len(cryptoKeys[ct]) - sk.Len()
			for _, pad := range []struct {
				name string
				n    int
			}{{"exact", gap}, {"nil", -1}, {"short", gap - 3}, {"long", gap + 5}, {"one", 1}} {
				var padding []byte
				if pad.n >= 0 {
					padding = refmodel.Fill("c07c.pad", uint64(st*10+ct), pad.n)
				} else if pad.n < -1 {
					continue
				}
				name := fmt.Sprintf("sig=%d crypto=%d padding=%s", st, ct, pad.name)
				var kac *keys_and_cert.KeysAndCert
				core.Guard(func() {
					if x, err := keys_and_cert.NewKeysAndCert(kc, pk, padding, sk); err == nil {
						kac = x
					}
				})
				try("NewKeysAndCert("+name+")", kac)
				// the same fields assembled as a struct literal (the fields are exported; the wrapping constructors validate)
				try("KeysAndCert{"+name+"}", &keys_and_cert.KeysAndCert{KeyCertificate: kc, ReceivingPublic: pk, Padding: padding, SigningPublic: sk})
			}
		}
	}
	r.Note("constructed_identities", int64(len(all)))
	for _, x := range all {
		r.Evaluations.Add(1)
		cs := core.Case{Kind: "constructed", Args: map[string]string{"name": x.name}}
		var b []byte
		var err error
		if pan, msg := core.Guard(func() {
			if x.dest != nil {
				b, err = x.dest.Bytes()
			} else {
				b, err = x.ri.KeysAndCert.Bytes()
			}
		}); pan || err != nil {
			r.AddNote("constructed_identities_not_serialisable", 1)
			_ = msg
			continue
		}
		sum := refmodel.SHA256(b)
		cls := "constructed"
		if x.dest != nil {
			var h [32]byte
			var a, b64 string
			var e1, e2, e3 error
			if pan, msg := core.Guard(func() {
				hh, e := x.dest.Hash()
				h, e1 = [32]byte(hh), e
				a, e2 = x.dest.Base32Address()
				b64, e3 = x.dest.Base64()
			}); pan {
				r.Violate("C07|hash|"+cls+"|panics", fmt.Sprintf("%s: Hash/Base32Address/Base64 panics: %s", x.name, msg), cs)
				continue
			}
			if e1 != nil || h != sum {
				r.Violate("C07|hash|"+cls, fmt.Sprintf("%s: Hash() = %x (err %v), SHA-256 of its %d serialised bytes = %x", x.name, h[:8], e1, len(b), sum[:8]), cs)
			}
			if want := refmodel.B32Encode(sum[:], false) + ".b32.i2p"; e2 != nil || a != want || len(a) != 60 {
				r.Violate("C07|base32|"+cls, fmt.Sprintf("%s: Base32Address() = %q (err %v), base32 of SHA-256 of its serialised bytes gives %q", x.name, a, e2, want), cs)
			}
			if dec, v := refmodel.B64Decode(b64); e3 != nil || v != refmodel.Accept || !bytes.Equal(dec, b) {
				r.Violate("C07|base64|"+cls, fmt.Sprintf("%s: Base64() does not decode back to its serialised bytes (err %v)", x.name, e3), cs)
			}
		}
		r.Traces.Add(1)
		r.Distinct([]byte("constructed"), b)
	}
	// equality <=> byte equality over all pairs of the same kind
	var vals []built
	var bs [][]byte
	for _, x := range all {
		var b []byte
		var err error
		if pan, _ := core.Guard(func() {
			if x.dest != nil {
				b, err = x.dest.Bytes()
			} else {
				b, err = x.ri.KeysAndCert.Bytes()
			}
		}); pan || err != nil {
			continue
		}
		vals = append(vals, x)
		bs = append(bs, b)
	}
	for i := range vals {
		for j := range vals {
			same := bytes.Equal(bs[i], bs[j])
			var eq, judged bool
			core.Guard(func() {
				if vals[i].dest != nil && vals[j].dest != nil {
					eq, judged = vals[i].dest.Equals(vals[j].dest), true
				} else if vals[i].ri != nil && vals[j].ri != nil {
					eq, judged = vals[i].ri.Equal(vals[j].ri), true
				}
			})
			if judged {
				r.Evaluations.Add(1)
				if eq != same {
					r.Violate("C07|equals|constructed", fmt.Sprintf("%s vs %s: serialisations equal = %v but Equals/Equal = %v", vals[i].name, vals[j].name, same, eq),
						core.Case{Kind: "constructed", Args: map[string]string{"name": vals[i].name + " ~ " + vals[j].name}})
				}
			}
		}
	}
}
