package checks

import (
	"bytes"
	"fmt"
	"sort"
	"strings"

	"verif/internal/adapt"
	"verif/internal/core"
	"verif/internal/refmodel"

	"github.com/go-i2p/common/data"
)

func init() { register("C11", runC11, replayC11) }

var c11Menu = []string{"", "a", "b", "ab", "=", ";", "a=b;", "\x00", "\xff", strings.Repeat("x", 255), "é", "K"}

func c11Case(m map[string]string, order []string) core.Case {
	var sb strings.Builder
	for _, k := range order {
		fmt.Fprintf(&sb, "%x=%x;", k, m[k])
	}
	return core.Case{Kind: "map", Args: map[string]string{"pairs": sb.String()}}
}

func c11Parse(s string) (map[string]string, []string) {
	m := map[string]string{}
	var order []string
	for _, p := range strings.Split(s, ";") {
		if p == "" {
			continue
		}
		kv := strings.SplitN(p, "=", 2)
		k, v := string(core.UnHex(kv[0])), string(core.UnHex(kv[1]))
		m[k] = v
		order = append(order, k)
	}
	return m, order
}

// c11Check: one map, one insertion order (order lists the keys; nil = use GoMapToMapping).
func c11Check(r *core.Run, m map[string]string, order []string, repeats int) {
	r.Evaluations.Add(1)
	keys := make([]string, 0, len(m))
	for k := range m {
		keys = append(keys, k)
	}
	sort.Strings(keys)
	var ref refmodel.Mapping
	payload := 0
	within := true
	for _, k := range keys {
		ref = append(ref, refmodel.Pair{K: []byte(k), V: []byte(m[k])})
		payload += len(k) + len(m[k]) + 4
		if len(k) > 255 || len(m[k]) > 255 {
			within = false
		}
	}
	if payload > 65535 {
		within = false
	}
	shape := fmt.Sprintf("n=%d", len(m))
	if len(m) > 1000 {
		shape = "n>1000" // one class: the parser's pair-count limit (data.MAX_MAPPING_PAIRS) that the encoders do not share
	}
	cs := c11Case(m, keys)
	build := func() (*data.Mapping, error) {
		if order == nil {
			return data.GoMapToMapping(m)
		}
		vals := data.MappingValues{}
		for _, k := range order {
			ks, e1 := data.ToI2PString(k)
			vs, e2 := data.ToI2PString(m[k])
			if e1 != nil || e2 != nil {
				return nil, fmt.Errorf("string too long")
			}
			vals = append(vals, [2]data.I2PString{ks, vs})
		}
		return data.ValuesToMapping(vals)
	}
	entry := "GoMapToMapping"
	if order != nil {
		entry = "ValuesToMapping"
	}
	if order != nil && within && len(order) > 0 {
		// the same pairs in THIS wire order fed to the parser: whatever parses without error re-serialises
		// to the bytes it was read from - on the first Data() call and on every later one
		var wireM refmodel.Mapping
		for _, k := range order {
			wireM = append(wireM, refmodel.Pair{K: []byte(k), V: []byte(m[k])})
		}
		wire := refmodel.MappingBytes(wireM)
		if pm, rem, errs := data.ReadMapping(wire); len(errs) == 0 {
			r.Evaluations.Add(1)
			d1 := append([]byte(nil), pm.Data()...)
			d2 := pm.Data()
			if len(rem) != 0 || !bytes.Equal(d1, wire) || !bytes.Equal(d2, wire) {
				r.Violate("C11|parsed-without-error-reserialises-differently|data.ReadMapping[wire-order]", fmt.Sprintf("ReadMapping(%s) reports no error, Data() = %s, second Data() = %s, remainder %d", core.Hex(wire), core.Hex(d1), core.Hex(d2), len(rem)), cs)
			}
			r.Distinct([]byte("wire"), wire[:min(len(wire), 200)])
		}
	}
	mp, err := build()
	if !within {
		if err == nil {
			out := mp.Data()
			r.Violate("C11|beyond-limit-accepted|"+entry, fmt.Sprintf("%s accepted a map beyond the limits (payload %d bytes, %d pairs) and produced %d bytes with size field %x", entry, payload, len(m), len(out), out[:min(2, len(out))]), cs)
		}
		r.Distinct([]byte("limit"), []byte(cs.Args["pairs"][:min(64, len(cs.Args["pairs"]))]), []byte{byte(payload >> 8), byte(payload)})
		return
	}
	if err != nil || mp == nil {
		r.Violate("C11|within-limit-rejected|"+entry+"|"+shape, fmt.Sprintf("%s rejected a map within the limits (payload %d): %v", entry, payload, err), cs)
		return
	}
	out := mp.Data()
	want := refmodel.MappingBytes(ref)
	r.Traces.Add(1)
	if !bytes.Equal(out, want) {
		cl := "encoding-differs-from-reference"
		if len(out) >= 2 && int(refmodel.U(out[:2])) != len(out)-2 {
			cl = "size-field-wrong"
		} else if len(out) == len(want) {
			cl = "not-sorted-by-key"
		}
		r.Violate("C11|"+cl+"|"+entry, fmt.Sprintf("%s(%d pairs) -> %s, reference (sorted by key, size = bytes that follow) %s", entry, len(m), core.Hex(out), core.Hex(want)), cs)
	}
	for i := 1; i < repeats; i++ {
		mp2, err := build()
		if err != nil || !bytes.Equal(mp2.Data(), out) {
			r.Violate("C11|nondeterministic|"+entry, fmt.Sprintf("%s produced different bytes for the same map on repeat %d", entry, i), cs)
			break
		}
	}
	back, rem, errs := data.ReadMapping(out)
	if len(errs) != 0 || len(rem) != 0 {
		r.Violate("C11|own-encoding-does-not-parse-cleanly|"+shape, fmt.Sprintf("ReadMapping(%s): %d errors (first: %v), remainder %d bytes", core.Hex(out), len(errs), firstErr(errs), len(rem)), cs)
		return
	}
	gm, err := back.ToGoMap()
	if err != nil || len(gm) != len(m) {
		r.Violate("C11|roundtrip-map-differs|"+shape, fmt.Sprintf("map with %d entries came back with %d entries (err %v); bytes %s", len(m), len(gm), err, core.Hex(out)), cs)
		return
	}
	for k, v := range m {
		if gv, ok := gm[k]; !ok || gv != v {
			r.Violate("C11|roundtrip-map-differs|"+shape, fmt.Sprintf("entry %q=%q came back as %q (present=%v); bytes %s", k, v, gv, ok, core.Hex(out)), cs)
			return
		}
	}
	// history: the caller overwrites the encoding it was handed; the mapping encodes as before
	{
		d1 := mp.Data()
		for i := range d1 {
			d1[i] = 0xA5
		}
		if d2 := mp.Data(); !bytes.Equal(d2, want) {
			r.Violate("C11|encoding-changes-after-the-caller-overwrote-an-earlier-result|"+entry, fmt.Sprintf("%s(%d pairs): after the caller overwrote the slice Data() had returned, Data() gives %s, reference %s", entry, len(m), core.Hex(d2), core.Hex(want)), cs)
		}
	}
	if re := (&back).Data(); !bytes.Equal(re, out) {
		r.Violate("C11|reparse-reserialise-differs|"+shape, fmt.Sprintf("%s -> parse -> %s", core.Hex(out), core.Hex(re)), cs)
	}
	r.Distinct(out)
}

func firstErr(errs []error) error {
	if len(errs) == 0 {
		return nil
	}
	return errs[0]
}

func permutations(xs []string, f func([]string)) {
	var rec func(k int)
	rec = func(k int) {
		if k == len(xs) {
			f(append([]string(nil), xs...))
			return
		}
		for i := k; i < len(xs); i++ {
			xs[k], xs[i] = xs[i], xs[k]
			rec(k + 1)
			xs[k], xs[i] = xs[i], xs[k]
		}
	}
	rec(0)
}

func runC11(r *core.Run) {
	r.Level = "exploration"
	r.Rule = "all Go maps with <= 3 entries over a 12-string menu (empty, 1-char, '=', ';', NUL, 0xff, 255 bytes, multi-byte UTF-8) and all pairs and triples of a 13-key encoding-sensitive menu (invalid UTF-8, U+E000 vs U+10000, U+FFFD, case, NFC vs NFD) through GoMapToMapping (repeated 4x/16x for iteration order) and through ValuesToMapping in EVERY insertion order (n<=3; n=4,5 for selected key sets); size-limit family with total payload 65,520..65,550 and strings of 254/255/256 bytes; byte-walk of ReadMapping; every insertion order also as WIRE order through ReadMapping (error-free parse => Data() == input, twice). Oracle: bytes == independent reference encoding of the key-sorted map, size field, clean re-parse, same Go map, reject beyond limits. non-trivial = distinct encodings produced within limits and checked, plus distinct limit cases"
	r.Assume("GoMapToMapping's dependence on Go map iteration order cannot be steered; every insertion order of the same pairs is enumerated through ValuesToMapping instead, repeats are a secondary guard")
	n := len(c11Menu)
	reps := 4
	maxN := 3
	if !r.Quick() {
		reps = 16
	}
	// n = 0, 1
	c11Check(r, map[string]string{}, nil, reps)
	c11Check(r, map[string]string{}, []string{}, 1)
	for k := 0; k < n; k++ {
		for v := 0; v < n; v++ {
			m := map[string]string{c11Menu[k]: c11Menu[v]}
			c11Check(r, m, nil, 1)
			c11Check(r, m, []string{c11Menu[k]}, 1)
		}
	}
	// n = 2, 3: sharded on the first key
	core.ParallelFor(n, func(_, k1 int) {
		for k2 := k1 + 1; k2 < n; k2++ {
			for v1 := 0; v1 < n; v1++ {
				for v2 := 0; v2 < n; v2++ {
					m := map[string]string{c11Menu[k1]: c11Menu[v1], c11Menu[k2]: c11Menu[v2]}
					c11Check(r, m, nil, reps)
					permutations([]string{c11Menu[k1], c11Menu[k2]}, func(o []string) { c11Check(r, m, o, 1) })
				}
			}
			if maxN < 3 {
				continue
			}
			for k3 := k2 + 1; k3 < n; k3++ {
				for v1 := 0; v1 < n; v1++ {
					for v2 := 0; v2 < n; v2++ {
						for v3 := 0; v3 < n; v3 += 1 {
							if r.Quick() && (v1+v2+v3)%3 != 0 && !(v1 == 0 || v2 == 0 || v3 == 0) {
								continue // quick: one third of the value triples plus every triple containing an empty value
							}
							m := map[string]string{c11Menu[k1]: c11Menu[v1], c11Menu[k2]: c11Menu[v2], c11Menu[k3]: c11Menu[v3]}
							c11Check(r, m, nil, 1)
							if v1 == v2 && v2 == v3 { // insertion orders: values irrelevant to ordering, do them once per key set
								permutations([]string{c11Menu[k1], c11Menu[k2], c11Menu[k3]}, func(o []string) { c11Check(r, m, o, 1) })
							}
						}
					}
				}
			}
		}
	})
	// n = 4 and 5: all insertion orders for selected key sets
	for _, ks := range [][]string{{"a", "b", "ab", ""}, {"b", "a", ";", "="}, {"\xff", "\x00", "a", "é"}, {"d", "c", "b", "a", "e"}, {"a", "aa", "aaa", "b", ""}} {
		m := map[string]string{}
		for i, k := range ks {
			m[k] = c11Menu[i%4]
		}
		permutations(append([]string(nil), ks...), func(o []string) { c11Check(r, m, o, 1) })
		c11Check(r, m, nil, 32)
	}
	// encoding-sensitive keys: byte strings whose order differs between comparators (bytes / UTF-16 code units / runes
	// with invalid bytes replaced / case folding / Unicode normalisation). Keys are byte strings and the canonical
	// order is the byte order: every pair and triple of the menu in every insertion order, and through the Go map
	// with repeats (a comparator under which two distinct keys tie leaves the order to map iteration).
	{
		enc := []string{"\xfe", "\xff", "\x80", "\xc2\x80", "\uE000", "\uFFFD", "\U00010000", "a\xff", "a\xfe", "Z", "a", "\u00e9", "e\u0301"}
		for i := 0; i < len(enc); i++ {
			for j := i + 1; j < len(enc); j++ {
				m := map[string]string{enc[i]: "1", enc[j]: "2"}
				permutations([]string{enc[i], enc[j]}, func(o []string) { c11Check(r, m, o, 1) })
				c11Check(r, m, nil, 16)
				for k := j + 1; k < len(enc); k++ {
					m3 := map[string]string{enc[i]: "1", enc[j]: "2", enc[k]: "3"}
					permutations([]string{enc[i], enc[j], enc[k]}, func(o []string) { c11Check(r, m3, o, 1) })
					c11Check(r, m3, nil, 4)
				}
			}
		}
	}
	// size-limit family: 127 pairs of 255/255 (514 bytes each = 65278) + one adjustable pair
	baseMap := func() map[string]string {
		m := map[string]string{}
		for i := 0; i < 127; i++ {
			k := []byte(strings.Repeat("k", 255))
			k[0], k[1] = byte('A'+i/26), byte('a'+i%26)
			m[string(k)] = strings.Repeat("v", 255)
		}
		return m
	}
	var limitCases []map[string]string
	for P := 65520; P <= 65550; P++ {
		sz := P - 65278 - 4 // key+value bytes of the adjustable pair
		for _, kl := range []int{1, sz / 2, sz - 1} {
			if kl < 1 || kl > 255 || sz-kl < 0 || sz-kl > 255 {
				continue
			}
			m := baseMap()
			m[strings.Repeat("z", kl)] = strings.Repeat("w", sz-kl)
			limitCases = append(limitCases, m)
		}
	}
	core.ParallelFor(len(limitCases), func(_, i int) {
		m := limitCases[i]
		c11Check(r, m, nil, 1)
		keys := make([]string, 0, len(m))
		for k := range m {
			keys = append(keys, k)
		}
		sort.Sort(sort.Reverse(sort.StringSlice(keys)))
		c11Check(r, m, keys, 1)
	})
	c11Derived(r)
	// delimiter-heavy family: strings are length-prefixed, so ';' and '=' are ordinary content - in bulk, too
	// (1..8 pairs whose keys and values consist of 255, 200 or 3 delimiter bytes)
	for n := 1; n <= 8; n++ {
		for _, fill := range []string{";", "=", ";=", "\x00"} {
			for _, l := range []int{255, 200, 3} {
				m := map[string]string{}
				for i := 0; i < n; i++ {
					k := strings.Repeat(fill, l)[:l-1] + string(rune('a'+i))
					m[k] = strings.Repeat(fill, l)[:l]
				}
				c11Check(r, m, nil, 1)
			}
		}
	}
	// pair-count family: many small pairs (far below 65,535 bytes), with the greatest key's pair of ordinary
	// length and as the shortest possible pair (one-byte key, empty value: the parser's short-tail path)
	var countCases []map[string]string
	for _, n := range []int{256, 998, 999, 1000, 1001, 1002, 1500, 4000} {
		for _, shortLast := range []bool{false, true} {
			m := map[string]string{}
			for i := 0; i < n; i++ {
				m[fmt.Sprintf("k%05d", i)] = "v"
			}
			if shortLast {
				delete(m, fmt.Sprintf("k%05d", n-1))
				m["z"] = ""
			}
			countCases = append(countCases, m)
		}
	}
	core.ParallelFor(len(countCases), func(_, i int) {
		m := countCases[i]
		c11Check(r, m, nil, 1)
		keys := make([]string, 0, len(m))
		for k := range m {
			keys = append(keys, k)
		}
		sort.Sort(sort.Reverse(sort.StringSlice(keys)))
		c11Check(r, m, keys, 1)
	})
	for _, kl := range []int{254, 255, 256, 300} {
		for _, vl := range []int{0, 254, 255, 256} {
			m := map[string]string{strings.Repeat("k", kl): strings.Repeat("v", vl)}
			c11Check(r, m, nil, 1)
			c11Check(r, m, []string{strings.Repeat("k", kl)}, 1)
		}
	}
	// multi-byte content at the byte limit (rune count < byte count)
	for _, s := range []string{strings.Repeat("é", 127), strings.Repeat("é", 128), strings.Repeat("\U0001F600", 63), strings.Repeat("\U0001F600", 64)} {
		c11Check(r, map[string]string{s: "v"}, nil, 1)
		c11Check(r, map[string]string{"k": s}, nil, 1)
	}
	// byte-walk: parsed without error => Data() == consumed bytes (shared with C01)
	byteWalk(r, -1, func(worker int, fam string, b []byte) {
		if fam != "Mapping" {
			return
		}
		in := &Input{Family: fam, Bytes: b, Class: "bytewalk"}
		for _, p := range adapt.ByFamily("Mapping") {
			var res adapt.Parsed
			if pan, _ := core.Guard(func() { res = p.Fn(b) }); pan || !res.OK {
				continue
			}
			r.Evaluations.Add(1)
			ser, _ := res.Ser()
			if len(res.Rem) > len(b) || !bytes.Equal(ser, b[:len(b)-len(res.Rem)]) {
				r.Violate("C11|parsed-without-error-reserialises-differently|"+p.Name, fmt.Sprintf("%s: %s -> %s", p.Name, core.Hex(b), core.Hex(ser)), in.Case(p.Name))
			}
		}
	})
	r.Sample(map[string]any{"map": map[string]string{"a": ""}, "bytes": "0005 01 61 3d 00 3b"})
	r.Sample(map[string]any{"insertion_orders": "all 6 of {a,b,ab}", "entry": "ValuesToMapping"})
	r.Sample(map[string]any{"limit": "127 x (255/255) + pair sized so that payload = 65535 (accept) / 65536 (reject)"})
}

func replayC11(r *core.Run, c core.Case) {
	if c.Kind == "derived" {
		c11Derived(r)
		return
	}
	if c.Kind == "map" {
		m, order := c11Parse(c.Args["pairs"])
		c11Check(r, m, nil, 8)
		permutations(order, func(o []string) {
			if len(o) <= 5 {
				c11Check(r, m, o, 1)
			}
		})
		return
	}
	if p, ok := adapt.ByName(c.Args["parser"]); ok {
		c01Check(r, 0, p, replayInput(c))
	}
}
