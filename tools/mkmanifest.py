#!/usr/bin/env python3
"""Regenerates /verif/MANIFEST.json from the table below (single source of truth for the interface)."""
import json, subprocess
CHECKS = {
 # id: (level category, technique, level text, level note)
 "C01": ("model_checking", "deviation-bounded exhaustive DFS (E1) over structure generators + complete menu of structure-aware byte operators + exhaustive short-string walk (E3); explicit-state exploration of HISTORIES of parse operations on live values (E4: all ordered pairs / triples of items, final buffer-recycle step), invariant 'every live value serialises to the bytes it consumed' after every step; every execution runs the real parser and serialiser",
         "All encodings within 2 (thorough 3) deviations of a valid structure, each expanded by every single structure-aware mutation, and all strings over reduced alphabets up to length 6-7 for the small parsers, are parsed by the real code; for every accepted input the serialisation is compared with the consumed bytes. Exhaustive inside the stated bounds.",
         "Small-scope hypothesis: a defect needing more simultaneous deviations than the bound, or byte values outside the menus, is not seen. Acceptance rule for error-list parsers as stated in DESIGN.md."),
 "C02": ("model_checking", "deviation-bounded exhaustive DFS (E1) over legal model values of an independent reference model; every model trace is replayed against the implementation in both directions (model bytes -> real parser -> accessors; real constructors -> bytes -> reference decoder); plus result-independence histories (H1/H2, E4 depth 4) over every exported accessor of parsed values, with the caller overwriting the results it was handed",
         "Every model value within 2 (thorough 3) legal variations of the default of every structure is emitted by the independent model and validated against the real parser, and pushed through the real constructors and validated by the independent strict decoder. A consistent read/write-side change (swapped fields, moved key, dropped prefix) is caught because the reference shares no code with the library.",
         "Trusts refmodel (written from the 0.9.67 layouts; MetaLeaseSet per the repository's documented layout). Known findings: LEASESET2_MIN_SIZE / META_LEASESET_MIN_SIZE."),
 "C03": ("model_checking", "same exhaustive input space as C01 with truncation at every offset and appended-byte menus; oracles: suffix remainder, reference-decoder extent, append invariance (every appended length 1..300 on default bases), no accepted proper prefix",
         "Every cut point of every base within the deviation bound, every appended byte for small structures, and the mutation menu; consumed length compared against an independent strict decoder (refmodel).",
         "refmodel strict decoders define the declared extent; known finding: RouterInfo peer_size != 0."),
 "C04": ("model_checking", "exhaustive feeding of the C01 input space to every parser (own family: all inputs; other families: all bases and all mutants of default bases), all 65,536 type codes for type-parameterised functions, reflective invocation of every exported method with argument menus; recover() + watchdog",
         "Every execution in the bounded space is run to completion under recover(); a panic anywhere or a call exceeding the watchdog is a violation with a replayable input.",
         "Environment menu {silent, debug-level logging} explored for parsers and methods (a call that never returns ends the run with C04|hang via the per-call watchdog). No-hang: deterministic step-count bound steps <= 30000 + 600*len(input) measured on the instrumented (overlay) build in a single-threaded pass; the 120 s per-call watchdog is only a backstop."),
 "C14": ("model_checking", "E1 over constructor argument tuples x single-defect menu (explicit-state: constructor -> Validate -> Bytes -> Read -> Bytes chains on live values), plus the parser-output side over the C01 input space",
         "Every model value within the deviation bound is combined with every documented structural defect (and 'none'); the chain constructor/Validate/Bytes/parse is executed on the real code and the three inclusion clauses are checked. Every parser-accepted value that validates must round-trip cleanly.",
         "Known findings record constructor/validator drifts pinned by the repository's own tests (NewOfflineSignature expires=0, NewKeysAndCert nil keys, NewRouterInfo)."),
 "C15": ("exploration", "exhaustive sweep: 8 published values x all 65,536 offsets x 3 structures, boundary sets for every other time field, exhaustive small lease-date tuples and permutations; oracle math/big on raw fields",
         "The 16-bit offset axis is covered completely for every boundary published value; lease-set extremum over all tuples of 1..6 dates from a 3-value menu, all permutations of 4 dates and every extremum position among 16.",
         "IsExpired is judged on every swept value with a one-day margin around the wall clock (exact expiry <= now-1d => expired, >= now+1d => not), with and without OFFLINE_KEYS."),
 "C16": ("model_checking", "E1 over LeaseSet2 values x key pairs x cookies under a deterministic rand.Reader; exhaustive tampering of every ciphertext byte; exhaustive product for blinding (types x secrets x instants x zones x factors) against an independent edwards25519 computation",
         "Every byte position of the selected ciphertexts is modified (8 bit flips; thorough: all 255 values) and must be rejected with a nil value; every (destination type, secret, instant, zone) tuple is blinded and compared with A + alpha*B computed independently.",
         "Also plaintext lengths up to the largest LeaseSet2 that fits (65,475 bytes), unusual instants and unusual Ed25519 point encodings. alpha derivation (HKDF) is trusted from go-i2p/crypto; AEAD/X25519 primitives trusted."),
 "C17": ("exploration", "exhaustive product of host x port x key-variant x caps menus through constructor and parser paths, against independent three-valued IP/port recognisers; per entry a call history (result kept / caller overwrites its result / fresh lookup); plus bounded-exhaustive string spaces: every decimal port 0..70000 in four spellings, every string up to length 4 (thorough 7 / 6) over an 8-symbol port alphabet and a 12-symbol host alphabet, every dotted quad over a 13-value octet menu",
         "Full product of a 50-host and 34-port menu plus key variants and caps; every static-key/IV length 0..40.",
         "Strings outside the menus are not enumerated; Unspecified forms only bound by the consistency clauses."),
 "C18": ("model_checking", "stateless preemption-bounded exhaustive exploration of thread interleavings of the REAL code under a hand-written cooperative scheduler (statement-level yield points inserted into every library file by an AST instrumenter applied as a go build -overlay), with deep snapshots of receiver graph + all package-level variables; plus exhaustive first-operation histories on freshly built copies (step 0), a per-statement mutation analysis and a separate free-running -race pass",
         "Step 0: for every value and every operation i a fresh copy runs i first, then the whole operation set; every answer must equal the one given when that operation is itself the first call (idempotent writes of read-only operations). For every structure type, every unordered pair of read-only operations on one shared value is run under every schedule with at most 1 preemption (2 where an operation was seen writing; thorough: 2 everywhere + triples); each schedule must reproduce the solo results and leave the shared snapshot unchanged. Step 1 hashes the shared snapshot at every statement of each operation, so even a transient write-and-restore is a violation. The race detector pass catches same-value writes the value oracle cannot see.",
         "Statement-level atomicity, sequential consistency; go-i2p/crypto and logrus internals are atomic; the -race pass is sampling (secondary guard). No hook is committed to /repo: the instrumentation is regenerated from the working tree at every run."),
 "C19": ("model_checking", "differential exhaustive exploration: every pair of equivalent entry points run on the whole bounded input space (E1 + operators + byte-walk) and on the full product of constructor argument menus; builder call sequences enumerated; all signature constructors swept over every type code -2..65537",
         "For each of 27 parser pairs and 6 constructor pairs, both entry points are executed on every input in the bounded space that lies in the pair's stated domain and must agree on acceptance, serialisation and remainder.",
         "Domains: declared key types for type-specific readers, permitted types for wrappers; builder compared on codes <= 65535."),
 "C20": ("model_checking", "exhaustive reflection over every exported type x zero receivers x argument-free methods, plus explicit-state exploration of partial values: every (base, cut point, parser) triple's returned-with-error value x every argument-free method",
         "The type list is regenerated from /repo's AST at every run, so new types/methods are included automatically; partial values are produced by truncating every base at every field boundary (thorough: every offset).",
         "Partial values also from every structure-aware mutation of the default bases; both settings of the logging environment {silent, debug}. nil pointers returned with an error are not called through; mutating methods excluded."),
 "C05": ("model_checking", "E1 over signed model structures x exhaustive adversarial derivations (forgery constructions, full structure-aware operator menu, a bit flip in every byte; buffer-reuse history for the structures C08 lists); every trace is executed by the real parser+verifier and judged by an independent verifier over the received bytes",
         "For every signed base within the deviation bound, every derivation in the menu is produced and run through the library; whenever the library reports success the independent VerifyRaw must agree. Positive controls are counted (vacuity is visible).",
         "Assumes unforgeability of the primitives: decides the verification logic (which key, which bytes, which prefix, authorisation of transient keys), not cryptanalysis."),
 "C06": ("model_checking", "E1 over constructor argument tuples (model values within the deviation bound, all private-key representations, all insertion orders of option sets) driven through the real signing constructors; four-step oracle incl. an independent verifier",
         "Every value the signing constructors build in the bounded argument space must verify, survive Bytes()+parse with empty remainder, verify again, and be accepted by the independent verifier.",
         "Also explicit-state exploration of construction HISTORIES (all ordered pairs / core triples of constructor calls; every read-only method between construction and re-verification). Known findings: ECDSA keys cannot be verified by go-i2p/crypto (third party); LEASESET2_MIN_SIZE."),
 "C07": ("model_checking", "E1 over the identity generator x every API path x every single-byte variant (all positions), constructor-only identities (P-521, field-assembled), and explicit-state exploration of all call sequences (<= 3, thorough 5) over the hashing entry points incl. failing readers, and field-edit histories (copy-and-edit / in-place edit of an identity, both serialisation orders), against SHA-256 / independent base32+base64 codecs",
         "Every identity within the deviation bound through 8 API paths; for each, every byte position is modified (two values) and hash/address/equality re-evaluated. Exhaustive over positions and paths for the enumerated identities.",
         "SHA-256 from the standard library; base codecs from refmodel."),
 "C08": ("model_checking", "E1 over accepted encodings x overwrite histories on live parsed values (whole buffer, each region, each copy-documented accessor result), judged by a deep reflect+unsafe snapshot of the value graph",
         "Every accepted encoding within the deviation bound of every listed structure is parsed from a private buffer; after each overwrite history the deep snapshot (all reachable bytes, unexported fields) and the serialisation must be unchanged. The list of copy-documented accessors is rebuilt from /repo's doc comments at every run.",
         "Mappings of LeaseSet2/MetaLeaseSet are outside the property and skipped by type."),
 "C09": ("model_checking", "explicit enumeration of (API path x type pair): 16 paths x full product of known+boundary codes, plus all 65,536 codes per axis on the reader paths; oracle = independent prohibited-type table",
         "All paths that can yield a Destination/RouterIdentity are driven with every known and boundary type pair; each axis is swept over the whole 16-bit space for the reader paths. A path that starts skipping the policy is reported with the path name.",
         "Declared types are read from the identity's own wire bytes as well as from its accessors; history paths: identities re-observed after blinding / AsDestination, certificate bytes rewritten through an accessor's slice, CertificateBuilder reuse. The path list is hand-maintained (registry scan reports new byte-consuming entry points in C04's evidence)."),
 "C10": ("exploration", "exhaustive sweep of all 65,536 type codes through every size lookup and behavioural table, against an independent spec table",
         "Every one of the 65,536 signing and crypto codes is pushed through all lookups and length-dependent parsers; all supported pairs x 3 fills for the block layout, constructor padding of every length 0..400, and keys / padding replaced after a first serialisation (the block follows the current fields). Exhaustive over the stated domain, so agreement is decided, not sampled.",
         "Also one certificate object stepped through all codes (exported type fields) and result-independence histories of the size accessors. Trusts refmodel/tables.go (spec table) and the Go toolchain."),
 "C11": ("exploration", "exhaustive enumeration of all small Go maps over a string menu, every insertion order, the size-limit family and a byte-walk, against an independent reference encoder",
         "Every map with <= 3 entries over a 12-string menu, every insertion order of the pair list (n <= 5), payload sizes 65,520..65,550 and string lengths 254/255/256; exhaustive inside those domains.",
         "Pair-count family 256..4000 pairs (known finding: the parser's MAX_MAPPING_PAIRS); histories of mappings derived from a parsed mapping's strings. Go map iteration order cannot be steered (repeats are a secondary guard); strings outside the menu are not enumerated."),
 "C12": ("exploration", "exhaustive/boundary enumeration of (value,width), dates and string lengths against a math/big reference; explicit-state exploration of all call sequences (<= 3, thorough 4) over 56 primitive operations with earlier results re-compared after every step",
         "Widths 1-2 exhaustive, widths 3-8 boundary sets, every size -2..10, all 65,536 uint16/int16, every string length 0..300 and every (declared,actual) reader pair.",
         "Go int is 64-bit; random interior values of wide integers are not enumerated (boundary sets only)."),
 "C13": ("exploration", "exhaustive enumeration of short byte strings / short texts against a bit-level reference codec; explicit-state exploration of all call sequences (<= 3) over 46 codec operations incl. 'caller overwrites its results'",
         "All byte strings up to length 2 (3 in thorough), all texts up to length 2 over 256 symbols, substitution of every byte value at every position of valid blocks, all texts up to length 8 over reduced alphabets, and the documented size limits +-1.",
         "Reference codec refmodel/base.go; lenient forms (non-zero trailing bits etc.) only constrained on value."),
}
def main():
    checks=[]
    for cid in sorted(CHECKS):
        cat,tech,text,note=CHECKS[cid]
        checks.append({
          "property_id":cid,
          "quick_cmd":f"./vrun {cid} quick",
          "thorough_cmd":f"./vrun {cid} thorough",
          "evidence_file":f"/verif/evidence/{cid}.json",
          "replay_cmd_template":"./vrun replay {path}",
          "engine":"vcheck",
          "level_claimed":{"category":cat,"text":text,"design_ref":f"DESIGN.md section 5 ({cid})"},
          "level_note":note,
          "technique":tech,
        })
    props=[json.loads(l)["id"] for l in open("/verif/properties.jsonl")]
    na=[{"property_id":p,"reason":"check not built yet (planned: bounded exhaustive exploration, see DESIGN.md section 5); not claimed until it runs clean"} for p in props if p not in CHECKS]
    fixes=subprocess.run(["git","-C","/repo","log","--format=%h %s","bc88f91..HEAD"],capture_output=True,text=True).stdout.strip().splitlines()
    m={
     "version":1,
     "setup_cmd":"cd /verif && export VERIF_ROOT=/verif GOFLAGS=-mod=mod GOPROXY=off && unset GOSUMDB GOTOOLCHAIN && mkdir -p bin evidence replays && go run ./tools/genregistry && go build -o bin/vcheck ./cmd/vcheck && go run ./tools/instr && go build -tags vinstr -overlay .build/instr/overlay.json -o bin/vcheck18 ./cmd/vcheck && go build -race -o bin/vcheck_race ./cmd/vcheck && test -z \"$(go list -deps ./internal/refmodel | grep go-i2p)\" && go test ./internal/choose/ ./internal/snap/",
     "hooks":{
       "guard":"none (no hook is committed into /repo: instrumentation is generated from the working tree at check time and applied with go build -overlay)",
       "enable":"checks build /repo's current working tree directly (replace directive in /verif/go.mod); C18's instrumented build uses -overlay generated under /verif/.build",
       "baseline_off_cmd":"/verif/tools/baseline.sh",
       "source_commits":[f.split()[0] for f in fixes],
       "add_only":True,
     },
     "engines":[
       {"name":"choose","path":"/verif/internal/choose","serves_properties":[],"kind_free_text":"stateless deviation-bounded exhaustive DFS over nondeterministic choices (E1)"},
       {"name":"refmodel","path":"/verif/internal/refmodel","serves_properties":sorted(CHECKS),"kind_free_text":"independent reference model of the I2P 0.9.67 structures, tables, codecs and signature schemes"},
       {"name":"instr+vsched","path":"/verif/tools/instr","serves_properties":["C18"],"kind_free_text":"AST instrumenter (yield point before every statement, package-level variable registry) + cooperative scheduler + preemption-bounded DFS; overlay build, /repo untouched"},
       {"name":"snap","path":"/verif/internal/snap","serves_properties":["C08","C18"],"kind_free_text":"deep reflect+unsafe snapshot of value graphs (unexported fields, spare slice capacity)"},
       {"name":"vcheck","path":"/verif/cmd/vcheck","serves_properties":sorted(CHECKS),"kind_free_text":"driver: rebuilds against /repo's working tree, runs one property's exploration, writes evidence and replay files"},
     ],
     "checks":checks,
     "not_applicable":na,
     "notes":"source_commits lists the unguarded 'fix:' commits made in /repo (genuine defects repaired; see known_findings.json 'fixed'). No guarded hook commits exist.",
    }
    json.dump(m,open("/verif/MANIFEST.json","w"),indent=1)
    print("claimed:",sorted(CHECKS),"not claimed:",len(na))
main()
