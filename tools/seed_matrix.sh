#!/bin/bash
# tools/seed_matrix.sh [pattern]: for every kept seed (/verif/seeded/<id>-<x>/patch.diff, optionally filtered by a
# glob pattern) runs the quick check of the property it targets in a side laboratory (tools/lab.sh: scratch worktree
# of /repo's HEAD + scratch copy of /verif; neither /repo nor /verif is touched) and writes /verif/seeded/RESULTS.md.
pat=${1:-C*}
out=/verif/seeded/RESULTS.md
tmp=$(mktemp)
for d in $(ls -d /verif/seeded/$pat/ | xargs -n1 basename); do
  id=${d%%-*}
  line=$(LAB_IDS=3 /verif/tools/lab.sh m_$d /verif/seeded/$d/patch.diff $id 2>&1 | grep "^m_$d $id" | head -1)
  if [ -z "$line" ]; then echo "| $d | $id | - | patch does not apply at HEAD |" >> $tmp; echo "$d: patch does not apply"; continue; fi
  rc=$(echo "$line" | sed -n 's/.* exit=\([0-9]*\) .*/\1/p')
  ids=$(echo "$line" | sed 's/.*wall=[0-9.]*s //; s/^m_[^ ]* [^ ]* exit=[0-9]* *//' | sed 's/|/\\|/g')
  echo "| $d | $id | $rc | ${ids:-none} |" >> $tmp
  echo "$d $id exit=$rc"
done
{ echo "# Seeded changes versus the quick check of the targeted property (HEAD $(git -C /repo log --format=%h -1), $(date -u +%F))"; echo;
  echo "exit 1 = the check reports a VIOLATION with the seed applied (caught); 0 = not caught."; echo;
  echo "| seed | check | exit | first violation identities |"; echo "|---|---|---|---|"; sort $tmp; } > $out
rm -f $tmp
