#!/bin/bash
# tools/seed_matrix.sh [pattern] [parallel]: for every kept seed (/verif/seeded/<id>-<x>/patch.diff, optionally filtered by
# a glob pattern) runs the quick check of the property it targets in a side laboratory (tools/lab.sh with the committed
# harness: scratch worktree of /repo's HEAD + a copy of /verif's HEAD; neither /repo nor /verif is touched) and writes
# /verif/seeded/RESULTS.md. A patch that no longer applies to /repo's HEAD (a later fix: commit touched the same lines)
# is applied with a 3-way merge when that is conflict-free, else listed as not applicable.
pat=${1:-C*}
par=${2:-3}
out=/verif/seeded/RESULTS.md
tmpd=$(mktemp -d)
one() {
  d=$1; id=${d%%-*}; p=/verif/seeded/$d/patch.diff
  if ! git -C /repo apply --check $p 2>/dev/null; then
    wt=$(mktemp -d /tmp/lab/reb_XXXX); git -C /repo worktree add --detach $wt HEAD >/dev/null 2>&1
    if git -C $wt apply --3way $p >/dev/null 2>&1 && ! git -C $wt diff --name-only --diff-filter=U | grep -q .; then
      git -C $wt diff HEAD > $tmpd/$d.rebased.diff; p=$tmpd/$d.rebased.diff
    else p=""; fi
    git -C /repo worktree remove --force $wt >/dev/null 2>&1
  fi
  if [ -z "$p" ]; then echo "| $d | $id | - | patch does not apply at HEAD |" > $tmpd/$d.row; echo "$d: patch does not apply"; return; fi
  line=$(LAB_COMMITTED=1 LAB_IDS=3 /verif/tools/lab.sh m_$d $p $id 2>&1 | grep "^m_$d $id" | head -1)
  rc=$(echo "$line" | sed -n 's/.* exit=\([0-9]*\) .*/\1/p')
  ids=$(echo "$line" | sed 's/.*wall=[0-9.]*s //; s/^m_[^ ]* [^ ]* exit=[0-9]* *//' | sed 's/|/\\|/g')
  echo "| $d | $id | ${rc:-?} | ${ids:-none} |" > $tmpd/$d.row
  echo "$d $id exit=$rc"
}
export -f one; export tmpd
mkdir -p /tmp/lab
ls -d /verif/seeded/$pat/ | xargs -n1 basename | xargs -P $par -I{} bash -c 'one {}'
python3 - "$out" "$tmpd" "$(git -C /repo log --format=%h -1)" "$(git -C /verif log --format=%h -1)" "$(date -u +%F)" <<'PY'
import sys,glob,re,os
out,tmpd,repo,verif,day=sys.argv[1:6]
rows={}
if os.path.exists(out):                       # keep the rows of seeds that were not re-run (partial refresh with a pattern)
    old=open(out).read()
    m=re.search(r'/verif HEAD ([0-9a-f]+)',old); oldh=m.group(1) if m else '?'
    for l in old.splitlines():
        if l.startswith('| C'):
            c=[x.strip() for x in re.split(r'(?<!\\)\|',l)[1:-1]]
            if len(c)==4: c.append(oldh)
            rows[c[0]]=c
for f in glob.glob(tmpd+'/*.row'):
    l=open(f).read().strip()
    c=[x.strip() for x in re.split(r'(?<!\\)\|',l)[1:-1]]
    c.append(verif); rows[c[0]]=c
with open(out,'w') as w:
    w.write(f"# Seeded changes versus the quick check of the targeted property (/repo HEAD {repo}, /verif HEAD {verif}, {day})\n\n")
    w.write("exit 1 = the check reports a VIOLATION with the seed applied (caught); 0 = not caught. The last column is the /verif commit the row was produced with (tools/seed_matrix.sh refreshes the rows matching its pattern and keeps the others).\n\n")
    w.write("| seed | check | exit | first violation identities | harness |\n|---|---|---|---|---|\n")
    for k in sorted(rows): w.write("| "+" | ".join(rows[k])+" |\n")
PY
rm -rf $tmpd
