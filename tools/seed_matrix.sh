#!/bin/bash
# tools/seed_matrix.sh: runs, for every kept seed, the quick check of the property it targets against /repo with the
# seed applied (and restored afterwards); writes /verif/seeded/RESULTS.md. /repo must be clean.
out=/verif/seeded/RESULTS.md
echo "# Seeded changes versus the quick checks (HEAD $(git -C /repo log --format=%h -1), $(date -u +%F))" > $out
echo >> $out
echo "| seed | check | exit | first violation identities |" >> $out
echo "|---|---|---|---|" >> $out
for d in $(ls -d /verif/seeded/C*/ | xargs -n1 basename); do
  id=${d%%-*}
  if ! git -C /repo diff --quiet; then echo "/repo dirty"; exit 2; fi
  if ! git -C /repo apply /verif/seeded/$d/patch.diff 2>/dev/null; then echo "| $d | $id | - | patch does not apply |" >> $out; continue; fi
  log=$(/verif/vrun $id quick 2>&1); rc=$?
  git -C /repo checkout -- . ; git -C /repo clean -fdq
  ids=$(echo "$log" | grep "^  identity:" | head -3 | sed 's/^  identity: //' | tr '\n' ';' | sed 's/|/\\|/g')
  echo "| $d | $id | $rc | ${ids:-none} |" >> $out
  echo "$d $id exit=$rc"
done
