#!/bin/bash
# tools/try_seed.sh <patch.diff> <check id>...   applies a seeded change to /repo, runs the quick checks, reverts.
patch="$1"; shift
if ! git -C /repo diff --quiet; then echo "/repo has uncommitted changes"; exit 2; fi
git -C /repo apply "$patch" || { echo "patch does not apply"; exit 2; }
for id in "$@"; do
  echo "=== $id on $(basename $(dirname $patch))/$(basename $patch)"
  /verif/vrun $id quick 2>&1 | grep -E "^(VIOLATION|KNOWN-FINDING|C[0-9]+ tier|BUILD-FAILED|HANG|  identity)" | head -${SEED_LINES:-12}
  echo "exit=${PIPESTATUS[0]}"
done
git -C /repo checkout -- . && git -C /repo clean -fdq
