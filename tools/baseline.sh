#!/bin/bash
# Runs the repository's own test suite (guard off: there is no guard in /repo) and compares with BASELINE.json.
export GOFLAGS=-mod=mod GOPROXY=off
cd /repo || exit 2
out=$(mktemp)
go test -json -vet=off -count=1 -timeout 25m ./... > "$out" 2>&1
python3 - "$out" <<'PY'
import json,sys
passed=set();failed=set()
for l in open(sys.argv[1]):
    try: e=json.loads(l)
    except Exception: continue
    if e.get('Test') and e.get('Action') in('pass','fail'):
        k=e['Package']+'::'+e['Test']
        (passed if e['Action']=='pass' else failed).add(k)
base=json.load(open('/root/.vp/BASELINE.json'))
import ast
sp=base['stable_pass']
if isinstance(sp,str): sp=ast.literal_eval(sp)
missing=[t for t in sp if t not in passed]
print(f"passed={len(passed)} failed={len(failed)} baseline={len(sp)} baseline_missing={len(missing)}")
for t in sorted(failed)[:20]: print("FAIL",t)
for t in missing[:20]: print("MISSING",t)
sys.exit(0 if not failed and not missing else 1)
PY
rc=$?
rm -f "$out"
exit $rc
