#!/bin/bash
# tools/confirm_seed2.sh <Cxx> <a|b> <dest suffix c|d>: confirm a round-2 seed (made against HEAD) in its worktree and copy to /verif/seeded/<Cxx>-<suffix>/
id=$1; v=$2; sfx=$3
export GOFLAGS=-mod=mod GOPROXY=off
wt=/tmp/wt2/$id; src=${SRC_ROOT:-/tmp/wt2/out}/$id/$v
cd "$wt" || exit 2
git checkout -q -- . ; git clean -fdq
place=$(head -1 $src/demo_test.go | sed -n 's#.*place in: *\([^ ]*\).*#\1#p')
[ -n "$place" ] || { echo "$id/$v: no placement comment"; exit 2; }
git apply $src/patch.diff || { echo "$id/$v: patch does not apply"; exit 2; }
suite=$(go test -vet=off -count=1 -timeout 25m ./... 2>&1 | grep -v "^ok\|no test files" | head -5)
[ -z "$suite" ] && suite_ok=yes || suite_ok="no: $suite"
cp $src/demo_test.go $place
pkg=./$(dirname $place)
go test $DEMO_FLAGS -vet=off -count=1 -run . $pkg >/dev/null 2>&1; with=$?
git checkout -q -- . 
go test $DEMO_FLAGS -vet=off -count=1 -run . $pkg >/dev/null 2>&1; without=$?
rm -f $place; git clean -fdq
echo "$id/$v suite_with_change=$suite_ok demo_with_change_exit=$with demo_without_exit=$without"
if [ "$suite_ok" = yes ] && [ $with -ne 0 ] && [ $without -eq 0 ]; then
  d=/verif/seeded/$id-$sfx; mkdir -p $d
  cp $src/patch.diff $d/patch.diff; cp $src/demo_test.go $d/demo_test.go
  python3 - $src/meta.json $d/meta.json "$place" "$(git -C /repo log --format=%h -1)" <<'PY'
import json,sys
m=json.load(open(sys.argv[1]))
m['demo_placement']=sys.argv[3]
m["round"]=int(__import__("os").environ.get("SEED_ROUND","2"))
m['confirmed_by_me']={'base_commit':sys.argv[4],'suite_with_change':'all packages ok (go test -vet=off -count=1 ./...)','demo_with_change':'FAIL','demo_without_change':'PASS'}
json.dump(m,open(sys.argv[2],'w'),indent=1)
PY
  echo "$id/$v CONFIRMED -> $d"
else
  echo "$id/$v NOT CONFIRMED"
fi
