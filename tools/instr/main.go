// instr: E5 instrumenter. Parses every non-test Go file of every package in /repo's *current*
// working tree, inserts zzvsched.P(<id>) before every statement of every block / case body,
// writes the copies under /verif/.build/instr/, a per-package zz_vglobals.go exposing the
// addresses of all package-level variables, the virtual package zzvsched, a generated harness
// file listing the packages, and overlay.json for `go build -overlay`. /repo is never modified.
package main

import (
	"bytes"
	"encoding/json"
	"fmt"
	"go/ast"
	"go/format"
	"go/parser"
	"go/token"
	"os"
	"path/filepath"
	"sort"
	"strings"
)

const schedSrc = `// Package zzvsched exists only in the instrumented (overlay) build.
package zzvsched

// Hook is installed by the harness; it runs on the goroutine executing instrumented code.
var Hook func(id int)

// Steps counts executed statement-level points (a deterministic clock).
var Steps int64

// P is called before every statement of the library.
func P(id int) {
	Steps++
	if h := Hook; h != nil {
		h(id)
	}
}
`

func main() {
	vroot := os.Getenv("VERIF_ROOT")
	if vroot == "" {
		vroot = "/verif"
	}
	root, out := "/repo", vroot+"/.build/instr"
	if v := os.Getenv("VERIF_REPO"); v != "" {
		root = v
	}
	os.RemoveAll(out)
	must(os.MkdirAll(out, 0o755))
	overlay := map[string]string{}
	nextID := 0
	var pkgs []string // import paths with globals
	pkgName := map[string]string{}
	entries, _ := os.ReadDir(root)
	for _, e := range entries {
		if !e.IsDir() || strings.HasPrefix(e.Name(), ".") || e.Name() == "fuzz" {
			continue
		}
		dir := filepath.Join(root, e.Name())
		files, _ := filepath.Glob(filepath.Join(dir, "*.go"))
		var globals []string
		name := ""
		for _, f := range files {
			if strings.HasSuffix(f, "_test.go") {
				continue
			}
			fset := token.NewFileSet()
			af, err := parser.ParseFile(fset, f, nil, 0)
			must(err)
			name = af.Name.Name
			for _, d := range af.Decls {
				if gd, ok := d.(*ast.GenDecl); ok && gd.Tok == token.VAR {
					for _, s := range gd.Specs {
						for _, n := range s.(*ast.ValueSpec).Names {
							if n.Name != "_" {
								globals = append(globals, n.Name)
							}
						}
					}
				}
			}
			n := 0
			skip := map[*ast.BlockStmt]bool{} // bodies of switch/select hold clauses, not statements
			ast.Inspect(af, func(node ast.Node) bool {
				switch x := node.(type) {
				case *ast.SwitchStmt:
					skip[x.Body] = true
				case *ast.TypeSwitchStmt:
					skip[x.Body] = true
				case *ast.SelectStmt:
					skip[x.Body] = true
				case *ast.BlockStmt:
					if skip[x] {
						return true
					}
					x.List = instrument(x.List, &nextID, &n)
				case *ast.CaseClause:
					x.Body = instrument(x.Body, &nextID, &n)
				case *ast.CommClause:
					x.Body = instrument(x.Body, &nextID, &n)
				}
				return true
			})
			if n == 0 {
				continue
			}
			addImport(af)
			var b bytes.Buffer
			must(format.Node(&b, fset, af))
			dst := filepath.Join(out, e.Name(), filepath.Base(f))
			must(os.MkdirAll(filepath.Dir(dst), 0o755))
			must(os.WriteFile(dst, b.Bytes(), 0o644))
			overlay[f] = dst
		}
		if name == "" {
			continue
		}
		sort.Strings(globals)
		var g bytes.Buffer
		fmt.Fprintf(&g, "package %s\n\n// ZZVGlobals exposes the addresses of every package-level variable (instrumented build only).\nfunc ZZVGlobals() map[string]any {\n\treturn map[string]any{\n", name)
		for _, v := range globals {
			fmt.Fprintf(&g, "\t\t%q: &%s,\n", v, v)
		}
		g.WriteString("\t}\n}\n")
		gf := filepath.Join(out, e.Name(), "zz_vglobals.go")
		must(os.MkdirAll(filepath.Dir(gf), 0o755))
		must(os.WriteFile(gf, g.Bytes(), 0o644))
		overlay[filepath.Join(dir, "zz_vglobals.go")] = gf
		pkgs = append(pkgs, e.Name())
		pkgName[e.Name()] = name
	}
	// virtual scheduler package inside the library's module
	sf := filepath.Join(out, "zzvsched", "sched.go")
	must(os.MkdirAll(filepath.Dir(sf), 0o755))
	must(os.WriteFile(sf, []byte(schedSrc), 0o644))
	overlay[filepath.Join(root, "zzvsched", "sched.go")] = sf
	// generated harness file: all globals of all packages
	var h bytes.Buffer
	h.WriteString("//go:build vinstr\n\npackage checks\n\nimport (\n")
	for i, p := range pkgs {
		fmt.Fprintf(&h, "\tg%d \"github.com/go-i2p/common/%s\"\n", i, p)
	}
	h.WriteString(")\n\n// allGlobals returns pointers to every package-level variable of every library package.\nfunc allGlobals() map[string]any {\n\tout := map[string]any{}\n")
	for i, p := range pkgs {
		fmt.Fprintf(&h, "\tfor k, v := range g%d.ZZVGlobals() {\n\t\tout[%q+k] = v\n\t}\n", i, p+".")
	}
	h.WriteString("\treturn out\n}\n")
	hf := filepath.Join(out, "zz_c18_globals.go")
	must(os.WriteFile(hf, h.Bytes(), 0o644))
	overlay[vroot+"/checks/zz_c18_globals.go"] = hf
	ob, _ := json.MarshalIndent(map[string]any{"Replace": overlay}, "", " ")
	must(os.WriteFile(filepath.Join(out, "overlay.json"), ob, 0o644))
	fmt.Printf("instr: %d yield points, %d files, %d packages\n", nextID, len(overlay), len(pkgs))
}

func instrument(list []ast.Stmt, next *int, n *int) []ast.Stmt {
	if len(list) == 0 {
		return list
	}
	out := make([]ast.Stmt, 0, 2*len(list))
	for _, s := range list {
		call := &ast.ExprStmt{X: &ast.CallExpr{
			Fun:  &ast.SelectorExpr{X: ast.NewIdent("zzvsched"), Sel: ast.NewIdent("P")},
			Args: []ast.Expr{&ast.BasicLit{Kind: token.INT, Value: fmt.Sprint(*next)}},
		}}
		*next++
		*n++
		out = append(out, call, s)
	}
	return out
}

func addImport(af *ast.File) {
	spec := &ast.ImportSpec{Name: ast.NewIdent("zzvsched"), Path: &ast.BasicLit{Kind: token.STRING, Value: `"github.com/go-i2p/common/zzvsched"`}}
	decl := &ast.GenDecl{Tok: token.IMPORT, Specs: []ast.Spec{spec}}
	af.Decls = append([]ast.Decl{decl}, af.Decls...)
}

func must(err error) {
	if err != nil {
		fmt.Fprintln(os.Stderr, "instr:", err)
		os.Exit(1)
	}
}
