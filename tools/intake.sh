#!/bin/bash
# tools/intake.sh <out dir of one change, e.g. /tmp/wt5/out/C07/i> <seed name, e.g. C07-i> [extra check ids...]
# Confirms a sub-agent's change myself in a fresh scratch worktree of /repo's HEAD (patch applies; the unedited suite stays
# green with it; the demonstration fails with it and passes without it), keeps it as /verif/seeded/<name>/ with the
# confirmation recorded in meta.json, then runs the targeted property's quick check against it in a side laboratory.
src=$1; name=$2; shift 2
id=${name%%-*}
d=/verif/seeded/$name
export GOFLAGS=-mod=mod GOPROXY=off
[ -f $src/patch.diff ] && [ -f $src/demo_test.go ] && [ -f $src/meta.json ] || { echo "$name: incomplete deliverable in $src"; exit 2; }
wt=/tmp/wt/intake-$name
git -C /repo worktree remove --force $wt >/dev/null 2>&1; rm -rf $wt
git -C /repo worktree add --detach $wt HEAD >/dev/null 2>&1 || { echo "$name: cannot create worktree"; exit 2; }
cd $wt || exit 2
place=$(python3 -c "import json;print(json.load(open('$src/meta.json')).get('demo_placement',''))")
[ -n "$place" ] || place=$(head -1 $src/demo_test.go | sed -n 's#.*place in: *\([^ ]*\).*#\1#p')
if ! git apply $src/patch.diff 2>/dev/null; then echo "$name: patch does not apply"; cd /; git -C /repo worktree remove --force $wt; exit 2; fi
if git diff --name-only | grep -q "_test.go"; then echo "$name: patch touches test files"; fi
go build ./... 2>&1 | head -3
suite=$(go test -vet=off -count=1 -timeout 25m ./... 2>&1 | grep -v "^ok\|no test files" | head -5 | tr '\n' ' ')
if echo "$suite" | grep -q "TestBlindedPublicKeyReturnsCopy" ; then suite=$(go test -vet=off -count=1 -timeout 25m ./... 2>&1 | grep -v "^ok\|no test files" | head -5 | tr '\n' ' '); fi
[ -z "$suite" ] && suite_ok=yes || suite_ok="no: $suite"
cp $src/demo_test.go $place
pkg=./$(dirname $place)
race=""; grep -q -- "-race" $src/meta.json && race="-race"
go test -vet=off -count=1 $race -run TestSeedDemo $pkg >/tmp/wt/intake-$name.with 2>&1; with=$?
git apply -R $src/patch.diff
go test -vet=off -count=1 $race -run TestSeedDemo $pkg >/tmp/wt/intake-$name.without 2>&1; without=$?
cd /; git -C /repo worktree remove --force $wt >/dev/null 2>&1; rm -rf $wt
head=$(git -C /repo log --format=%h -1)
echo "$name HEAD=$head suite_with_change=$suite_ok demo_with_change_exit=$with demo_without_change_exit=$without"
if [ "$suite_ok" != yes ] || [ $with -eq 0 ] || [ $without -ne 0 ]; then echo "$name: NOT CONFIRMED (kept nothing)"; tail -5 /tmp/wt/intake-$name.with /tmp/wt/intake-$name.without; exit 1; fi
rm -f /tmp/wt/intake-$name.with /tmp/wt/intake-$name.without
mkdir -p $d; cp $src/patch.diff $src/demo_test.go $src/meta.json $d/
python3 - "$d/meta.json" "$head" "$race" <<'PY'
import json,sys
m=json.load(open(sys.argv[1])); m["round"]=int(__import__("os").environ.get("ROUND","6"))
m['confirmed_by_me']={'base_commit':sys.argv[2],'suite_with_change':'all packages ok (go test -vet=off -count=1 ./...)','demo_with_change':'FAIL','demo_without_change':'PASS','demo_flags':sys.argv[3]}
json.dump(m,open(sys.argv[1],'w'),indent=1)
PY
LAB_COMMITTED=1 LAB_IDS=4 /verif/tools/lab.sh in_$name $d/patch.diff $id "$@"
