#!/bin/bash
# tools/confirm_seed_head.sh <seed dir name>: confirm a kept seed against /repo's HEAD (which contains the fix: commits):
# the unedited suite passes with the change; the demo fails with it and passes without it. Appends to meta.json.
d=/verif/seeded/$1
export GOFLAGS=-mod=mod GOPROXY=off
wt=/tmp/wt/head-$1
git -C /repo worktree remove --force $wt >/dev/null 2>&1
git -C /repo worktree add --detach $wt HEAD >/dev/null 2>&1 || { echo "$1: cannot create worktree"; exit 2; }
cd $wt || exit 2
place=$(python3 -c "import json;print(json.load(open('$d/meta.json')).get('demo_placement',''))")
[ -n "$place" ] || place=$(head -1 $d/demo_test.go | sed -n 's#.*place in: *\([^ ]*\).*#\1#p')
res="patch_applies=no"
if git apply $d/patch.diff 2>/dev/null; then
  suite=$(go test -vet=off -count=1 -timeout 25m ./... 2>&1 | grep -v "^ok\|no test files" | head -3 | tr '\n' ' ')
  [ -z "$suite" ] && suite_ok=yes || suite_ok="no: $suite"
  cp $d/demo_test.go $place
  pkg=./$(dirname $place)
  go test -vet=off -count=1 -run . $pkg >/dev/null 2>&1; with=$?
  git checkout -q -- . 
  go test -vet=off -count=1 -run . $pkg >/dev/null 2>&1; without=$?
  res="patch_applies=yes suite_with_change=$suite_ok demo_with_change_exit=$with demo_without_change_exit=$without"
fi
cd /; git -C /repo worktree remove --force $wt >/dev/null 2>&1
echo "$1 HEAD=$(git -C /repo log --format=%h -1) $res"
python3 - "$d/meta.json" "$(git -C /repo log --format=%h -1)" "$res" <<'PY'
import json,sys
m=json.load(open(sys.argv[1])); m['confirmed_at_HEAD']={'head':sys.argv[2],'result':sys.argv[3]}
json.dump(m,open(sys.argv[1],'w'),indent=1)
PY
