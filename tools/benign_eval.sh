#!/bin/bash
# tools/benign_eval.sh <out root> : runs ALL quick checks (side laboratory) on every behaviour-preserving change found
# under <out root>/*/*/patch.diff; one line per (change, check); any exit other than 0 is an alarm to classify.
root=${1:-/tmp/wt4/out}
for p in $(ls $root/*/*/patch.diff 2>/dev/null | sort); do
  n=$(echo $p | sed "s#$root/##; s#/patch.diff##; s#/#_#g")
  grep -q "^$n DONE" $root/../eval.log 2>/dev/null && continue
  /verif/tools/lab.sh bn_$n $p C02 C06 C07 C08 C10 C11 C12 C13 C14 C15 C16 C17 C19 C20 C05 C09 C04 C01 C03 C18
  echo "$n DONE"
done
