#!/bin/bash
# tools/lab.sh <name> <patch.diff|-> <Cxx>...   side laboratory: runs quick checks against a scratch copy of the
# library (worktree of /repo's HEAD + the patch) with a scratch copy of the committed+working /verif harness, so that
# neither /repo nor /verif is touched and several labs can run side by side. Prints one line per check; removes
# the scratch directories afterwards. Not a registered command: a development tool for seeded / benign changes.
name=$1; patch=$2; shift 2
lab=/tmp/lab/$name
export GOFLAGS=-mod=mod GOPROXY=off
rm -rf $lab; mkdir -p $lab
git -C /repo worktree prune
git -C /repo worktree add --detach $lab/repo HEAD >/dev/null 2>&1 || { echo "$name: cannot create worktree"; exit 2; }
if [ "$patch" != "-" ]; then
  git -C $lab/repo apply "$patch" || { echo "$name: patch does not apply"; git -C /repo worktree remove --force $lab/repo; rm -rf $lab; exit 2; }
fi
if [ -n "$LAB_COMMITTED" ]; then
  # harness as committed (HEAD of /verif): immune to edits in progress while a long batch runs
  mkdir -p $lab/verif && git -C /verif archive HEAD | tar -x -C $lab/verif --exclude=seeded --exclude=evidence --exclude=replays
else
  rsync -a --exclude bin --exclude .build --exclude replays --exclude evidence --exclude seeded --exclude .git /verif/ $lab/verif/
fi
sed -i "s#=> /repo#=> $lab/repo#" $lab/verif/go.mod
export VERIF_REPO=$lab/repo
for id in "$@"; do
  out=$($lab/verif/vrun $id ${LAB_TIER:-quick} 2>&1); rc=$?
  ids=$(echo "$out" | grep "^  identity:" | head -${LAB_IDS:-3} | sed 's/^  identity: //' | tr '\n' ';')
  tierline=$(echo "$out" | grep -E "^C[0-9]+ tier" | sed 's/ evaluations.*exhaustive=/ exhaustive=/')
  echo "$name $id exit=$rc $tierline ${ids}"
  if [ $rc -ne 0 ] && [ $rc -ne 1 ]; then echo "$out" | tail -5; fi
done
git -C /repo worktree remove --force $lab/repo >/dev/null 2>&1
rm -rf $lab
